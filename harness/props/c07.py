"""
C07 — export then reload reproduces names, time and data; unsafe exports are refused.

Tie (model `Qats.Export` vs /repo, exact Rat execution on dyadic inputs):
  check    `TsDB._check_time_arrays(container, twin=, resample=)` and `TsDB.is_common_time`: decision, dtg rule, recommended
           window, deviations left after the handled ones are removed
  cct      `TsDB.create_common_time(names, twin)`
  names    `TsDB._make_export_friendly_names` (basename / shortened keys, collisions)
  export   the *effect trace* of `TsDB.export` observed by wrapping `os.makedirs`, `getm`, `_make_export_friendly_names`,
           `_check_time_arrays`, `create_common_time`, `TimeSeries.get` and the four writers (what they are handed), with the stage
           functions replaced by the tag functions of C11 on both sides
  codec    key file text / `read_ts_names`, `.dat` header / `read_dat_names`, direct-access words / `read_ts_data`,
           h5 attributes + rebuilt time array / `read_sima_h5_*` against files written by the real writers
Search (oracles on the unpatched implementation): export -> `TsDB.fromfile` -> arrays compared, at the format's precision, with
in-memory retrieval with the same options of every selected series ON ITS OWN from a reference database in which nothing is ever
stored (so a request for several series, in whatever order, cannot hide behind an equally wrong reference); the request as a whole
(`getda(names=..., **kwargs)`) must return exactly those arrays; without options a file-backed source returns what its file was
written with. Four target formats x options x in-memory / file-backed (.pkl .ts .dat .h5) sources x histories of the exporting
database (nothing read yet / selection retrieved and stored / one selected series stored) x target named by absolute path / bare
file name in the working directory / relative path; "differing processed time arrays were written"; "target modified although
export raised"; "existing file overwritten although exist_ok=False"; `is_common_time` on lattice series.
Audit additions: the model definitions `encodeRows`/`decodeRows`/`encodePkl`/`decodePkl`/`isCommonTime` are executed by the driver
(`ex.rows`, `ex.pkl`, `ex.iscommon`) and compared with `write_dat_data`/`read_dat_data`, `pickle_format.write_data`/`read_pickle_names`/
`read_data`, `TsDB.is_common_time`; round trips over spellings of the call and of the options, array types, non-finite data, extreme
magnitudes, real pre-existing exports, several exports in a row from one database object, the GUI's entry point
`qats.app.funcs.export_to_file`; every exception of the implementation inside the harness becomes a failing clause.
Round 5: series whose time arrays agree within the closeness `export` accepts (rtol 1e-9, atol 1e-12) but not to the last bit
(`gen_close`, corner cases linspace vs sample number / 10) exported together to every format, and the writers called directly on
such records (`writers_close`, input kind 'wclose'): one time column, n rows, every data column row for row.
Round 6: exports with `resample` given as a time ARRAY that is related to the series' own time arrays (`gen_roundoff` /
`gen_resarr`, corner 'resarr'): series covering (parts of) one nominal grid with their own start, stride and way of computing the
instants (o+i*h, own origin, arange, linspace, sample number / rate, running sum), resampled to the time array of one of them (whole or
cut to the common window), to `np.arange(start, end + dt, dt)` as the refusal message of `export` recommends, to linspace over the
common window, with the first / last instant moved by one bit or by 1e-10 relative -- so that the array ends exactly on, or beyond by
round-off only, the end of some of the series. Every clause of the round trip applies: refused without touching the target, or one
time column and the arrays in-memory retrieval returns; for in-memory sources additionally a reference that does not go through the
library (np.interp of the arrays the series were built from on the requested array).
Known findings reported through matchers (ids below): F19 (.dat name like time*), F19b (.pkl name 'Time'), F30 (fewer than two
processed samples), F31 ('.ts' elsewhere in the target path), F32 (resample given as a list + .ts), F-C07-existok (exist_ok given as 0 / numpy.bool_(False): the existing file is overwritten; found by the
audit, needs an entry in known_findings.json or the repair `not exist_ok`).  The model also encodes
that `_check_time_arrays` raises TypeError for non-overlapping series (robustness defect, the export is still refused).
"""
import contextlib
import datetime
import fnmatch as pyfnmatch
import io
import json
import os
import shutil
import struct
import tempfile
import traceback
from collections import OrderedDict
from fractions import Fraction

import numpy as np

from .. import core
from ..core import rat
from ..dbutil import hx, unhx, hxlist, unhxlist

# ids of the known findings this check reports through matchers (see the report to the lead / known_findings.json)
F19 = "F19"      # .dat: a series name matching [Tt]ime* makes the reload fail (duplicate time vectors)
F19B = "F19b"    # .pkl: a series named exactly 'Time' makes the reload fail (df.insert(0, "Time", …))
F30 = "F30"      # processed arrays with fewer than two samples are written but cannot be reloaded (.ts garbage, .dat/.pkl error,
                 # .h5 raises after truncating the target)
F31 = "F31"      # .ts target whose path contains '.ts' elsewhere: load looks for the wrong key file (str.replace)
F32 = "F32"      # resample given as a list + .ts target: RuntimeError after the target was truncated
FXOK = "F-C07-existok"     # exist_ok given as 0 / numpy.bool_(False): `exist_ok is False` does not hold, the existing file is overwritten
                 # (reported by the audit of this check; set EXIST_OK_SPELLINGS = False to leave the spelling out of the search)
EXIST_OK_SPELLINGS = True

RULE = ("correspondence: seeded dyadic databases of 1-4 series in the families identical / common lattice / off lattice / same span "
        "non-uniform / different step / disjoint, with and without dtg_ref, x twin (inside, on, beyond the common window) x resample "
        "(step, array, none) x force_common_time x basename x target exists/exist_ok x missing directory x extension; friendly names "
        "on generated key sets (files in 1-3 directories, in-memory names, unit brackets); codecs on names over the formats' alphabets. "
        "round trips: decimal and dyadic time grids (2-1200 samples incl. the 500-row flush boundary of the ascii writer), data over "
        "six decades, in-memory / pickle- / direct-access- / ascii- / h5-backed sources (several series per file), selections (all, "
        "one, list in file order / reversed / shuffled, wildcard), exporting database fresh / selection stored / one series stored, "
        "target as absolute path / bare file name in the working directory / relative path, options (window, resample step/array, "
        "low/high/band-pass, taper, smoothing), pre-existing targets with overwriting allowed or not; direct-access records "
        "requested by index in any order (codec); ascii rows / pickled frames of exactly printable values against encodeRows / "
        "decodeRows / encodePkl / decodePkl, isCommonTime against is_common_time. Audit classes in the round trips: the call spelled "
        "differently (names positional / tuple, all arguments positional, qats.app.funcs.export_to_file, window as list / ndarray / ints, "
        "step as numpy float32/64, integer time array, filterargs as list, options passed as None, options that do nothing, truth values "
        "as numpy bool / int, ascii delimiters of blanks, targets with dots / blanks / './' / '..', reload by absolute path / load([..])), "
        "series built from int64 / float32 / strided / shared arrays, nan and +-inf in the data, data in units of 2^+-100 (2^+-200 where "
        "representable), time offset 1e5, series of two samples, names resembling keywords / comments / numbers / differing in case, "
        "an existing target that is a larger real export, up to three exports in a row from one database object (other format / options "
        "/ selection / target, after refusals, the same option objects again); references: per-series retrieval from a second database "
        "and, for in-memory sources without options other than a window, the arrays the series were built from; "
        "time arrays equal to rounding only (one grid computed as o+i*h / linspace / sample number over sample rate / running sum, "
        "single-bit differences, scaled by 1+1e-10; and, to be refused, scaled by 1+5e-9, through float32, through 7 digits): several "
        "such series from memory or from separate pickle / h5 / direct-access / ascii files exported together to every format, windows "
        "ending on a sample of one of them or between samples, force_common_time (written as they are or resampled: both allowed); "
        "the four writers called directly with the common time array and every series' own close time array; "
        "resample given as a time array related to the series' own arrays: series on parts of one nominal grid (own start, stride 1/2/5, "
        "instants computed as o+i*h / from the own origin / arange / linspace / sample number over rate / running sum) resampled to the time "
        "array of one of them (whole, cut to the common window), arange(start, end+dt, dt) as the refusal message recommends, "
        "arange(start, end+dt/2, dt), linspace over the common window, the first / last instant one bit (or 4 ulp, or 1e-10 relative) "
        "outside / inside the common window; array or list; the same array object again in a later export; "
        "non-trivial = more than one series or any option; distinct by full case; "
        "eighth round (stream `long`, c07_long.py, oracles only): 16 (quick) / 64 (thorough) exports of 2-3 series with 999 / 1000 / 1001 / "
        "1023 / 1024 / 1025 / 4095 / 4096 / 4097 / 9999 / 10000 / 10001 / 65535 / 65536 / 65537 / 70001 samples (quick: per format one size around "
        "1000 / 1024 and one of each of the bands around 4096, 10000 and 65536) from an in-memory or .pkl-backed database, no options / "
        "a window whose limits are samples at multiples of 512 ... 65536 or the last three samples / resampling, a pre-existing target with "
        "exist_ok=False, and series that differ ONLY in the last sample (moved by a quarter step / missing): round trip over the whole "
        "length against per-series in-memory retrieval, refusal without touching the target")

EXTS = [".ts", ".dat", ".h5", ".pkl"]


# ----------------------------------------------------------------------------------------------------------------------------------
# small helpers
# ----------------------------------------------------------------------------------------------------------------------------------
def quiet(f, *a, **k):
    with contextlib.redirect_stdout(io.StringIO()):
        return f(*a, **k)


def dtg_of(i):
    return None if i is None else datetime.datetime(2020, 1, 1) + datetime.timedelta(hours=int(i))


def err_kind(e):
    if isinstance(e, FileExistsError):
        return "fileexists"
    if isinstance(e, KeyError):
        return "key"
    if isinstance(e, AssertionError):
        return "assertion"
    if isinstance(e, IndexError):
        return "index"
    if isinstance(e, NotImplementedError):
        return "notimplemented"
    if isinstance(e, ValueError):
        return "value"
    if isinstance(e, TypeError):
        return "type"
    return type(e).__name__


def kw_of(kwj):
    """JSON description of the processing options -> keyword arguments of TimeSeries.get / TsDB.export"""
    kw = {}
    if kwj.get("twin") is not None:
        kw["twin"] = (float(kwj["twin"][0]), float(kwj["twin"][1]))
    r = kwj.get("resample")
    if r is not None:
        if r[0] == "step":
            kw["resample"] = float(r[1])
        elif r[0] == "arr":
            kw["resample"] = np.array([float(v) for v in r[1]])
        else:
            kw["resample"] = [float(v) for v in r[1]]
    if kwj.get("filterargs") is not None:
        kw["filterargs"] = tuple(kwj["filterargs"])
    if kwj.get("taperfrac") is not None:
        kw["taperfrac"] = float(kwj["taperfrac"])
    if kwj.get("window_len") is not None:
        kw["window_len"] = int(kwj["window_len"])
    return kw


def spell_bool(v, how):
    """the same truth value as a Python bool / numpy bool / int"""
    if how == "np":
        return np.bool_(bool(v))
    if how == "int":
        return int(bool(v))
    return bool(v)


def kw_spelled(case, span=None):
    """the options of `kw_of(case['kw'])` as the caller of this case spells them (case['spell']): the window as tuple / list / ndarray /
    tuple of ints, the step as float / numpy.float64 / numpy.float32, the time array as float or integer ndarray / list, filterargs as
    tuple / list, options passed explicitly as None, options that are given but do nothing (taperfrac=0.0, window_len=0 or 1, a window
    that contains every series). A spelling is only used where it denotes exactly the same value."""
    sp = case.get("spell") or {}
    kwj = case["kw"]
    kw = {}
    tw = kwj.get("twin")
    if tw is not None:
        a, b = float(tw[0]), float(tw[1])
        how = sp.get("twin", "tuple")
        if how == "list":
            kw["twin"] = [a, b]
        elif how == "nd":
            kw["twin"] = np.array([a, b])
        elif how == "int" and a == int(a) and b == int(b):
            kw["twin"] = (int(a), int(b))
        else:
            kw["twin"] = (a, b)
    r = kwj.get("resample")
    if r is not None:
        how = sp.get("resample")
        if r[0] == "step":
            v = float(r[1])
            if how == "f64":
                kw["resample"] = np.float64(v)
            elif how == "f32" and float(np.float32(v)) == v:
                kw["resample"] = np.float32(v)
            else:
                kw["resample"] = v
        elif r[0] == "arr":
            vals = [float(v) for v in r[1]]
            if how == "intarr" and all(v == int(v) for v in vals):
                kw["resample"] = np.array([int(v) for v in vals])
            else:
                kw["resample"] = np.array(vals)
        else:
            kw["resample"] = [float(v) for v in r[1]]
    if kwj.get("filterargs") is not None:
        kw["filterargs"] = list(kwj["filterargs"]) if sp.get("filterargs") == "list" else tuple(kwj["filterargs"])
    if kwj.get("taperfrac") is not None:
        kw["taperfrac"] = float(kwj["taperfrac"])
    if kwj.get("window_len") is not None:
        kw["window_len"] = int(kwj["window_len"])
    for k in sp.get("none", []):
        if k in ("twin", "resample", "filterargs", "taperfrac", "window_len") and k not in kw:
            kw[k] = None
    for z in sp.get("noop", []):
        if z == "taper0" and kw.get("taperfrac") is None:
            kw["taperfrac"] = 0.0
        elif z == "wl1" and kw.get("window_len") is None:
            kw["window_len"] = 1
        elif z == "wl0" and kw.get("window_len") is None:
            kw["window_len"] = 0
        elif z == "twin_all" and kw.get("twin") is None and span is not None and (r is None or r[0] == "step"):
            kw["twin"] = (float(span[0]) - 1.0, float(span[1]) + 1.0)
    return kw


class BuildRefused(Exception):
    """the database of a case cannot be built (the same key twice in memory)"""


def mem_arrays(case):
    """the arrays an in-memory case is built from, as float64 (time, data) per series: data cast to the case's dtype, non-finite
    values put where case['nonfinite'] says"""
    dt = case.get("dtype") or "f8"
    out = []
    for i, s in enumerate(case["series"]):
        t = np.array(s["t"], dtype=float)
        x = np.array(s["x"], dtype=float)
        for si, pos, what in case.get("nonfinite") or []:
            if si == i and len(x):
                x[pos % len(x)] = dict(nan=np.nan, inf=np.inf, ninf=-np.inf)[what]
        if dt == "i8":
            x = np.round(x)
        elif dt == "f4":
            x = x.astype(np.float32).astype(float)
        out.append((t, x))
    return out


def typed(a, dt, is_time):
    """`a` (float64) as the array object a caller would hold: int64 (integer-valued arrays), float32 (data), a strided view"""
    if dt == "i8" and np.all(np.isfinite(a)) and np.all(a == np.round(a)) and np.all(np.abs(a) < 2.0 ** 52):
        return a.astype(np.int64)
    if dt == "f4" and not is_time:
        return a.astype(np.float32)
    if dt == "view":
        base = np.zeros(2 * len(a) + 1)
        base[1::2] = a
        return base[1::2]
    return a


def write_pickle(path, names, t, cols):
    import pandas as pd
    os.makedirs(os.path.dirname(path), exist_ok=True)
    df = pd.DataFrame(OrderedDict((n, np.asarray(c, dtype=float)) for n, c in zip(names, cols)))
    df.index = np.asarray(t, dtype=float)
    df.to_pickle(path)


def build_db(case, root, write=True):
    """database described by case['series'] (name, file, t, x, dtg) from case['source'] in {'mem','pkl','ts','dat','h5'};
    write=False: the source files exist already (a second, freshly loaded database on the same files)"""
    from qats import TsDB, TimeSeries
    from qats.io.direct_access import write_ts_data
    from qats.io.other import write_dat_data
    from qats.io.sima_h5 import write_data as write_h5
    db = TsDB()
    if case["source"] == "mem":
        dt = case.get("dtype") or "f8"
        shared_t = None
        for s, (t, x) in zip(case["series"], mem_arrays(case)):
            tt = typed(t, dt, True)
            if dt == "shared":
                # one ndarray object is the time array of every series that has these times
                if shared_t is not None and shared_t.shape == t.shape and np.array_equal(shared_t, t):
                    tt = shared_t
                else:
                    shared_t = tt
            try:
                db.add(TimeSeries(s["name"], tt, typed(x, dt, False), dtg_ref=dtg_of(s.get("dtg"))))
            except KeyError:
                raise BuildRefused(s["name"])
        return db
    files = OrderedDict()
    for s in case["series"]:
        files.setdefault(s["file"], []).append(s)
    paths = []
    for rel, sers in files.items():
        p = os.path.join(root, "src", rel)
        paths.append(p)
        if not write:
            continue
        os.makedirs(os.path.dirname(p), exist_ok=True)
        t = np.array(sers[0]["t"], dtype=float)
        recs = OrderedDict((s["name"], (t, np.array(s["x"], dtype=float))) for s in sers)
        if case["source"] == "pkl":
            write_pickle(p, [s["name"] for s in sers], t, [s["x"] for s in sers])
        elif case["source"] == "dat":
            write_dat_data(p, t, recs)
        elif case["source"] == "h5":
            write_h5(p, recs)
        else:
            write_ts_data(p, t, recs)
    db.load(paths)
    return db


# ----------------------------------------------------------------------------------------------------------------------------------
# generators (every random choice derives from the check's rng)
# ----------------------------------------------------------------------------------------------------------------------------------
FAMILIES = ["ident", "ident", "lattice", "lattice", "offlattice", "samespan", "diffdt", "disjoint"]


def gen_times(rng, nser, family, exact=True, nmax=12):
    """time arrays (Fractions when exact) of `nser` series of the given family"""
    F = Fraction if exact else (lambda a, b=1: a / b)
    h = F(1, rng.choice([1, 2, 4])) * rng.choice([1, 2]) if exact else rng.choice([0.1, 0.25, 0.01, 1.0, 0.5, 0.05])
    o = F(rng.randint(-8, 8), 2) if exact else rng.choice([0.0, 0.0, 10.0, -3.5, 100.0, 1000.0] + ([1.0e5] if h >= 0.1 else []))
    n = rng.randint(2, nmax)
    base = [o + i * h for i in range(n)]
    out = []
    for j in range(nser):
        if family == "ident" or j == 0:
            out.append(list(base))
        elif family == "lattice":
            m = rng.randint(-2, 3)
            k = rng.randint(2, nmax)
            out.append([o + (m + i) * h for i in range(k)])
        elif family == "offlattice":
            m = rng.randint(-1, 2)
            k = rng.randint(2, nmax)
            out.append([o + (m + i) * h + h / 2 for i in range(k)])
        elif family == "samespan":
            # same start, end and mean step, but (for n > 2) different interior points
            t = list(base)
            if n > 2:
                i = rng.randrange(1, n - 1)
                t[i] = t[i] + (t[i + 1] - t[i]) / 2
            out.append(t)
        elif family == "diffdt":
            f = rng.choice([2, 3]) if exact else rng.choice([2, 2.5])
            k = rng.randint(2, nmax)
            s0 = base[0] if rng.random() < 0.6 else base[0] + h
            out.append([s0 + i * h * f for i in range(k)])
        else:  # disjoint
            k = rng.randint(2, 6)
            gap = h * rng.randint(0, 2)
            out.append([base[-1] + gap + i * h for i in range(k)])
    return out


def gen_twin(rng, times):
    cs, ce = max(t[0] for t in times), min(t[-1] for t in times)
    lo, hi = min(t[0] for t in times), max(t[-1] for t in times)
    pts = sorted(set(v for t in times for v in t))
    a = rng.choice([cs, lo, cs + (pts[1] - pts[0]), lo - 1, rng.choice(pts), cs])
    b = rng.choice([ce, hi, ce - (pts[1] - pts[0]), hi + 1, rng.choice(pts), ce])
    return (a, b)


def gen_resample(rng, times, twin_given):
    cs, ce = max(t[0] for t in times), min(t[-1] for t in times)
    k = rng.random()
    if k < 0.5:
        span = (ce - cs) if ce > cs else (times[0][-1] - times[0][0])
        return ("step", span / rng.choice([1, 2, 3, 4, 8]))
    if twin_given and k < 0.9:
        return None
    if ce > cs:
        m = rng.choice([2, 3, 5])
        pts = [cs + (ce - cs) * Fraction(i, m - 1) if isinstance(cs, Fraction) else cs + (ce - cs) * i / (m - 1) for i in range(m)]
        if rng.random() < 0.25:
            pts = sorted(set(cs + (ce - cs) * Fraction(rng.randint(0, 8), 8) for _ in range(m))) if isinstance(cs, Fraction) else pts
        if rng.random() < 0.15:
            pts = pts + [max(t[-1] for t in times) + 1]       # beyond a series' end: interpolation must raise
        if len(pts) < 2 and rng.random() < 0.5:
            pts = pts + [ce]
        return ("arr", pts)
    return ("arr", [times[0][0], times[0][-1]])


def opts_line(twin, res, taper=0, filt=0, smooth=0):
    tw = "-" if twin is None else "%s,%s" % (rat(twin[0]), rat(twin[1]))
    if res is None:
        rs = "-"
    elif res[0] == "step":
        rs = "step:" + rat(res[1])
    else:
        rs = "arr:" + ",".join(rat(v) for v in res[1])
    return "twin=%s res=%s taper=%d filter=%d smooth=%d" % (tw, rs, taper, filt, smooth)


def ser_line(dtg, t, x=None, key=None):
    s = ""
    if key is not None:
        s += hx(key) + " "
    s += ("-" if dtg is None else str(dtg)) + " | " + " ".join(rat(v) for v in t)
    if x is not None:
        s += " | " + " ".join(rat(v) for v in x)
    return s


class Tags:
    """stage functions of qats.ts replaced by the tag functions of Qats.Driver.Pipeline.tagStages (positional or keyword calls)"""

    def __enter__(self):
        import qats.ts as m
        self.m, self.saved = m, {}

        def taper(x, *a, **kw):
            return np.asarray(x, dtype=float) + 1.0, 1.0

        def filt(x, *a, **kw):
            dt = kw.get("dt", a[0] if a else None)
            return 2.0 * np.asarray(x, dtype=float) + dt

        def smooth(x, *a, **kw):
            return np.asarray(x, dtype=float) ** 2
        for name, fn in [("taper", taper), ("lowpass", filt), ("highpass", filt), ("bandpass", filt), ("bandblock", filt),
                         ("smooth", smooth)]:
            if hasattr(m, name):
                self.saved[name] = getattr(m, name)
                setattr(m, name, fn)
        return self

    def __exit__(self, *a):
        for k, v in self.saved.items():
            setattr(self.m, k, v)


WRITERS = [("ts", "qats.io.direct_access", "write_ts_data"), ("dat", "qats.io.other", "write_dat_data"),
           ("h5", "qats.io.sima_h5", "write_data"), ("pkl", "qats.io.pickle_format", "write_data")]


class Tracer:
    """Observes TsDB.export. *Hard* observations (compared strictly with the model): the writer that is called and the
    records it is handed (the four writer functions are replaced by recorders wherever they are referenced, so no file is
    written), and the exception. *Soft* observations (internal steps, reported in the evidence when they differ from the model's
    but not a broken tie by themselves, so that extracting / inlining helpers stays harmless): calls of `os.makedirs`, `getm`,
    `_make_export_friendly_names`, `_check_time_arrays`, `create_common_time`, `TimeSeries.get`."""

    def __init__(self):
        self.trace = []
        self.in_cct = 0
        self.undo = []

    def _set(self, obj, name, val):
        old = obj.__dict__[name] if isinstance(obj, type) else getattr(obj, name)
        self.undo.append((obj, name, old))
        setattr(obj, name, val)

    def __enter__(self):
        import importlib
        import sys
        import qats.tsdb as m
        import qats.ts as mts
        T, S = m.TsDB, mts.TimeSeries
        tr, me = self.trace, self

        def wrap_method(cls, name, token, nested=False, is_cct=False):
            if name not in cls.__dict__:
                return
            raw = cls.__dict__[name]
            fn = raw.__func__ if isinstance(raw, (staticmethod, classmethod)) else raw

            def w(*a, **k):
                if is_cct:
                    tr.append(token)
                    me.in_cct += 1
                    try:
                        return fn(*a, **k)
                    finally:
                        me.in_cct -= 1
                if not (nested and me.in_cct):
                    tr.append(token)
                return fn(*a, **k)
            self._set(cls, name, staticmethod(w) if isinstance(raw, staticmethod) else w)
        wrap_method(T, "getm", "select", nested=True)
        wrap_method(T, "_make_export_friendly_names", "friendly")
        wrap_method(T, "_check_time_arrays", "timecheck", nested=True)
        wrap_method(T, "create_common_time", "commontime", is_cct=True)
        wrap_method(S, "get", "process")
        real_makedirs = os.makedirs

        def makedirs(*a, **k):
            tr.append("mkdirs")
            return real_makedirs(*a, **k)
        self._set(os, "makedirs", makedirs)

        def recorder(ext):
            def w(*a, **k):
                data = k.get("data")
                if data is None:
                    data = [v for v in a if isinstance(v, dict)][0]
                tr.append("open:" + ext)
                for name, (t, x) in data.items():
                    tr.append(("write", name, np.asarray(t, dtype=float), np.asarray(x, dtype=float)))
            return w
        for ext, modname, fname in WRITERS:
            mod = importlib.import_module(modname)
            orig = getattr(mod, fname)
            rec = recorder(ext)
            # every reference to the writer inside the package (defining module, `from … import … as …` copies)
            for mn, mo in list(sys.modules.items()):
                if mn == "qats" or mn.startswith("qats."):
                    for an, av in list(vars(mo).items()):
                        if av is orig:
                            self._set(mo, an, rec)
        return self

    def __exit__(self, *a):
        for obj, name, old in reversed(self.undo):
            setattr(obj, name, old)


SOFT = ("mkdirs", "select", "friendly", "timecheck", "commontime", "process")


def hard(tr):
    """the part of a trace that is compared strictly: writer, records, exception"""
    return [t for t in tr if not (isinstance(t, str) and t in SOFT)]


def parse_model_trace(out):
    """model reply -> list of tokens / ('write', name, t, x)"""
    res = []
    for tok in out.split()[1:]:
        if tok.startswith("write:"):
            _, n, t, x = tok.split(":")
            res.append(("write", unhx(n), [float(Fraction(v)) for v in t.split(",")] if t != "=" else [],
                        [float(Fraction(v)) for v in x.split(",")] if x != "=" else []))
        elif tok == "raise:bounds":
            res.append("raise:value")          # interp1d raises ValueError as well
        else:
            res.append(tok)
    return res


def traces_equal(mt, it):
    if len(mt) != len(it):
        return False
    for a, b in zip(mt, it):
        if isinstance(a, tuple) != isinstance(b, tuple):
            return False
        if isinstance(a, tuple):
            if a[1] != b[1] or len(a[2]) != len(b[2]) or len(a[3]) != len(b[3]):
                return False
            if not (np.allclose(a[2], b[2], rtol=1e-12, atol=1e-12) and np.allclose(a[3], b[3], rtol=1e-9, atol=1e-9)):
                return False
        elif a != b:
            return False
    return True


def show_trace(tr):
    return [t if not isinstance(t, tuple) else "write:%s:%s:%s" % (t[1], [round(float(v), 9) for v in t[2]][:8],
                                                                 [round(float(v), 9) for v in t[3]][:8]) for t in tr]


# ----------------------------------------------------------------------------------------------------------------------------------
# clauses evaluated on the implementation from a JSON input (used by the streams and by replay)
# ----------------------------------------------------------------------------------------------------------------------------------
def fr(v):
    return float(Fraction(v))


def clause_is_common(inp):
    """kind 'check', lattice / identical families, no dtg, no resample: True from is_common_time => equal (windowed) arrays"""
    from qats import TsDB, TimeSeries
    fails = []
    if inp.get("family") not in ("ident", "lattice") or inp.get("resample") is not None or any(d is not None for d in inp["dtg"]):
        return None, fails
    times = [np.array([fr(v) for v in t]) for t in inp["times"]]
    twin = None if inp["twin"] is None else (fr(inp["twin"][0]), fr(inp["twin"][1]))
    db = TsDB()
    for i, tf in enumerate(times):
        db.add(TimeSeries("s%d" % i, tf, tf * 0.0))
    ic = db.is_common_time(twin=twin)
    if ic:
        w = times if twin is None else [a[(a >= twin[0]) & (a <= twin[1])] for a in times]
        if not all(a.shape == w[0].shape and np.array_equal(a, w[0]) for a in w):
            fails.append(("is_common_time(twin) is True only if the windowed time arrays of lattice series are equal",
                          "equal windowed arrays", [a.tolist() for a in w]))
    return bool(ic), fails


def clause_cct(inp, ct=None):
    """kind 'cct': the common time array lies inside [latest start, earliest end]"""
    from qats import TsDB, TimeSeries
    fails = []
    times = [np.array([fr(v) for v in t]) for t in inp["times"]]
    if ct is None:
        db = TsDB()
        for i, tf in enumerate(times):
            db.add(TimeSeries("s%d" % i, tf, tf * 0.0))
        try:
            ct = np.asarray(db.create_common_time(twin=None if inp["twin"] is None else (fr(inp["twin"][0]), fr(inp["twin"][1]))), dtype=float)
        except Exception:
            return fails
    if len(ct) and inp.get("family") != "ident":
        cs, ce = max(t[0] for t in times), min(t[-1] for t in times)
        if ct[0] < cs - 1e-12 or ct[-1] > ce + 1e-12:
            fails.append(("create_common_time stays inside [latest start, earliest end]", [float(cs), float(ce)], [float(ct[0]), float(ct[-1])]))
    return fails


def clause_names(inp):
    """kind 'names': distinct, none lost. Observed through `_make_export_friendly_names`; if that helper is gone, through the names
    `export` hands to the writer for series with one time array registered under the given keys."""
    from qats import TsDB, TimeSeries
    fails = []
    keys = inp["keys"]
    fn = getattr(TsDB, "_make_export_friendly_names", None)
    try:
        if fn is not None:
            got = list(TsDB()._make_export_friendly_names(OrderedDict((k, None) for k in keys), keep_basename=inp["basename"]).keys())
        else:
            db = TsDB()
            t = np.arange(3.0)
            for k in keys:
                db.register[k] = TimeSeries(os.path.basename(k), t, t)
                db.register_parent[k] = None
                db.register_indices[k] = None
                db.register_keys.append(k)
            with Tracer() as trc:
                quiet(db.export, os.path.join(tempfile.gettempdir(), "qv07_never_written.pkl"), basename=inp["basename"])
                got = [w[1] for w in trc.trace if isinstance(w, tuple)]
    except Exception as e:
        return None, "err " + err_kind(e), fails
    if len(got) != len(keys) or len(set(got)) != len(got):
        fails.append(("export-friendly names are distinct and as many as the selected series", len(keys), got))
    return got, "ok " + hxlist(got), fails


def impl_trace(inp, d):
    """kind 'trace': run TsDB.export with the steps observed (writers replaced by recorders, tag stages)"""
    from qats import TsDB, TimeSeries
    flags = inp["flags"]
    db = TsDB()
    for k, dg, t, x in zip(inp["keys"], inp["dtg"], inp["times"], inp["x"]):
        ts = TimeSeries(os.path.basename(k), np.array([fr(v) for v in t]), np.array([fr(v) for v in x]), dtg_ref=dtg_of(dg))
        db.register[k] = ts
        db.register_parent[k] = None
        db.register_indices[k] = None
        db.register_keys.append(k)
    kw = {}
    if inp["twin"] is not None:
        kw["twin"] = (fr(inp["twin"][0]), fr(inp["twin"][1]))
    res = inp["resample"]
    if res is not None:
        kw["resample"] = fr(res[1]) if res[0] == "step" else np.array([fr(v) for v in res[1]])
    if inp["stages"][0]:
        kw["taperfrac"] = 0.1
    if inp["stages"][1]:
        kw["filterargs"] = ("lp", 0.01)
    if inp["stages"][2]:
        kw["window_len"] = 3
    os.makedirs(d)
    sub = os.path.join(d, "new") if flags["mkdir"] else d
    target = os.path.join(sub, "out." + ("csv" if flags["ext"] == "other" else flags["ext"]))
    if flags["exists"]:
        open(target, "w").write("sentinel")
    with Tags(), Tracer() as trc:
        try:
            quiet(db.export, target, exist_ok=flags["existok"], basename=flags["base"], force_common_time=flags["force"], **kw)
        except Exception as e:
            trc.trace.append("raise:" + err_kind(e))
        tr = list(trc.trace)
    # the directory of the target: observed on the file system, not through the call that creates it
    if flags["mkdir"] and os.path.isdir(sub) and "mkdirs" not in tr:
        tr.insert(0, "mkdirs")
    return tr


def clause_trace(itrace):
    """nothing touches the target before a raise; what is handed to a writer has one time array"""
    fails = []
    last = itrace[-1] if itrace else ""
    if isinstance(last, str) and last.startswith("raise") and \
            any(isinstance(t, tuple) or (isinstance(t, str) and t.startswith("open")) for t in itrace):
        fails.append(("export raises before the target is opened", "no open/write before raise", show_trace(itrace)))
    wr = [t for t in itrace if isinstance(t, tuple)]
    if wr and not all(len(w[2]) == len(wr[0][2]) and np.allclose(w[2], wr[0][2], rtol=1e-9, atol=1e-12) for w in wr):
        fails.append(("series handed to a writer share one time array", wr[0][2].tolist(), [w[2].tolist() for w in wr]))
    return fails


# ----------------------------------------------------------------------------------------------------------------------------------
# correspondence streams
# ----------------------------------------------------------------------------------------------------------------------------------
def corr_check(chk, drv, rng, N):
    from qats import TsDB, TimeSeries
    lines, meta = [], []
    for _ in range(N):
        nser = rng.choice([1, 2, 2, 3, 4])
        fam = rng.choice(FAMILIES)
        times = gen_times(rng, nser, fam)
        dtgs = [None] * nser
        k = rng.random()
        if k < 0.12:
            dtgs = [0] * nser
        elif k < 0.3:
            dtgs = [rng.choice([None, 0, 1]) for _ in range(nser)]
        twin = gen_twin(rng, times) if rng.random() < 0.55 else None
        res = gen_resample(rng, times, twin is not None) if rng.random() < 0.4 else None
        if res is not None and res[0] == "arr" and rng.random() < 0.05:
            res = ("arr", res[1][:1])                      # degenerate: np.min of an empty diff raises
        lines.append("ex.check %s ; %s" % (" ".join(opts_line(twin, res).split()[:2]),
                                            " ; ".join(ser_line(d, t) for d, t in zip(dtgs, times))))
        meta.append((times, dtgs, twin, res, fam))
    outs = drv.run(lines)
    # the model's `isCommonTime` itself (the definition the counterexample theorems are about) on every case without resampling / dtg
    ic_idx = [i for i, (times, dtgs, twin, res, fam) in enumerate(meta) if res is None and all(d is None for d in dtgs)]
    ic_outs = dict(zip(ic_idx, drv.run(["ex.iscommon %s ; %s" % (opts_line(meta[i][2], None).split()[0],
                                                                  " ; ".join(ser_line(None, t) for t in meta[i][0])) for i in ic_idx])))
    for ci, ((times, dtgs, twin, res, fam), out) in enumerate(zip(meta, outs)):
        cont = OrderedDict()
        for i, (t, d) in enumerate(zip(times, dtgs)):
            tf = np.array([float(v) for v in t])
            cont["k%d" % i] = TimeSeries("s%d" % i, tf, tf * 0.0, dtg_ref=dtg_of(d))
        kw = {}
        if twin is not None:
            kw["twin"] = (float(twin[0]), float(twin[1]))
        if res is not None:
            kw["resample"] = float(res[1]) if res[0] == "step" else (np.array([float(v) for v in res[1]]) if rng.random() < 0.7
                                                                         else [float(v) for v in res[1]])
        inp = dict(kind="check", family=fam, times=[[str(v) for v in t] for t in times], dtg=dtgs,
                   twin=None if twin is None else [str(v) for v in twin],
                   resample=None if res is None else [res[0], str(res[1]) if res[0] == "step" else [str(v) for v in res[1]]])
        chk.count("check")
        chk.dist("check:%s twin=%d res=%s dtg=%s" % (fam, twin is not None, "-" if res is None else res[0],
                                                      "none" if all(d is None for d in dtgs) else ("same" if len(set(dtgs)) == 1 else "mixed")))
        if len(times) > 1 or kw:
            chk.nontriv(("check", repr(inp)))
        chkfn = getattr(TsDB, "_check_time_arrays", None)
        if chkfn is None:
            # the private helper is gone (renamed / inlined): the decision is still compared through is_common_time below
            chk.dist("check: _check_time_arrays not found, decision compared through is_common_time only")
            im = "ok (not observed)" if out.startswith("ok") else out
        else:
            try:
                tc = chkfn(cont, **kw)
                dref = "-" if tc["dtg_ref"] is None else str(dtgs[0])
                rec = "-" if tc["common"] is None else ",".join(rat(float(v)) for v in tc["common"])
                im = "ok common=%d dtgdef=%d dtgref=%s rec=%s devs=%s" % (tc["is_common"], tc["dtg_defined"], dref, rec,
                                                                          ",".join(tc["deviations"].keys()))
            except Exception as e:
                im = "err " + err_kind(e)
            if out.strip() != im.strip():
                chk.disagree("check", inp, out, im)
        if im.startswith("ok") and len(chk.samples) < 2:
            chk.sample(dict(stream="check", input=inp, reply=im))
        # the public face of the same decision; partial theorem, measured side: on a common lattice (or identical arrays) a
        # positive answer means that the (windowed) time arrays are equal
        if ci in ic_outs:
            chk.count("is_common_time")
            try:
                db = TsDB()
                for i, t in enumerate(times):
                    tf = np.array([float(v) for v in t])
                    db.add(TimeSeries("s%d" % i, tf, tf * 0.0))
                # (the window as a tuple or a list, the names absent or given)
                tw = kw.get("twin")
                if tw is not None and rng.random() < 0.3:
                    tw = list(tw)
                ic = db.is_common_time(twin=tw) if rng.random() < 0.7 else db.is_common_time(names=["s%d" % i for i in range(len(times))], twin=tw)
                imc = "ok %d" % bool(ic)
            except Exception:
                imc = "err"
            if ic_outs[ci].strip() != imc:
                chk.disagree("is_common_time", inp, ic_outs[ci], imc)
            if im.startswith("ok") and imc != "err" and ("common=1" in out) != (imc == "ok 1"):
                chk.disagree("is_common_time", inp, out, imc)
            try:
                cl = clause_is_common(inp)[1]
            except Exception as e:
                cl = [] if imc == "err" else [("is_common_time answers (no exception) for overlapping series", "True / False", repr(e)[:160])]
            for oracle, expected, observed in cl:
                chk.fail(oracle, inp, expected, observed)


def corr_cct(chk, drv, rng, N):
    from qats import TsDB, TimeSeries
    lines, meta = [], []
    for _ in range(N):
        nser = rng.choice([1, 2, 2, 3])
        fam = rng.choice(FAMILIES)
        times = gen_times(rng, nser, fam)
        twin = gen_twin(rng, times) if rng.random() < 0.4 else None
        lines.append("ex.cct %s ; %s" % (opts_line(twin, None).split()[0], " ; ".join(ser_line(None, t) for t in times)))
        meta.append((times, twin, fam))
    outs = drv.run(lines)
    for (times, twin, fam), out in zip(meta, outs):
        db = TsDB()
        for i, t in enumerate(times):
            tf = np.array([float(v) for v in t])
            db.add(TimeSeries("s%d" % i, tf, tf * 0.0))
        inp = dict(kind="cct", family=fam, times=[[str(v) for v in t] for t in times], twin=None if twin is None else [str(v) for v in twin])
        chk.count("cct")
        chk.dist("cct:%s twin=%d" % (fam, twin is not None))
        chk.nontriv(("cct", repr(inp)))
        try:
            ct = db.create_common_time(twin=None if twin is None else (float(twin[0]), float(twin[1])))
            im = ("ok", np.asarray(ct, dtype=float))
        except Exception as e:
            im = ("err " + err_kind(e),)
        if out.startswith("err") or im[0] != "ok":
            if out.strip() != im[0]:
                chk.disagree("cct", inp, out, im[0])
            continue
        body = out[3:].strip()
        mt = [] if body == "=" else [float(Fraction(v)) for v in body.split(",")]
        if len(mt) != len(im[1]) or not np.allclose(mt, im[1], rtol=1e-12, atol=1e-12):
            chk.disagree("cct", inp, mt[:12], im[1][:12].tolist())
        # clause: the common time array lies inside every series' span (so that resampling never extrapolates)
        for oracle, expected, observed in clause_cct(inp, im[1]):
            chk.fail(oracle, inp, expected, observed)


NAME_POOL = ["a", "b", "x", "Tension [kN]", "Moment [kNm]", "vel[m/s]", "acc [m/s^2]", "Acc(1)", "m_1-2.5", "Force", "force_2", "p[0]",
             "x y", "a.b", "_lead", "surge"]


def gen_keys(rng, root="/data"):
    """key sets as TsDB registers them: abspath(file)/name for loaded files, join(common, name) for in-memory series"""
    k = rng.random()
    if k < 0.2:
        names = rng.sample(NAME_POOL, rng.choice([1, 2, 3, 4]))
        return names                                           # in-memory only (relative keys)
    layouts = rng.choice([["f.ts"], ["f.ts", "g.ts"], ["f.ts", "sub/f.ts"], ["d1/f.ts", "d2/f.ts", "d1/g.ts"], ["a_b/c.ts", "a/b_c.ts"],
                          ["run.1/f.pkl", "run.2/f.pkl"], [".hidden/f.h5", "v1.0/f.tar.h5"], ["f.ts", "f.dat"]])
    keys = []
    for rel in layouts:
        for nm in rng.sample(NAME_POOL, rng.choice([1, 1, 2, 3])):
            keys.append(os.path.join(root, rel, nm))
    if rng.random() < 0.5:
        rng.shuffle(keys)
    if rng.random() < 0.3:
        keys = keys[:rng.randint(1, len(keys))]
    return keys


def corr_names(chk, drv, rng, N):
    cwd = os.getcwd()
    lines, meta = [], []
    for _ in range(N):
        keys = gen_keys(rng)
        base = rng.random() < 0.4
        lines.append("ex.names cwd=%s base=%d %s" % (hx(cwd), base, " ".join(hx(k) for k in keys)))
        meta.append((keys, base))
    outs = drv.run(lines)
    for (keys, base), out in zip(meta, outs):
        inp = dict(kind="names", keys=keys, basename=base, cwd=cwd)
        chk.count("names")
        chk.dist("names:base=%d n=%d" % (base, min(len(keys), 4)))
        chk.nontriv(("names", repr(inp)))
        got, im, fails = clause_names(inp)
        if out.strip() != im.strip():
            chk.disagree("names", inp, out if not out.startswith("ok") else unhxlist(out[3:].strip()), got if got is not None else im)
        for oracle, expected, observed in fails:
            chk.fail(oracle, inp, expected, observed)
        if got is not None and len(chk.samples) < 4 and not base and len(keys) > 2:
            chk.sample(dict(stream="names", keys=keys, friendly=got))


def corr_export(chk, drv, rng, N, root):
    cwd = os.getcwd()
    lines, meta = [], []
    for ci in range(N):
        nser = rng.choice([1, 2, 2, 3, 4])
        fam = rng.choice(FAMILIES)
        times = gen_times(rng, nser, fam, nmax=9)
        dtgs = [None] * nser
        if rng.random() < 0.15:
            dtgs = [rng.choice([None, 0, 1]) for _ in range(nser)]
        # keys: flat in-memory names, or file-like keys (registered directly, the trace does not depend on where the data come from)
        if rng.random() < 0.5:
            keys = rng.sample(["a", "b", "c", "d", "T [kN]", "v[m/s]"], nser)
        else:
            files = rng.choice([["f.ts"], ["f.ts", "g.ts"], ["d1/f.ts", "d2/f.ts"], ["a_b/c.ts", "a/b_c.ts"]])
            nm = rng.sample(["x", "y", "z", "w"], 2)
            allk = [os.path.join("/data", f, n) for f in files for n in nm]
            nser = min(nser, len(allk))
            keys = rng.sample(allk, nser)
            times, dtgs = times[:nser], dtgs[:nser]
        xs = [[Fraction(rng.randint(-32, 32), rng.choice([1, 2, 4])) for _ in t] for t in times]
        twin = gen_twin(rng, times) if rng.random() < 0.4 else None
        res = gen_resample(rng, times, twin is not None) if rng.random() < 0.35 else None
        stages = (rng.random() < 0.15, rng.random() < 0.2, rng.random() < 0.1)
        flags = dict(exists=rng.random() < 0.3, existok=rng.random() < 0.7, mkdir=rng.random() < 0.2, base=rng.random() < 0.6,
                     force=rng.random() < 0.35, ext=rng.choice(["ts", "dat", "h5", "pkl", "other"] if rng.random() < 0.3 else ["ts", "dat", "h5", "pkl"]))
        if flags["mkdir"]:
            flags["exists"] = False          # a target inside a missing directory cannot exist
        head = "ex.export exists=%d existok=%d mkdir=%d base=%d force=%d ext=%s cwd=%s %s ;" % (
            flags["exists"], flags["existok"], flags["mkdir"], flags["base"], flags["force"], flags["ext"], hx(cwd),
            opts_line(twin, res, *stages))
        lines.append(head + " " + " ; ".join(ser_line(d, t, x, key=k) for k, d, t, x in zip(keys, dtgs, times, xs)))
        meta.append((keys, dtgs, times, xs, twin, res, stages, flags, fam, ci))
    outs = drv.run(lines)
    for (keys, dtgs, times, xs, twin, res, stages, flags, fam, ci), out in zip(meta, outs):
        inp = dict(kind="trace", keys=keys, dtg=dtgs, times=[[str(v) for v in t] for t in times], x=[[str(v) for v in x] for x in xs],
                   twin=None if twin is None else [str(v) for v in twin],
                   resample=None if res is None else [res[0], str(res[1]) if res[0] == "step" else [str(v) for v in res[1]]],
                   stages=list(stages), flags=flags)
        chk.count("export-trace")
        chk.nontriv(("trace", repr(inp)))
        itrace = impl_trace(inp, os.path.join(root, "tr%05d" % ci))
        mt = parse_model_trace(out) if out.startswith("ok") else [out]
        last = itrace[-1] if itrace else ""
        chk.dist("trace:%s %s" % (fam, last if isinstance(last, str) and last.startswith("raise") else "written"))
        if not traces_equal(hard(mt), hard(itrace)) or ("mkdirs" in mt) != ("mkdirs" in itrace):
            chk.disagree("export-trace", inp, show_trace(mt), show_trace(itrace))
        elif not traces_equal(mt, itrace):
            chk.dist("trace: internal steps differ from the model's (outcome, records and directory creation agree)")
            if not any("internal steps" in n for n in chk.notes):
                chk.notes.append("export-trace: internal steps differ from the model's, e.g. model %s / observed %s" % (
                    [t for t in show_trace(mt) if t in SOFT], [t for t in show_trace(itrace) if t in SOFT]))
        # clauses on the observed trace: nothing touches the target before a raise; what is written has one time array
        for oracle, expected, observed in clause_trace(itrace):
            chk.fail(oracle, inp, expected, observed)
        wr = [t for t in itrace if isinstance(t, tuple)]
        if len(chk.samples) < 6 and wr and len(keys) > 1:
            chk.sample(dict(stream="export-trace", input=inp, trace=show_trace(itrace)))


def corr_codec(chk, drv, rng, N, root):
    """record-level codecs against files written / read by the real functions"""
    from qats.io.direct_access import write_ts_data, read_ts_names, read_ts_data
    from qats.io.other import write_dat_data, read_dat_names
    from qats.io.sima_h5 import write_data as write_h5, read_names as read_h5_names, read_data as read_h5_data
    alpha = ["a", "b", "Time", "time", "Timer", "END", "end", " lead", "trail ", "**c", "'q", "x y", "T [kN]", "*a", "a'b", "t\tb", "En d",
             "e**", "tIME", "m/s", "_", "End1", "ENDING", "#c", "Gr\u00f6\u00dfe", "a_very_long_series_name_123", "50%", "1"]
    lines, meta = [], []

    def one(ci, names, delim):
        L, M = [], []
        k = len(names)
        # (1) key file: text written by write_ts_data vs encodeKey; read_ts_names vs decodeKey
        n = rng.choice([2, 3, 5])
        t = np.arange(n, dtype=float) * 0.5
        cols = [np.array([float(rng.randint(-8, 8)) / 4 for _ in range(n)]) for _ in names]
        p = os.path.join(root, "cd%05d.ts" % ci)
        write_ts_data(p, t, OrderedDict((nm, (t, c)) for nm, c in zip(names, cols)))
        text = open(p[:-3] + ".key", newline="").read()
        L.append("ex.keyenc " + hxlist(names))
        M.append(("keyenc", names, text))
        L.append("ex.keydec " + hx(text))
        M.append(("keydec", names, read_ts_names(p[:-3] + ".key")))
        # (2) words of the binary file
        raw = open(p, "rb").read()
        nw = len(raw) // 4
        words = ["i%d" % v for v in struct.unpack("<%di" % n, raw[:4 * n])] + ["v" + rat(v) for v in struct.unpack("<%df" % (nw - n), raw[4 * n:])]
        L.append("ex.tsenc " + " | ".join(" ".join(rat(v) for v in arr) for arr in [t] + cols))
        M.append(("tsenc", names, " ".join(words)))
        L.append("ex.tsdec " + " ".join(words))
        M.append(("tsdec", names, read_ts_data(p)))
        # ... and records requested by index, in any order (row i of the reply is the i-th requested record)
        req = [0] + rng.sample(range(1, k + 1), rng.randint(1, k))
        if rng.random() < 0.3:
            rng.shuffle(req)
        L.append("ex.tsdec " + " ".join(words))
        M.append(("tsdec-ind", names, (req, read_ts_data(p, ind=list(req)))))
        # (3) .dat header
        dnames = [nm for nm in names if "\t" not in nm or True]
        p2 = os.path.join(root, "cd%05d.dat" % ci)
        write_dat_data(p2, t, OrderedDict((nm, (t, c)) for nm, c in zip(dnames, cols)), delim=delim)
        header = open(p2).readline().rstrip("\n")
        L.append("ex.datenc %s %s" % (hx(delim), hxlist(dnames)))
        M.append(("datenc", dnames, header))
        try:
            rn = read_dat_names(p2)
        except KeyError:
            rn = "err key"
        L.append("ex.datdec " + hx(header))
        M.append(("datdec", dnames, rn))
        # (4) h5: names in reader order, rebuilt time arrays
        hn = [nm for nm in names if nm not in ("m/s",)] or ["a"]
        hn = list(dict.fromkeys(hn))
        p3 = os.path.join(root, "cd%05d.h5" % ci)
        items = []
        for nm in hn:
            m = rng.choice([2, 3, 6])
            t0, h = Fraction(rng.randint(-4, 4), 2), Fraction(1, rng.choice([1, 2, 4]))
            tt = [t0 + i * h for i in range(m)]
            items.append((nm, tt, [Fraction(rng.randint(-8, 8), 2) for _ in range(m)]))
        write_h5(p3, OrderedDict((nm, (np.array([float(v) for v in tt]), np.array([float(v) for v in xx]))) for nm, tt, xx in items))
        got = read_h5_names(p3)
        arrs = read_h5_data(p3, names=got)
        L.append("ex.h5 " + " ; ".join("%s | %s | %s" % (hx(nm), " ".join(rat(v) for v in tt), " ".join(rat(v) for v in xx)) for nm, tt, xx in items))
        M.append(("h5", hn, (got, arrs)))
        return L, M
    for ci in range(N):
        names = rng.sample(alpha, rng.choice([1, 2, 3]))
        delim = rng.choice(["\t", "\t", " ", "  ", " \t"])
        try:
            L, M = one(ci, names, delim)
        except Exception as e:
            # an exception of a writer / reader on these names: a broken tie (the model predicts none), and a failing clause when
            # every name is representable in all four formats
            chk.count("codec-exception")
            inp = dict(kind="codec", codec="exception", names=names, delim=delim)
            chk.disagree("codec", inp, "no exception", "%s: %s" % (type(e).__name__, str(e)[:160]))
            if all(representable(nm, e2) for nm in names for e2 in EXTS):
                chk.fail("the writers and readers of the four formats accept representable names", inp, "no exception",
                         "%s: %s" % (type(e).__name__, str(e)[:160]))
            continue
        lines += L
        meta += M
    outs = drv.run(lines)
    for (kind, names, im), out in zip(meta, outs):
        chk.count("codec-" + kind)
        inp = dict(kind="codec", codec=kind, names=names)
        chk.nontriv(("codec", kind, repr(names), repr(im)[:200]))
        if kind in ("keyenc", "datenc"):
            if out != "ok " + hx(im):
                chk.disagree("codec-" + kind, inp, unhx(out[3:]) if out.startswith("ok ") else out, im)
        elif kind == "keydec":
            if out != "ok " + hxlist(im):
                chk.disagree("codec-keydec", inp, unhxlist(out[3:]) if out.startswith("ok ") else out, im)
        elif kind == "datdec":
            exp = im if isinstance(im, str) else "ok " + hxlist(im)
            if out != exp:
                chk.disagree("codec-datdec", inp, out, exp)
        elif kind == "tsenc":
            if out != "ok " + im:
                chk.disagree("codec-tsenc", inp, out, im)
        elif kind == "tsdec":
            exp = "ok " + " | ".join(",".join(rat(v) for v in row) for row in im)
            if out != exp:
                chk.disagree("codec-tsdec", inp, out, exp)
        elif kind == "tsdec-ind":
            req, rows = im
            mrows = out[3:].split(" | ") if out.startswith("ok ") else []
            exp = "ok " + " | ".join(",".join(rat(v) for v in row) for row in rows)
            mod = "ok " + " | ".join(mrows[i] for i in req) if mrows and max(req) < len(mrows) else out
            if mod != exp:
                chk.disagree("codec-tsdec-ind", dict(inp, ind=req), mod, exp)
        elif kind == "h5":
            got, arrs = im
            toks = out.split()[1:] if out.startswith("ok") else []
            ok = len(toks) == len(got)
            for tok, nm, (tt, xx) in zip(toks, got, arrs):
                parts = tok.split(":")
                if len(parts) != 3 or unhx(parts[0]) != nm:
                    ok = False
                    break
                mt = [float(Fraction(v)) for v in parts[1].split(",")]
                mx = [float(Fraction(v)) for v in parts[2].split(",")]
                if len(mt) != len(tt) or not np.allclose(mt, tt, rtol=0, atol=1e-12) or not np.array_equal(mx, xx):
                    ok = False
            if not ok:
                chk.disagree("codec-h5", inp, out, [got, [[a.tolist() for a in p] for p in arrs]])


# ---- ascii rows and pickled frame: the model definitions `encodeRows` / `decodeRows` / `encodePkl` / `decodePkl` against the real
# writers and readers. Values are dyadic rationals with at most 7 significant decimal digits, which `%15.7g` prints exactly (the
# formatting function q of `roundtrip_dat_rows` is the identity on them); the pickle is exact for any float.
def gen_exact_table(rng, nmax=12):
    """time column and 1-4 data columns (Fractions) that `%15.7g` prints exactly: multiples of 1/16 below 1000 (at most 3 + 4 digits)"""
    n = rng.choice([2, 2, 3, 5, rng.randint(2, nmax)])
    k = rng.choice([1, 2, 3, 4])
    h = Fraction(1, rng.choice([1, 2, 4, 8]))
    o = Fraction(rng.randint(-100, 100), 2)
    t = [o + i * h for i in range(n)]
    special = [Fraction(0), Fraction(-1, 16), Fraction(999 * 16 + 15, 16), Fraction(-999), Fraction(1, 2), Fraction(100)]
    cols = [[rng.choice(special) if rng.random() < 0.15 else Fraction(rng.randint(-999 * 16, 999 * 16), 16) for _ in range(n)] for _ in range(k)]
    return t, cols


def eval_rows(inp, root):
    """kind 'rows': write with write_dat_data, look at the file's rows, read back with read_dat_data (all columns / the first m).
    returns (file_rows, columns_all, columns_first_m, fails)"""
    from qats.io.other import write_dat_data, read_dat_data, read_dat_names
    t = np.array([fr(v) for v in inp["t"]])
    cols = [np.array([fr(v) for v in c]) for c in inp["cols"]]
    names = inp["names"]
    p = os.path.join(root, "rows.dat")
    write_dat_data(p, t, OrderedDict((nm, (t, c)) for nm, c in zip(names, cols)), delim=inp.get("delim", "\t"))
    rows = [[float(w) for w in ln.split()] for ln in open(p).read().split("\n")[1:] if ln.strip()]
    allc = np.atleast_2d(read_dat_data(p))
    m = inp["m"]
    firstm = np.atleast_2d(read_dat_data(p, ind=list(range(m))))
    fails = []
    want = [t] + cols
    if read_dat_names(p) != names:
        fails.append(("an ascii file lists the names it was written with", names, read_dat_names(p)))
    if allc.shape != (len(want), len(t)) or not all(np.array_equal(a, b) for a, b in zip(allc, want)):
        fails.append(("an ascii file written from values with at most 7 significant digits reads back exactly (time and every column)",
                      [w.tolist()[:6] for w in want], [r.tolist()[:6] for r in allc]))
    if firstm.shape != (m, len(t)) or not all(np.array_equal(a, b) for a, b in zip(firstm, want[:m])):
        fails.append(("the first m columns of an ascii file requested by index are the first m columns written",
                      [w.tolist()[:6] for w in want[:m]], [r.tolist()[:6] for r in firstm]))
    return rows, allc, firstm, fails


def eval_pkl(inp, root):
    """kind 'pkl': write with pickle_format.write_data, read names and data back. returns (names, data, fails)"""
    from qats.io.pickle_format import write_data, read_pickle_names, read_data
    t = np.array([fr(v) for v in inp["t"]])
    cols = [np.array([fr(v) for v in c]) for c in inp["cols"]]
    names = inp["names"]
    p = os.path.join(root, "frame.pkl")
    write_data(p, t, OrderedDict((nm, (t, c)) for nm, c in zip(names, cols)))
    gn = list(read_pickle_names(p))
    gd = np.atleast_2d(read_data(p))
    fails = []
    if gn != names:
        fails.append(("a pickle file lists the names it was written with (a series called Time included)", names, gn))
    want = [t] + cols
    if gd.shape != (len(want), len(t)) or not all(np.array_equal(a, b) for a, b in zip(gd, want)):
        fails.append(("a pickle file reads back exactly (time and every column)", [w.tolist()[:6] for w in want], [r.tolist()[:6] for r in gd]))
    return gn, gd, fails


def rats_of(tok):
    return [] if tok == "=" else [float(Fraction(v)) for v in tok.split(",")]


def corr_rows_pkl(chk, drv, rng, N, root):
    alpha_dat = ["a", "b", "x1", "End1", "#c", "Fx", "fx", "T[kN]", "a_very_long_series_name_123", "50%", "1", "nan", "q[1/s]"]
    alpha_pkl = alpha_dat + ["Time", "time", "Timer", "x y", "Tension [kN]", " lead", "Gr\u00f6\u00dfe", "END"]
    lines, meta = [], []
    for ci in range(N):
        t, cols = gen_exact_table(rng, nmax=rng.choice([12, 12, 40, 510]))
        k = len(cols)
        inp = dict(kind="rows", t=[str(v) for v in t], cols=[[str(v) for v in c] for c in cols], names=rng.sample(alpha_dat, k),
                   delim=rng.choice(["\t", "\t", " ", "  "]), m=rng.randint(1, k + 1))
        lines.append("ex.rows n=%d m=%d | %s" % (len(t), k + 1, " | ".join(" ".join(rat(v) for v in c) for c in [t] + cols)))
        meta.append(("rows", inp, k + 1))
        lines.append("ex.rows n=%d m=%d | %s" % (len(t), inp["m"], " | ".join(" ".join(rat(v) for v in c) for c in [t] + cols)))
        meta.append(("rows-m", inp, inp["m"]))
        t2, cols2 = gen_exact_table(rng)
        inp2 = dict(kind="pkl", t=[str(v) for v in t2], cols=[[str(Fraction(v) / rng.choice([1, 3, 1024])) for v in c] for c in cols2],
                    names=rng.sample(alpha_pkl, len(cols2)))
        if rng.random() < 0.3 and "Time" not in inp2["names"]:
            inp2["names"][rng.randrange(len(cols2))] = "Time"
        # (values k/3 are not floats: the columns handed to the model are the floats the writer gets, as exact rationals)
        inp2["cols"] = [[str(Fraction(fr(v))) for v in c] for c in inp2["cols"]]
        lines.append("ex.pkl %s | %s" % (hxlist(inp2["names"]), " | ".join(" ".join(str(Fraction(v)) for v in c) for c in [inp2["t"]] + inp2["cols"])))
        meta.append(("pkl", inp2, None))
    outs = drv.run(lines)
    done = set()
    for (kind, inp, m), out in zip(meta, outs):
        chk.count("codec-" + kind)
        chk.nontriv(("codec", kind, repr(inp)))
        sub = tempfile.mkdtemp(dir=root)
        try:
            if kind in ("rows", "rows-m"):
                rows, allc, firstm, fails = eval_rows(inp, sub)
                toks = dict(tok.split("=", 1) for tok in out.split()[1:]) if out.startswith("ok ") else {}
                mrows = [rats_of(r) for r in toks.get("rows", "").split(";")] if toks else None
                mcols = [rats_of(c) for c in toks.get("cols", "").split(";")] if toks else None
                got = allc if kind == "rows" else firstm
                if mrows is None or mrows != rows:
                    chk.disagree("codec-rows(encodeRows)", inp, out[:300], [r[:6] for r in rows[:4]])
                if mcols is None or len(mcols) != len(got) or not all(len(a) == len(b) and np.array_equal(a, b) for a, b in zip(mcols, got)):
                    chk.disagree("codec-rows(decodeRows)", dict(inp, columns_read=m), out[:300], [r.tolist()[:6] for r in got])
            else:
                gn, gd, fails = eval_pkl(inp, sub)
                parts = out.split() if out.startswith("ok ") else None
                if parts is None or len(parts) != 4:
                    chk.disagree("codec-pkl", inp, out[:300], [gn, [r.tolist()[:6] for r in gd]])
                else:
                    mn, mt, mx = unhxlist(parts[1]), rats_of(parts[2]), [rats_of(c) for c in parts[3].split(";")]
                    if mn != gn or len(gd) != len(mx) + 1 or not np.array_equal(mt, gd[0]) or \
                            not all(len(a) == len(b) and np.array_equal(a, b) for a, b in zip(mx, gd[1:])):
                        chk.disagree("codec-pkl(decodePkl . encodePkl)", inp, out[:300], [gn, [r.tolist()[:6] for r in gd]])
            if id(inp) not in done:
                done.add(id(inp))
                for oracle, expected, observed in fails:
                    chk.fail(oracle, inp, expected, observed)
        except Exception as e:
            chk.disagree("codec-" + kind, inp, out[:200], "%s: %s" % (type(e).__name__, str(e)[:160]))
            if id(inp) not in done:
                done.add(id(inp))
                chk.fail("the ascii / pickle writer and reader complete on representable names and finite values", inp, "no exception",
                         "%s: %s" % (type(e).__name__, str(e)[:160]))
        finally:
            shutil.rmtree(sub, ignore_errors=True)


# ---- the writers on what `export` hands them when the series' time arrays agree to rounding only: the common time array (that of the
# first series) and, per name, the series' OWN processed time array and data. The file must hold one time column (the common one)
# and every data column, row for row, at the format's precision (h5: every series' own start and step).
WCLOSE_KINDS = ["base", "linspace", "div", "cumsum", "ulp-interior", "ulp", "rel1e-10"]        # within rtol 1e-9 / atol 1e-12 of each other


def gen_wclose(rng):
    n = rng.choice([2, 3, 5, 11, 50, 201, rng.randint(2, 40), rng.randint(2, 600)])
    h = rng.choice([0.1, 0.1, 0.01, 0.05, 0.2, 0.3, 0.025, 1.0 / 3.0, 0.5])
    o = rng.choice([0.0, 0.0, 10.0, -3.5, 100.0])
    k = rng.choice([1, 2, 2, 3, 4])
    kinds = [rng.choice(WCLOSE_KINDS) for _ in range(k)]
    if rng.random() < 0.15:
        kinds = [kinds[0]] * k
    times = [close_times(rng, n, h, o, kd) for kd in kinds]
    scale = rng.choice([1e-3, 1.0, 37.5, 1e4])
    return dict(kind="wclose", fmt=rng.choice(["pkl", "pkl", "ts", "dat", "h5"]), names=rng.sample(SAFE_NAMES, k), kinds=kinds, times=times,
                cols=[[scale * rng.gauss(0.3, 1.0) for _ in range(n)] for _ in range(k)])


def eval_wclose(inp, root):
    """kind 'wclose': returns the failing clauses"""
    from qats.io.direct_access import write_ts_data, read_ts_data, read_ts_names
    from qats.io.other import write_dat_data, read_dat_data, read_dat_names
    from qats.io.pickle_format import write_data as write_pkl, read_data as read_pkl, read_pickle_names
    from qats.io.sima_h5 import write_data as write_h5, read_names as read_h5_names, read_data as read_h5_data
    fmt, names = inp["fmt"], inp["names"]
    times = [np.array(t, dtype=float) for t in inp["times"]]
    cols = [np.array(c, dtype=float) for c in inp["cols"]]
    t = times[0]
    recs = OrderedDict((nm, (ti, c)) for nm, ti, c in zip(names, times, cols))
    p = os.path.join(root, "w." + fmt)
    fails = []
    try:
        if fmt == "ts":
            write_ts_data(p, t, recs)
            gn, arr = list(read_ts_names(p[:-3] + ".key")), np.atleast_2d(read_ts_data(p))
        elif fmt == "dat":
            write_dat_data(p, t, recs)
            gn, arr = list(read_dat_names(p)), np.atleast_2d(read_dat_data(p))
        elif fmt == "pkl":
            write_pkl(p, t, recs)
            gn, arr = list(read_pickle_names(p)), np.atleast_2d(read_pkl(p))
        else:
            write_h5(p, recs)
            gn = list(read_h5_names(p))
            pairs = read_h5_data(p, names=gn)
    except Exception as e:
        return [("the writer and reader of a format complete on series whose time arrays agree to rounding", "no exception",
                 "%s: %s" % (type(e).__name__, str(e)[:160]))]
    if sorted(gn) != sorted(names):
        return [("the written file lists the names it was written with", names, gn)]
    if fmt == "h5":
        for nm, (tg, xg) in zip(gn, pairs):
            j = names.index(nm)
            tg, xg = np.asarray(tg, dtype=float), np.asarray(xg, dtype=float)
            rt, at, rx, ax = tolerances(".h5", times[j], cols[j])
            if tg.shape != times[j].shape or xg.shape != cols[j].shape or not np.all(np.abs(tg - times[j]) <= at) or not np.array_equal(xg, cols[j]):
                fails.append(("an h5 file holds every series with its own (uniform) time array and its data",
                              dict(series=nm, n=len(times[j]), t=times[j].tolist()[:4], x=cols[j].tolist()[:4]),
                              dict(series=nm, n=len(tg), t=tg.tolist()[:4], x=xg.tolist()[:4])))
        return fails
    rt, at, rx, ax = tolerances("." + fmt, t, cols[0])
    if arr.shape != (len(names) + 1, len(t)):
        return [("a file written from k series of n samples whose time arrays agree to rounding holds one time column and k data columns "
                 "of n rows", [len(names) + 1, len(t)], list(arr.shape))]
    if not np.all(np.abs(arr[0] - t) <= at + rt * np.abs(t)):
        j = int(np.argmax(np.abs(arr[0] - t) - rt * np.abs(t)))
        fails.append(("the time column of the file is the common time array, at the format's precision", float(t[j]), float(arr[0][j])))
    for nm, c in zip(names, cols):
        g = arr[1 + gn.index(nm)]
        if not np.all(within(g, c, rx, ax)):
            j = worst(g, c, rx, ax)
            fails.append(("every data column of the file is the data of its series, row for row, at the format's precision",
                          dict(series=nm, index=j, value=float(c[j])), dict(series=nm, index=j, value=float(g[j]))))
    return fails


def writers_close(chk, rng, N):
    for _ in range(N):
        inp = gen_wclose(rng)
        chk.count("writer-close-times")
        chk.dist("writer-close:%s %s" % (inp["fmt"], "identical" if len(set(inp["kinds"])) == 1 and inp["kinds"][0] not in ("ulp", "ulp-interior")
                                       else "to rounding"))
        chk.nontriv(("wclose", json.dumps(inp, sort_keys=True)))
        sub = tempfile.mkdtemp(prefix="qv07w_")
        try:
            try:
                fails = eval_wclose(inp, sub)
            except Exception as e:
                fails = [("the writer and reader of a format complete on series whose time arrays agree to rounding", "no exception",
                          "%s: %s" % (type(e).__name__, str(e)[:160]))]
            for oracle, expected, observed in fails:
                chk.fail(oracle, inp, expected, observed)
        finally:
            shutil.rmtree(sub, ignore_errors=True)


# ----------------------------------------------------------------------------------------------------------------------------------
# end-to-end oracles on the unpatched implementation
# ----------------------------------------------------------------------------------------------------------------------------------
SAFE_NAMES = ["a", "b", "surge", "heave_1", "Fx", "m-2.5", "acc(1)", "T[kN]", "p.q", "Moment", "X2", "z_",
              # names that resemble a format keyword or a number, differ only in letter case, hold the ascii comment character, are
              # longer than the 15-character column of the ascii header, are not ascii
              "End1", "ENDING", "fx", "#c", "a#b", "50%", "a_very_long_series_name_123", "1", "nan", "Gr\u00f6\u00dfe", "T[kNm]"]
SPACE_NAMES = ["Tension [kN]", "x y", "acc [m/s^2]"]          # fine for .ts/.pkl, not for .dat (white space) / .h5 ('/')
BRACKET_NAMES = ["p[N/mm2]", "q[1/s]"]                        # '/' inside the unit bracket: fine for .ts/.dat/.pkl, not for .h5
TIME_NAMES = ["time_lag", "Timer", "Time", "timeseries", "time"]      # F19 (.dat) / F19b (.pkl, 'Time' only)


def representable(name, ext):
    if ext == ".dat":
        return name != "" and not any(c.isspace() for c in name)
    if ext == ".h5":
        return "/" not in name and "\\" not in name and name != ""
    if ext == ".ts":
        return name == name.strip() and "\n" not in name and "\r" not in name and not name.startswith(("**", "'")) and \
            name.upper().strip() != "END"
    return True


# ---- time arrays that denote the same instants but are not the same floats: the grid o + i*h computed in different ways (linspace,
# sample number divided by the sample rate, running sum), with single-bit differences, scaled by 1 + 1e-10 (inside the closeness
# `export` accepts: rtol 1e-9, atol 1e-12), scaled by 1 + 5e-9 / passed through float32 / through seven significant digits (outside
# it unless the values are representable). `export` writes the former side by side (one time column) and refuses the latter.
CLOSE_KINDS = ["base", "linspace", "div", "cumsum", "ulp-interior", "ulp-interior", "ulp", "rel1e-10", "rel5e-9", "f32", "g7"]


def close_times(rng, n, h, o, kind):
    i = np.arange(n)
    base = o + i * h
    if kind == "linspace":
        t = np.linspace(o, o + (n - 1) * h, n)
    elif kind == "div":
        r = round(1.0 / h)
        t = o + i / float(r) if abs(r * h - 1.0) < 1e-9 else o + i / (1.0 / h)
    elif kind == "cumsum":
        t = o + np.concatenate([[0.0], np.cumsum(np.full(n - 1, h))])
    elif kind in ("ulp", "ulp-interior"):
        t = base.copy()
        idx = range(n) if kind == "ulp" else range(1, n - 1)
        for j in idx:
            if rng.random() < 0.3:
                t[j] = np.nextafter(t[j], rng.choice([-np.inf, np.inf]))
    elif kind == "rel1e-10":
        t = base * (1.0 + 1.0e-10)
    elif kind == "rel5e-9":
        t = base * (1.0 + 5.0e-9)
    elif kind == "f32":
        t = base.astype(np.float32).astype(float)
    elif kind == "g7":
        t = np.array([float("%.7g" % v) for v in base])
    else:
        t = base
    if np.any(np.diff(t) <= 0):
        t = base
    return [float(v) for v in t]


def gen_close(rng, nser):
    """time arrays of `nser` series on one grid, each computed in its own way; returns (times, twin or None)"""
    n = rng.choice([2, 3, 5, 11, 50, 101, 201, rng.randint(2, 40), rng.randint(2, 300)])
    h = rng.choice([0.1, 0.1, 0.01, 0.05, 0.2, 0.3, 0.025, 1.0 / 3.0, 0.7, 0.5])
    o = rng.choice([0.0, 0.0, 0.0, 10.0, -3.5, 100.0, 0.3])
    pool = ["base", "linspace", "div", "cumsum", "ulp-interior"] if rng.random() < 0.7 else CLOSE_KINDS
    kinds = [rng.choice(pool) for _ in range(nser)]
    if nser > 1 and len(set(kinds)) == 1 and kinds[0] == "base":
        kinds[rng.randrange(1, nser)] = rng.choice(["linspace", "div", "ulp-interior"])
    times = [close_times(rng, n, h, o, k) for k in kinds]
    twin = None
    if rng.random() < 0.45 and n >= 4:
        # window ends on a sample of one of the series (a tie: the other series may or may not hold that very float) or between
        # two samples
        ia = rng.randrange(0, n // 2)
        ib = rng.randrange(n // 2 + 1, n)
        a = rng.choice(times)[ia] + rng.choice([0.0, 0.0, h / 2, -h / 2])
        b = rng.choice(times)[ib] + rng.choice([0.0, 0.0, h / 2, -h / 2])
        twin = [float(a), float(b)]
    return times, kinds, twin


# ---- `resample` given as a time array related to the series' own time arrays. The series cover (parts of) one nominal grid o + i*h,
# each from its own first sample, with its own stride and its own way of computing the instants, so that starts / ends that are
# nominally the same instant differ by round-off (np.arange(0.3, 10.05, 0.1) ends at 10.000000000000004, linspace(0, 10, 21) at 10.0).
ROUNDOFF_KINDS = ["base", "own", "arange", "arange", "linspace", "div", "cumsum"]


def roundoff_times(o, h, lo, m, cnt, kind):
    """the instants o + (lo + k*m)*h, k = 0..cnt-1, computed as a caller would"""
    k = np.arange(cnt)
    s, d = o + lo * h, m * h
    base = o + (lo + k * m) * h
    if kind == "own":
        t = s + k * d
    elif kind == "arange":
        t = np.arange(s, o + (lo + (cnt - 1) * m) * h + d / 2, d)
    elif kind == "linspace":
        t = np.linspace(s, o + (lo + (cnt - 1) * m) * h, cnt)
    elif kind == "div":
        r = round(1.0 / h)
        t = o + (lo + k * m) / float(r) if abs(r * h - 1.0) < 1e-9 else o + (lo + k * m) / (1.0 / h)
    elif kind == "cumsum":
        t = s + np.concatenate([[0.0], np.cumsum(np.full(cnt - 1, d))])
    else:
        t = base
    if len(t) < 2 or np.any(np.diff(t) <= 0):
        t = base
    return [float(v) for v in t]


def gen_roundoff(rng, nser):
    """time arrays of `nser` series on one nominal grid; returns (times, kinds)"""
    N = rng.choice([4, 10, 20, 50, 100, rng.randint(3, 40), rng.randint(3, 300)])
    h = rng.choice([0.1, 0.1, 0.1, 0.01, 0.05, 0.2, 0.3, 0.025, 1.0 / 3.0, 0.7, 0.5])
    o = rng.choice([0.0, 0.0, 0.0, 10.0, -3.5, 100.0, 0.3])
    same_end = rng.random() < 0.65
    same_start = rng.random() < 0.5
    times, kinds = [], []
    for j in range(nser):
        m = rng.choice([1, 1, 1, 1, 2, 5])
        lo = 0 if same_start else rng.randint(0, 3)
        last = N if same_end else N - rng.randint(0, 2)
        lo = min(lo, last - 1)
        if (last - lo) // m < 1:
            m = 1
        if same_end:
            lo += (last - lo) % m                       # the last sample of every series is the nominal instant o + N*h
        cnt = (last - lo) // m + 1
        kind = rng.choice(ROUNDOFF_KINDS)
        times.append(roundoff_times(o, h, lo, m, cnt, kind))
        kinds.append(kind)
    return times, kinds


RESARR_KINDS = ["series", "series", "series", "series-cut", "arange-rec", "arange-rec", "arange-half", "linspace", "end-up", "end-up",
                "end-down", "start-down", "rel1e-10"]


def gen_resarr(rng, tt):
    """a time array to resample the series with time arrays `tt` to; returns (kind, values)"""
    arrs = [np.array(t, dtype=float) for t in tt]
    cs, ce = max(a[0] for a in arrs), min(a[-1] for a in arrs)
    dt = min(float(np.mean(np.diff(a))) for a in arrs)
    kind = rng.choice(RESARR_KINDS)
    a = arrs[rng.randrange(len(arrs))]
    if not ce > cs:
        kind = "series"
    cut = a[(a >= cs) & (a <= ce)]
    if kind == "series":
        r = a
    elif kind == "series-cut":
        r = cut
    elif kind == "arange-rec":
        r = np.arange(cs, ce + dt, dt)                  # what the refusal message of `export` recommends
    elif kind == "arange-half":
        r = np.arange(cs, ce + dt / 2, dt)
    elif kind == "linspace":
        r = np.linspace(cs, ce, int(round((ce - cs) / dt)) + 1)
    else:
        r = np.array(cut if len(cut) >= 2 and rng.random() < 0.6 else np.linspace(cs, ce, int(round((ce - cs) / dt)) + 1))
        if kind == "end-up":
            r[-1] = np.nextafter(ce, np.inf) if rng.random() < 0.6 else ce + 4 * np.spacing(abs(ce))
        elif kind == "end-down":
            r[-1] = np.nextafter(ce, -np.inf)
        elif kind == "start-down":
            r[0] = np.nextafter(cs, -np.inf)
        else:
            r = r * (1.0 + 1.0e-10)
    if len(r) < 2 or np.any(np.diff(r) <= 0):
        kind, r = "series", a
    return kind, [float(v) for v in r]


def gen_e2e(rng, corner=None):
    """one export/reload case (JSON-serialisable); corner='close': series on one time grid computed in different ways"""
    exact = rng.random() < 0.4
    source = rng.choice(["mem", "mem", "mem", "pkl", "ts", "ts", "dat", "h5"])
    nser = rng.choice([1, 2, 2, 3, 4])
    if corner == "close":
        source = rng.choice(["mem", "mem", "mem", "mem", "pkl", "pkl", "h5", "ts", "dat"])
        nser = rng.choice([2, 2, 3, 4])
        exact = False
    if corner == "resarr":
        source = rng.choice(["mem"] * 6 + ["pkl", "pkl", "h5", "h5", "ts", "dat"])
        nser = rng.choice([2, 2, 2, 3, 4])
        exact = False
    if source == "mem":
        fam = rng.choice(["ident", "ident", "ident", "lattice", "offlattice", "samespan", "diffdt", "disjoint"])
    elif source == "h5":
        fam = rng.choice(["ident", "ident", "lattice", "diffdt"])     # (an h5 source holds start + step: uniform series only)
    else:
        fam = rng.choice(["ident", "ident", "lattice", "diffdt", "samespan"])
    nmax = rng.choice([6, 12, 40, 200])
    times = gen_times(rng, nser, fam, exact=exact, nmax=nmax)
    big = rng.random() < 0.12
    if big:
        n = rng.choice([500, 501, 502, 1001, 1200])
        h = rng.choice([0.1, 0.25, 0.02])
        times = [[i * h for i in range(n)] for _ in range(nser)]
        fam = "ident"
    close_twin = None
    if corner == "close":
        times, close_kinds, close_twin = gen_close(rng, nser)
        fam, big = "close", False
    if corner == "resarr":
        times, roundoff_kinds = gen_roundoff(rng, nser)
        fam, big = "roundoff", False
    times = [[float(v) for v in t] for t in times]
    scale = rng.choice([1e-3, 1.0, 1.0, 37.5, 1e4, 1e6, 1.0, 37.5, 2.0 ** 100, 2.0 ** -100, 2.0 ** 200, 2.0 ** -200])
    ext = rng.choice(EXTS + [".pickle"] if rng.random() < 0.1 else EXTS)
    extreme = not (1e-40 < scale < 1e40)                      # beyond the float32 range: not representable in direct access files
    if extreme and (ext == ".ts" or source == "ts"):
        scale = 2.0 ** 100 if scale > 1 else 2.0 ** -100
        extreme = False
    pool = list(SAFE_NAMES) + (rng.sample(SPACE_NAMES, 2) if rng.random() < 0.3 else []) + (BRACKET_NAMES if rng.random() < 0.25 else [])
    if ext != ".dat" and source != "dat" and rng.random() < 0.25:
        pool += rng.sample(TIME_NAMES, 2)                       # (F19: the ascii reader takes such a column for a second time column)
    pool = [n for n in pool if representable(n, ext)]        # the property's domain: names representable in the target format
    if source in ("ts", "dat", "h5"):
        pool = [n for n in pool if representable(n, "." + source)]      # ... and in the format of the source file
    names = rng.sample(pool, nser)
    series = []
    if source == "mem":
        for nm, t in zip(names, times):
            series.append(dict(name=nm, file=None, t=t, x=[scale * rng.gauss(0.3, 1.0) for _ in t], dtg=None))
        if rng.random() < 0.1:
            for s in series:
                s["dtg"] = 0
    else:
        # series with the same time array share a file, others get their own file
        sext = "." + source
        layouts = rng.choice([["f", "g", "h", "k"], ["d1/f", "d2/f", "d1/g", "d2/g"], ["f", "sub/f", "sub/g", "g"]])
        groups = []
        for nm, t in zip(names, times):
            for g in groups:
                if g[0] == t and rng.random() < 0.7:
                    g[1].append(nm)
                    break
            else:
                groups.append((t, [nm]))
        for (t, nms), rel in zip(groups, layouts):
            for nm in nms:
                series.append(dict(name=nm, file=rel + sext, t=t, x=[scale * rng.gauss(0.3, 1.0) for _ in t], dtg=None))
        if rng.random() < 0.2 and len(groups) > 1:
            # same series name in two files: basename collision
            series[-1]["name"] = series[0]["name"]
    # selection
    k = rng.random()
    allnames = [s["name"] for s in series]
    if source != "mem" and len(allnames) > 1:
        k = 0.25 + 0.75 * k                 # file-backed: more requests that name several series (in any order)
    if k < 0.6:
        select = None
    elif k < 0.7:
        select = rng.choice(allnames)
    elif k < 0.9:
        select = rng.sample(allnames, rng.randint(1, len(allnames)))
        if rng.random() < 0.4:
            select = list(reversed(allnames)) if rng.random() < 0.5 else rng.sample(allnames, len(allnames))
    else:
        select = "*" + rng.choice(allnames)[-1]
    # options
    kwj = {}
    tt = [s["t"] for s in series]
    cs, ce = max(t[0] for t in tt), min(t[-1] for t in tt)
    resarr_kind = None
    if corner == "close":
        if close_twin is not None:
            kwj["twin"] = close_twin
    elif corner == "resarr":
        resarr_kind, vals = gen_resarr(rng, tt)
        kwj["resample"] = ["arr", vals]
    elif rng.random() < 0.35:
        a, b = gen_twin(rng, tt)
        kwj["twin"] = [float(a), float(b)]
    k = rng.random()
    if corner == "resarr":
        pass
    elif k < 0.15:
        span = (ce - cs) if ce > cs else (tt[0][-1] - tt[0][0])
        kwj["resample"] = ["step", float(span / rng.choice([2, 3, 4, 7, 10]))]
    elif k < 0.25 and "twin" not in kwj and ce > cs:
        m = rng.choice([2, 3, 5, 11])
        kwj["resample"] = ["arr", [cs + (ce - cs) * i / (m - 1) for i in range(m)]]
    if big and rng.random() < 0.7:
        dt = tt[0][1] - tt[0][0]
        kwj["filterargs"] = rng.choice([["lp", 0.1 / dt], ["hp", 0.05 / dt], ["bp", 0.05 / dt, 0.2 / dt], ["bs", 0.05 / dt, 0.2 / dt], ["tp", 0.5],
                                        ["tp", [-0.5 * scale, 0.8 * scale]]])       # (('tp', a) with a single amplitude raises TypeError)
    if rng.random() < 0.1:
        kwj["taperfrac"] = 0.1
    if rng.random() < 0.08 and min(len(t) for t in tt) >= 8 and "twin" not in kwj and "resample" not in kwj:
        kwj["window_len"] = 3          # (smoothing of very short arrays changes their length: C11's subject)
    case = dict(kind="e2e", source=source, family=fam, series=series, select=select, kw=kwj, ext=ext,
                basename=rng.random() < 0.75, force=rng.random() < 0.25, exist_ok=rng.random() < 0.8, preexisting=rng.random() < 0.35,
                subdir=rng.random() < 0.15, target="out",
                # how the target is named: absolute path / bare file name in the working directory / relative path with a directory
                target_style=rng.choice(["abs", "abs", "abs", "bare", "bare", "rel"]),
                # what happened to the exporting database before: the selection was retrieved (and stored) / nothing was read yet /
                # one of the selected series was read and stored
                history=rng.choice(["read-first", "fresh", "fresh", "partial"]), partial_index=rng.randrange(4))
    if case["target_style"] == "bare":
        case["subdir"] = False               # a bare file name has no directory that could be missing
    if corner == "close":
        case["close_kinds"] = close_kinds
    if corner == "resarr":
        case["roundoff_kinds"] = roundoff_kinds
        case["resarr_kind"] = resarr_kind
    # ---- the same thing spelled differently, boundary values, histories ------------------------------------------------------------
    sp = {}
    if "twin" in kwj and rng.random() < 0.5:
        sp["twin"] = rng.choice(["list", "nd", "int"])
    if "resample" in kwj:
        if kwj["resample"][0] == "step" and rng.random() < 0.5:
            sp["resample"] = rng.choice(["f64", "f32"])
        elif kwj["resample"][0] == "arr":
            k = rng.random()
            if k < 0.25:
                sp["resample"] = "intarr"
            elif k < 0.45:
                kwj["resample"][0] = "list"
    if "filterargs" in kwj and rng.random() < 0.4:
        sp["filterargs"] = "list"
    if rng.random() < 0.15:
        sp["none"] = rng.sample(["twin", "resample", "filterargs", "taperfrac", "window_len"], rng.randint(1, 3))
    if rng.random() < 0.15:
        sp["noop"] = rng.sample(["taper0", "wl1", "wl0", "twin_all", "verbose"], rng.randint(1, 2))
    if isinstance(select, list) and rng.random() < 0.4:
        sp["names"] = "tuple"
    if EXIST_OK_SPELLINGS and rng.random() < 0.1:
        sp["bool"] = rng.choice(["np", "int"])
    case["args"] = rng.choice(["kw", "kw", "kw", "kw", "pos", "posall"])
    if ext == ".dat" and rng.random() < 0.3:
        case["delim"] = rng.choice([" ", "  ", " \t"])
    case["target"] = rng.choice(["out"] * 7 + ["out.v1", "o ut", "OUT", "out.ts", "a.dat", "x.h5.y", "res.ts.d/out"])
    case["target_style"] = rng.choice(["abs", "abs", "abs", "bare", "bare", "rel", "dot", "dotdot"])
    if case["target_style"] == "bare":
        case["subdir"] = False
    if case["preexisting"] and rng.random() < 0.4:
        case["preexisting"] = "export"       # the target is a larger export written earlier, not a few bytes
    case["reload_style"] = rng.choice(["same", "same", "same", "abs", "load"])
    if source == "mem":
        dt = rng.choice(["f8"] * 6 + ["i8", "f4", "view", "shared"])
        if extreme and dt == "f4":
            dt = "f8"
        if dt != "f8":
            case["dtype"] = dt
        if dt == "i8":
            for s in series:
                s["x"] = [float(rng.randint(-1000, 1000)) for _ in s["t"]]
        if set(kwj) <= {"twin"} and not case["force"] and rng.random() < 0.08:
            case["nonfinite"] = [[rng.randrange(len(series)), rng.randrange(1000), rng.choice(["nan", "inf", "ninf"])]
                                 for _ in range(rng.randint(1, 2))]
    if rng.random() < 0.1 and corner != "resarr":
        # the GUI's entry point qats.app.funcs.export_to_file(filename, db, names, twin, fargs)
        case["entry"] = "funcs"
        case.update(force=False, exist_ok=True, basename=False)
        for k in ("resample", "taperfrac", "window_len"):
            kwj.pop(k, None)
        sp.pop("resample", None)
        sp["none"] = [k for k in sp.get("none", []) if k in ("twin", "filterargs")]
        sp["noop"] = [z for z in sp.get("noop", []) if z == "twin_all"]
        sp.pop("bool", None)
        case.pop("delim", None)
    case["spell"] = dict((k, v) for k, v in sp.items() if v)
    if rng.random() < 0.3:
        # further exports from the same database object
        okext = [e for e in EXTS if all(representable(s["name"], e) for s in series) and not (extreme and e == ".ts") and
                 not (e == ".dat" and any(pyfnmatch.fnmatchcase(s["name"], "[Tt]ime*") for s in series))]
        then = []
        for _ in range(rng.randint(1, 2)):
            st = dict(entry="method", delim=None, subdir=False, args=rng.choice(["kw", "pos"]))
            if rng.random() < 0.35 or not okext:
                st.update(target=case["target"], ext=ext)                       # the file the first export has (or should have) written
            else:
                st.update(target="out2", ext=rng.choice(okext))
            st["preexisting"] = rng.random() < 0.15
            st["exist_ok"] = rng.random() < 0.75
            st["force"] = rng.random() < 0.3
            st["basename"] = case["basename"] if rng.random() < 0.7 else (not case["basename"])
            if rng.random() < 0.5:
                st["kw_same"] = True                                            # the very same option objects again
            else:
                kw2 = {}
                if rng.random() < 0.6:
                    a, b = gen_twin(rng, tt)
                    kw2["twin"] = [float(a), float(b)]
                elif rng.random() < 0.5:
                    span = (ce - cs) if ce > cs else (tt[0][-1] - tt[0][0])
                    kw2["resample"] = ["step", float(span / rng.choice([2, 3, 4]))]
                st.update(kw=kw2, spell={}, kw_same=False)
            if rng.random() < 0.25:
                st["select"] = None if select is not None else rng.choice(allnames)
            if case.get("nonfinite"):
                # (gaps in the data: no interpolation, so that the reference does not depend on how a library treats nan)
                st["force"] = False
                if "resample" in (st.get("kw") or {}) or (st.get("kw_same") and "resample" in kwj):
                    st.update(kw={}, spell={}, kw_same=False)
            then.append(st)
        case["then"] = then
    return case


def corner_cases():
    """cases that are always run (past failures, boundary shapes, the known findings)"""
    t4 = [0.0, 1.0, 2.0, 3.0]
    base = dict(kind="e2e", source="mem", family="ident", select=None, kw={}, basename=True, force=False, exist_ok=True, preexisting=False,
                subdir=False, target="out")
    out = []

    def mk(series, **kw):
        c = dict(base)
        c["series"] = [dict(name=n, file=None, t=list(t), x=list(x), dtg=None) for n, t, x in series]
        c.update(kw)
        return c
    two = [("a", t4, [1.0, 2.0, 3.0, 4.0]), ("b", t4, [5.0, 6.5, 7.25, 8.0])]
    for ext in EXTS:
        out.append(mk(two, ext=ext))
        out.append(mk(two, ext=ext, kw={"twin": [0.5, 2.5]}))                       # two samples left
        out.append(mk(two, ext=ext, kw={"resample": ["step", 0.75]}))
        out.append(mk(two, ext=ext, preexisting=True, exist_ok=False))               # refused, target untouched
        # F9a shape (fixed): 0..10 and 0..8 with windows ending beyond / inside the shorter series
        s10 = [float(i) for i in range(11)]
        s8 = [float(i) for i in range(9)]
        lat = [("a", s10, [float(i % 3) for i in range(11)]), ("b", s8, [float(i % 4) for i in range(9)])]
        out.append(mk(lat, ext=ext, family="lattice", kw={"twin": [0.0, 9.0]}, preexisting=True))
        out.append(mk(lat, ext=ext, family="lattice", kw={"twin": [0.0, 7.0]}))
        out.append(mk(lat, ext=ext, family="lattice", force=True))
        # F9b shape (fixed): same start / end / mean step, different interior
        nu = [("a", [0.0, 1.0, 3.0, 4.0], [1.0, 2.0, 3.0, 4.0]), ("b", [0.0, 1.5, 2.0, 4.0], [5.0, 6.0, 7.0, 8.0])]
        out.append(mk(nu, ext=ext, family="samespan", preexisting=True))
        out.append(mk(nu, ext=ext, family="samespan", kw={"resample": ["step", 0.5]}))
        # off lattice + window
        off = [("a", [0.0, 1.0, 2.0, 3.0, 4.0], [1.0] * 5), ("b", [0.5, 1.5, 2.5, 3.5], [2.0] * 4)]
        out.append(mk(off, ext=ext, family="offlattice", kw={"twin": [1.0, 3.0]}, preexisting=True))
        # F20 shape (fixed): shortened keys collide
        col = dict(base)
        col.update(source="pkl", ext=ext, basename=False, preexisting=True, family="ident",
                   series=[dict(name="x", file="a_b/c.pkl", t=t4, x=[1.0, 2.0, 3.0, 4.0], dtg=None),
                           dict(name="x", file="a/b_c.pkl", t=t4, x=[5.0, 6.0, 7.0, 8.0], dtg=None)])
        out.append(col)
        col2 = dict(col)
        col2.update(basename=True)
        out.append(col2)
        ok2 = dict(col)
        ok2.update(series=[dict(name="x", file="r1/c.pkl", t=t4, x=[1.0, 2.0, 3.0, 4.0], dtg=None),
                           dict(name="x", file="r2/c.pkl", t=t4, x=[5.0, 6.0, 7.0, 8.0], dtg=None)], preexisting=False)
        out.append(ok2)
    # the target named as a bare file name in the working directory / as a relative path: existing file, overwriting (dis)allowed
    for ext in EXTS:
        for style in ("bare", "rel"):
            out.append(mk(two, ext=ext, preexisting=True, exist_ok=False, target_style=style))
            out.append(mk(two, ext=ext, preexisting=True, exist_ok=True, target_style=style))
        out.append(mk(two, ext=ext, target_style="bare"))
        out.append(mk(two, ext=ext, target_style="rel", subdir=True))
    # file-backed sources of every format holding three series; requests that name the series in another order than the file,
    # from a database that has read nothing / the selection / one of the series before
    t5 = [0.0, 0.5, 1.0, 1.5, 2.0]
    abc = [("a", [1.0, 2.0, 3.0, 4.0, 5.0]), ("b", [10.0, 10.25, 10.5, 10.75, 11.0]), ("c", [-5.0, -2.5, 0.0, 2.5, 5.0])]
    for src in ("ts", "dat", "h5", "pkl"):
        for ext, select, hist in zip(EXTS, [["c", "a"], ["c", "b", "a"], ["b", "a"], ["c", "a", "b"]], ["fresh", "read-first", "partial", "fresh"]):
            fb = dict(base)
            fb.update(source=src, ext=ext, select=select, history=hist, partial_index=1,
                      series=[dict(name=n, file="f." + src, t=t5, x=x, dtg=None) for n, x in abc])
            out.append(fb)
        fb2 = dict(base)
        fb2.update(source=src, ext=".pkl", select=["c", "a"], history="fresh", kw={"twin": [0.5, 1.5]},
                   series=[dict(name=n, file="f." + src, t=t5, x=x, dtg=None) for n, x in abc])
        out.append(fb2)
    # series sampled at the same instants whose time arrays were computed in different ways (equal to rounding, not to the last bit):
    # written side by side with ONE time column, to every format; alone, windowed between samples, three series, pickle-backed source
    n = 201
    ta = [float(v) for v in np.linspace(0.0, 20.0, n)]
    tb = [float(v) for v in np.arange(n) / 10.0]
    tc = [float(v) for v in close_times(__import__("random").Random(7), n, 0.1, 0.0, "ulp-interior")]
    xa = [float(100.0 + 10.0 * np.sin(0.7 * v)) for v in tb]
    xb = [float(np.cos(1.3 * v)) for v in tb]
    xc = [float(0.5 * v - 3.0) for v in tb]
    for ext in EXTS + [".pickle"]:
        out.append(mk([("tension", ta, xa), ("offset", tb, xb)], ext=ext, family="close"))
        out.append(mk([("offset", tb, xb), ("tension", ta, xa)], ext=ext, family="close", kw={"twin": [2.05, 15.05]}))
        out.append(mk([("tension", ta, xa), ("offset", tb, xb), ("c", tc, xc)], ext=ext, family="close", select=["c", "tension", "offset"]))
        out.append(mk([("a", ta[:6], xa[:6]), ("b", tb[:6], xb[:6])], ext=ext, family="close", preexisting=True))
    cl = dict(base)
    cl.update(source="pkl", ext=".pkl", family="close", history="fresh",
              series=[dict(name="tension", file="r1/c.pkl", t=ta, x=xa, dtg=None), dict(name="offset", file="r2/c.pkl", t=tb, x=xb, dtg=None)])
    out.append(cl)
    # `resample` given as the time array of one of the selected series / as the arange the refusal message recommends, when that
    # array ends beyond the end of another series by round-off only (arange(0.3, 10.05, 0.1)[-1] = 10.000000000000004 > 10.0):
    # refused without touching the target, or every series written with that very array
    ra = [float(v) for v in np.linspace(0.0, 10.0, 21)]
    rb = [float(v) for v in np.arange(0.3, 10.05, 0.1)]
    rc = [float(v) for v in np.arange(98) / 10.0 + 0.3]                 # ends at 10.0 exactly
    xra = [float(3.0 + np.sin(v)) for v in ra]
    xrb = [float(-2.0 + np.cos(v)) for v in rb]
    xrc = [float(0.5 * v) for v in rc]
    for ext in EXTS:
        out.append(mk([("A", ra, xra), ("B", rb, xrb)], ext=ext, family="roundoff", kw={"resample": ["arr", rb]}, preexisting=(ext == ".dat")))
        out.append(mk([("B", rb, xrb), ("A", ra, xra)], ext=ext, family="roundoff", kw={"resample": ["list", rb]}))
        out.append(mk([("A", ra, xra), ("C", rc, xrc)], ext=ext, family="roundoff", kw={"resample": ["arr", rc]}))
        out.append(mk([("A", ra, xra), ("B", rb, xrb), ("C", rc, xrc)], ext=ext, family="roundoff", select=["C", "A"],
                      kw={"resample": ["arr", [float(v) for v in np.arange(0.3, 10.0 + 0.1, 0.1)]]}))
    # known findings
    out.append(mk([("time_lag", t4, [1.0, 2.0, 3.0, 4.0]), ("b", t4, [5.0, 6.0, 7.0, 8.0])], ext=".dat"))             # F19
    out.append(mk([("Timer", t4, [1.0, 2.0, 3.0, 4.0])], ext=".dat"))                                                # F19
    out.append(mk([("Time", t4, [1.0, 2.0, 3.0, 4.0]), ("b", t4, [5.0, 6.0, 7.0, 8.0])], ext=".pkl"))                 # F19b
    for ext in EXTS:
        out.append(mk(two, ext=ext, kw={"twin": [0.5, 1.5]}, preexisting=(ext == ".h5")))                             # F30: one sample
        out.append(mk(two, ext=ext, kw={"twin": [0.25, 0.75]}))                                                       # F30: no sample
    out.append(mk(two, ext=".ts", target="res.tsx/out"))                                                               # F31
    out.append(mk(two, ext=".ts", kw={"resample": ["list", [0.0, 0.5, 1.0]]}, preexisting=True))                       # F32
    for ext in (".dat", ".h5", ".pkl"):
        out.append(mk(two, ext=ext, kw={"resample": ["list", [0.0, 0.5, 1.0]]}))
    return out


def tolerances(ext, t_exp, x_exp):
    """(rtol_t, atol_t, rtol_x, atol_x) of the format"""
    eps = np.finfo(float).eps
    if ext == ".ts":
        return 1.2e-7, 1e-37, 1.2e-7, 1e-37
    if ext == ".dat":
        return 5.1e-7, 0.0, 5.1e-7, 0.0
    if ext == ".h5":
        n = max(len(t_exp), 1)
        return 0.0, 8 * n * eps * max(1.0, float(np.max(np.abs(t_exp))) if len(t_exp) else 1.0), 0.0, 0.0
    return 0.0, 0.0, 0.0, 0.0


def is_uniform(t):
    if len(t) < 3:
        return True
    d = np.diff(t)
    return bool(np.allclose(d, d[0], rtol=1e-9, atol=1e-12 * max(1.0, abs(float(t[-1])))))


def snapshot(d):
    res = {}
    for dp, _, fns in os.walk(d):
        for fn in fns:
            p = os.path.join(dp, fn)
            st = os.stat(p)
            res[os.path.relpath(p, d)] = (st.st_mtime_ns, st.st_size, open(p, "rb").read())
    return res


def retrieve_each(db, keys, kw):
    """in-memory retrieval of every key on its own, nothing stored in the database: key -> (t, x)"""
    out = OrderedDict()
    for k in keys:
        t, x = db.geta(ind=db.register_keys.index(k), store=False, **kw)
        out[k] = (np.array(t, dtype=float), np.array(x, dtype=float))
    return out


def within(got, exp, rtol, atol):
    """elementwise: |got - exp| <= atol + rtol |exp| where exp is finite; where it is not (nan, +-inf) got must be the same"""
    got, exp = np.asarray(got, dtype=float), np.asarray(exp, dtype=float)
    with np.errstate(invalid="ignore"):
        fin = np.isfinite(exp)
        return np.where(fin, np.abs(got - exp) <= atol + rtol * np.abs(exp), (got == exp) | (np.isnan(got) & np.isnan(exp)))


def worst(got, exp, rtol, atol):
    """index of the first element outside the tolerance"""
    return int(np.argmin(within(got, exp, rtol, atol)))


BIG_N, BIG_K = 64, 5


def write_previous_export(target, ext):
    """a pre-existing target that is a real, larger export (5 series of 64 samples) written by the format's writer"""
    from qats.io.direct_access import write_ts_data
    from qats.io.other import write_dat_data
    from qats.io.sima_h5 import write_data as write_h5
    t = np.arange(BIG_N) * 0.5
    recs = OrderedDict(("q%d" % j, (t, np.cos(0.1 * (j + 1) * t) + j)) for j in range(BIG_K))
    if ext == ".ts":
        write_ts_data(target, t, recs)
    elif ext == ".dat":
        write_dat_data(target, t, recs)
    elif ext == ".h5":
        write_h5(target, recs)
    else:
        write_pickle(target, list(recs), t, [v[1] for v in recs.values()])


def merged_step(case, st):
    """a follow-up export on the same exporting database: the case with the step's fields replacing the first export's"""
    d = dict(case)
    d.pop("then", None)
    d.update(st)
    return d


def eval_e2e(case, root):
    """returns (failures, info): failures = [(oracle, expected, observed, extra)]"""
    cwd0 = os.getcwd()
    try:
        return _eval_e2e(case, root)
    finally:
        os.chdir(cwd0)           # (targets given relative to the working directory)


def _eval_e2e(case, root):
    # reference database: nothing is ever stored in it (every retrieval below reads the source again); never used for an export
    db = build_db(case, root)
    # the exporting database and what happened to it before: a second database on the same arrays / files, with the selection
    # retrieved and stored / nothing read / one selected series read and stored
    dbx = build_db(case, root, write=False)
    hist = case.get("history", "read-first")
    if case["source"] != "mem":
        try:
            keys0 = list(db.getm(names=case["select"], fullkey=True, store=False).keys())
            if hist == "read-first":
                dbx.getda(names=case["select"], fullkey=True, **kw_of(case["kw"]))
            elif hist == "partial" and keys0:
                dbx.get(ind=dbx.register_keys.index(keys0[case.get("partial_index", 0) % len(keys0)]))
        except Exception:
            pass
    tdir = os.path.join(root, "tgt")
    os.makedirs(tdir)
    shared = {}
    fails, info = eval_step(db, dbx, case, root, tdir, shared)
    # histories: further exports from the same exporting database (other format / options / selection, the same or another target,
    # after an export that was refused or written); every clause is evaluated again for each of them
    for si, st in enumerate(case.get("then") or []):
        stc = merged_step(case, st)
        f2, i2 = eval_step(db, dbx, stc, root, tdir, shared)
        info.setdefault("then", []).append(i2.get("outcome"))
        for oracle, expected, observed, extra in f2:
            fails.append(("[export no. %d from the same database] " % (si + 2) + oracle, expected, observed, dict(extra, step=si + 1)))
    return fails, info


def call_export(dbx, arg, case, select, kw):
    """TsDB.export as the caller of this case spells the call"""
    sp = case.get("spell") or {}
    how = sp.get("bool", "py")
    exist_ok = spell_bool(case["exist_ok"], how)
    basename = spell_bool(case["basename"], how)
    force = case["force"] if how == "py" else spell_bool(case["force"], how)
    if case.get("entry") == "funcs":
        # the GUI's entry point: export(filename, names=names, exist_ok=True, basename=False, twin=twin, filterargs=fargs)
        from qats.app.funcs import export_to_file
        return quiet(export_to_file, arg, dbx, select, kw.get("twin"), kw.get("filterargs"))
    delim = case.get("delim") or "\t"
    verbose = "verbose" in (sp.get("noop") or [])
    style = case.get("args", "kw")
    if style == "posall":
        return quiet(dbx.export, arg, select, delim, False, exist_ok, basename, verbose, force, **kw)
    flags = dict(exist_ok=exist_ok, basename=basename, force_common_time=force)
    if case.get("delim"):
        flags["delim"] = delim
    if verbose:
        flags["verbose"] = True
    if style == "pos":
        return quiet(dbx.export, arg, select, **flags, **kw)
    return quiet(dbx.export, arg, names=select, **flags, **kw)


def eval_step(db, dbx, case, root, tdir, shared):
    """one export from `dbx` and its reload, compared with retrievals from the reference database `db`"""
    from qats import TsDB
    fails, info = [], {}
    ext = case["ext"]
    select = case["select"]
    kw = kw_of(case["kw"])
    sel = db.getm(names=select, fullkey=True, store=False)
    keys = list(sel.keys())
    if not keys:
        info["outcome"] = "empty-selection"
        return fails, info
    stored = [np.array(sel[k].t) for k in keys]
    ident = all(a.shape == stored[0].shape and np.array_equal(a, stored[0]) for a in stored)
    # names the file should contain
    ser_by_key = {}
    for s in case["series"]:
        for k in keys:
            if k.endswith("/" + s["name"]) or k == s["name"]:
                if s["file"] is None or ("/" + s["file"] + "/") in k:
                    ser_by_key[k] = s
    exp_names = [ser_by_key[k]["name"] for k in keys]
    info["names"] = exp_names
    # in-memory retrieval with the same options: (1) every selected series on its own, (2) the selection in one request
    try:
        exp1 = retrieve_each(db, keys, kw)
    except Exception:
        exp1 = None
    try:
        exp = db.getda(names=select, fullkey=True, store=False, **kw)
        exp = OrderedDict((k, (np.asarray(v[0], dtype=float), np.asarray(v[1], dtype=float))) for k, v in exp.items())
        exp_err = None
    except Exception as e:
        exp, exp_err = None, e
    if exp is not None and exp1 is not None:
        # the same code on the same stored arrays: equal to the last bit
        for k, n in zip(keys, exp_names):
            one, req = exp1[k], exp.get(k)
            if req is None or req[0].shape != one[0].shape or req[1].shape != one[1].shape or \
                    not (np.array_equal(req[0], one[0], equal_nan=True) and np.array_equal(req[1], one[1], equal_nan=True)):
                fails.append(("in-memory retrieval of a selection returns for every series what retrieval of that series alone returns",
                              dict(series=n, t=one[0].tolist()[:6], x=one[1].tolist()[:6]),
                              None if req is None else dict(series=n, t=req[0].tolist()[:6], x=req[1].tolist()[:6]), dict(series=n)))
                break
        exp = exp1               # what the reloaded file is compared with: each series retrieved on its own
    if exp1 is not None and not kw and case["source"] != "mem":
        # a file-backed source was itself written by the format's writer: without options, retrieval returns the arrays that were
        # written, within the source format's precision (round trip of the source file)
        for k, n in zip(keys, exp_names):
            te, xe = np.array(ser_by_key[k]["t"], dtype=float), np.array(ser_by_key[k]["x"], dtype=float)
            tg, xg = exp1[k]
            rt, at, rx, ax = tolerances("." + case["source"], te, xe)
            okt = len(tg) == len(te) and ((case["source"] == "h5" and not is_uniform(te)) or bool(np.all(np.abs(tg - te) <= at + rt * np.abs(te))))
            okx = len(xg) == len(xe) and bool(np.all(np.abs(xg - xe) <= ax + rx * np.abs(xe)))
            if not (okt and okx):
                fails.append(("a file-backed database retrieves for every name the arrays its source file was written with (source "
                              "format's precision)", dict(series=n, t=te.tolist()[:6], x=xe.tolist()[:6]),
                              dict(series=n, t=tg.tolist()[:6], x=xg.tolist()[:6]), dict(series=n)))
                break
    # a reference that does not go through the library at all: an in-memory series, no option but (possibly) a window -> the samples
    # of the arrays the series was built from that lie inside the window
    direct = None
    if case["source"] == "mem" and set(case["kw"]) <= {"twin"}:
        arrs = mem_arrays(case)
        direct = OrderedDict()
        for k in keys:
            t0, x0 = arrs[[id(s) for s in case["series"]].index(id(ser_by_key[k]))]
            if "twin" in kw:
                m = (t0 >= kw["twin"][0]) & (t0 <= kw["twin"][1])
                t0, x0 = t0[m], x0[m]
            direct[k] = (t0, x0)
    # ... and for an in-memory series resampled to a specified time array and nothing else: that very array and the linear
    # interpolation of the arrays the series was built from (only where the array lies inside every selected series' span)
    direct_rs = None
    rsj = case["kw"].get("resample")
    if case["source"] == "mem" and set(case["kw"]) == {"resample"} and rsj[0] in ("arr", "list") and len(rsj[1]) >= 2:
        arrs = mem_arrays(case)
        ra = np.array([float(v) for v in rsj[1]])
        direct_rs = OrderedDict()
        for k in keys:
            t0, x0 = arrs[[id(s) for s in case["series"]].index(id(ser_by_key[k]))]
            if not (np.all(np.diff(t0) > 0) and ra.min() >= t0[0] and ra.max() <= t0[-1] and np.all(np.isfinite(x0))):
                direct_rs = None
                break
            direct_rs[k] = (ra, np.interp(ra, t0, x0), max(1.0, float(np.max(np.abs(x0)))))
    # target
    sub = os.path.join(tdir, "newdir") if case["subdir"] else tdir
    target = os.path.join(sub, case.get("target", "out") + ext)
    pre = case["preexisting"]
    if pre and not os.path.exists(target):          # (a later export may meet the file an earlier one has written)
        os.makedirs(os.path.dirname(target), exist_ok=True)
        if pre == "export" and ext in EXTS + [".pickle"]:
            write_previous_export(target, ext)
        else:
            with open(target, "wb") as f:
                f.write(b"SENTINEL-" + ext.encode())
            if ext == ".ts":
                with open(os.path.splitext(target)[0] + ".key", "w") as f:
                    f.write("sentinel\nEND\n")
    existed = os.path.isfile(target)
    # how the target is named in the call: absolute path, bare file name in the working directory, relative path with a directory
    # (plain, with a leading './', through '..')
    style = case.get("target_style", "abs")
    if style == "bare" and (case["subdir"] or "/" in case.get("target", "out")):
        style = "rel"
    arg = target
    if style == "bare":
        os.makedirs(os.path.dirname(target), exist_ok=True)
        os.chdir(os.path.dirname(target))
        arg = os.path.basename(target)
    elif style in ("rel", "dot", "dotdot"):
        os.chdir(root)
        arg = os.path.relpath(target, root)
        if style == "dot":
            arg = "./" + arg
        elif style == "dotdot":
            arg = os.path.join("..", os.path.basename(root), arg)
    info["target_arg"] = arg
    # what should be written: the in-memory retrievals if their time arrays agree; with force_common_time (and no resampling
    # requested) otherwise the retrievals resampled to the common time array
    exp0, forced = exp, False
    if exp is not None:
        ts_ = [v[0] for v in exp.values()]
        same = all(a.shape == ts_[0].shape and np.allclose(a, ts_[0], rtol=1e-9, atol=1e-12) for a in ts_)
    else:
        same = False
    if not same and case["force"] and "resample" not in kw and case.get("entry") != "funcs":
        try:
            ct = db.create_common_time(names=select, twin=kw.get("twin"))
            kw2 = dict(kw)
            kw2["resample"] = ct
            exp = retrieve_each(db, keys, kw2)
            forced, same = True, True
        except Exception:
            pass
    # time arrays that agree within export's closeness but not to the last bit, force_common_time=True: writing them side by side as
    # they are and resampling them to the common time array are both what the statement allows
    alt = None
    if same and not forced and not ident and case["force"] and "resample" not in kw and case.get("entry") != "funcs" and \
            not all(a.shape == ts_[0].shape and np.array_equal(a, ts_[0]) for a in ts_):
        try:
            kw2 = dict(kw)
            kw2["resample"] = db.create_common_time(names=select, twin=kw.get("twin"))
            alt = retrieve_each(db, keys, kw2)
        except Exception:
            alt = None
    nproc = None if exp is None else min(len(v[0]) for v in list(exp.values()) + (list(alt.values()) if alt else []))
    xtra = dict(processed_samples=nproc)
    # the call as this case spells it (the same option objects again when a later export says so)
    sp = case.get("spell") or {}
    if case.get("kw_same") and "kw_objs" in shared:
        kwx = shared["kw_objs"]
    else:
        tt_all = [s["t"] for s in case["series"]]
        kwx = kw_spelled(case, span=(min(t[0] for t in tt_all), max(t[-1] for t in tt_all)))
        shared.setdefault("kw_objs", kwx)            # (the option objects of the first export)
    selx = tuple(select) if (isinstance(select, list) and sp.get("names") == "tuple") else select
    before = snapshot(tdir)
    try:
        call_export(dbx, arg, case, selx, kwx)
        raised = None
    except Exception as e:
        raised = e
    after = snapshot(tdir)
    changed = sorted(set(k for k in set(before) | set(after) if before.get(k) != after.get(k)))
    info["written_names"] = exp_names
    if raised is not None:
        info["raised"] = "%s: %s" % (type(raised).__name__, str(raised)[:100])
    # what the call asks for (the GUI's entry point always allows overwriting and never forces)
    exist_ok = True if case.get("entry") == "funcs" else bool(case["exist_ok"])
    basename = False if case.get("entry") == "funcs" else bool(case["basename"])
    if raised is not None:
        info["outcome"] = "raise:" + type(raised).__name__
        if after != before:
            fails.append(("an export that raises leaves the target (and every other file) untouched", "no file created or modified",
                          dict(raised="%s: %s" % (type(raised).__name__, str(raised)[:120]), changed=changed), xtra))
        # exports that must not be refused: identical stored time arrays, valid options, distinct names, overwriting allowed
        must = ident and exp_err is None and exp0 is not None and (exist_ok or not existed) and ext in EXTS + [".pickle"] and \
            (len(set(exp_names)) == len(exp_names)) and all(len(v[0]) >= 2 for v in exp0.values())
        if must:
            fails.append(("series with identical time arrays and valid options are exported", "file written",
                          "%s: %s" % (type(raised).__name__, str(raised)[:160]), xtra))
        return fails, info
    info["outcome"] = "written"
    if existed and not exist_ok:
        fails.append(("an existing file is not overwritten when exist_ok=False", "FileExistsError, target untouched",
                      dict(outcome="export returned", target_argument=arg, files_changed=changed,
                           exist_ok=repr(spell_bool(case["exist_ok"], sp.get("bool", "py")))), xtra))
        return fails, info
    if exp is None or not same:
        fails.append(("series whose processed time arrays differ are never written side by side", "export raises",
                      dict(written=True, processed_time_arrays=None if exp is None else [v[0].tolist()[:12] for v in exp.values()],
                           retrieval_error=None if exp_err is None else repr(exp_err)[:160]), xtra))
        return fails, info
    info["forced"] = forced
    # reload (the file is named as it was in the export call, or by its absolute path, or in a list handed to `load`)
    try:
        rs = case.get("reload_style", "same")
        if rs == "load":
            db2 = TsDB()
            quiet(db2.load, [arg])
        else:
            db2 = quiet(TsDB.fromfile, os.path.abspath(arg) if rs == "abs" else arg)
        keys2 = list(db2.register_keys)
        got_names = [k[len(os.path.abspath(arg)) + 1:] for k in keys2]
        da = db2.getda(ind=list(range(len(keys2))), fullkey=True, store=False)
        got = [(np.asarray(da[k][0], dtype=float), np.asarray(da[k][1], dtype=float)) for k in keys2]
    except Exception as e:
        fails.append(("the written file can be loaded again", "names, time and data", "%s: %s" % (type(e).__name__, str(e)[:160]), xtra))
        return fails, info
    def compare(exp, forced):
        """the reloaded names and arrays against the expected processed arrays `exp`; returns the failing clauses"""
        fails = []
        # names
        if basename or len(keys) == 1:
            want = list(exp_names)
            okn = sorted(got_names) == sorted(want)         # (the order of the records is not part of the property; h5 sorts them)
            if not okn:
                fails.append(("reloaded names equal the exported names", want, got_names, xtra))
                return fails
            order = [got_names.index(n) for n in want]
        else:
            okn = len(got_names) == len(keys) and len(set(got_names)) == len(got_names) and \
                all(g == n or g.endswith("_" + n) for g, n in zip(got_names if ext != ".h5" else sorted(got_names), exp_names if ext != ".h5" else
                                                                  [n for _, n in sorted(zip(got_names, got_names))]))
            if ext == ".h5":
                okn = len(got_names) == len(keys) and len(set(got_names)) == len(got_names)
            if not okn:
                fails.append(("with basename=False every series is written under a distinct shortened key ending in its name", exp_names, got_names, xtra))
                return fails
            if ext == ".h5":
                # match by suffix and data
                order = []
                for (k, (te, xe)), n in zip(exp.items(), exp_names):
                    cands = [i for i, g in enumerate(got_names) if (g == n or g.endswith("_" + n)) and i not in order and len(got[i][1]) == len(xe)
                             and np.array_equal(got[i][1], xe, equal_nan=True)]
                    if not cands:
                        fails.append(("with basename=False every series is written under a distinct shortened key ending in its name", exp_names, got_names, xtra))
                        return fails
                    order.append(cands[0])
            else:
                order = list(range(len(keys)))
        # arrays
        fmt = ext if ext != ".pickle" else ".pkl"
        for (k, (te, xe)), i, n in zip(exp.items(), order, exp_names):
            tg, xg = got[i]
            rt, at, rx, ax = tolerances(fmt, te, xe)
            if len(tg) != len(te) or len(xg) != len(xe):
                fails.append(("reloaded arrays have the length of the processed arrays", [len(te), len(xe)], [len(tg), len(xg)], dict(series=n, **xtra)))
                continue
            # .ts / .dat / .pkl hold ONE time column: that of the first series, to which export compares the others with
            # |t - t0| <= 1e-12 + 1e-9 |t0|. So: the format's precision against the first series' processed time, and that plus export's
            # closeness against the series' own (h5 stores start and step per series: its own time at the format's precision)
            te0 = list(exp.values())[0][0]
            if ext == ".h5" and not is_uniform(te):
                info["h5_nonuniform"] = True
            elif ext != ".h5" and len(te0) == len(tg) and not np.all(np.abs(tg - te0) <= at + rt * np.abs(te0)):
                j = int(np.argmax(np.abs(tg - te0) - (at + rt * np.abs(te0))))
                fails.append(("reloaded time equals the processed time within the format's precision", float(te0[j]), float(tg[j]), dict(series=n, index=j, **xtra)))
            elif not np.all(np.abs(tg - te) <= at + rt * np.abs(te) + (0.0 if ext == ".h5" else 1e-12 + 1e-9 * np.abs(te))):
                j = int(np.argmax(np.abs(tg - te) - (at + rt * np.abs(te))))
                fails.append(("reloaded time equals the processed time within the format's precision", float(te[j]), float(tg[j]), dict(series=n, index=j, **xtra)))
            if not np.all(within(xg, xe, rx, ax)):
                j = worst(xg, xe, rx, ax)
                fails.append(("reloaded data equal the processed data within the format's precision", float(xe[j]), float(xg[j]), dict(series=n, index=j, **xtra)))
            # the window, read directly off the file: no reloaded sample lies outside a window that was asked for
            rsm = case["kw"].get("resample")
            if "twin" in kw and len(tg) and not (ext == ".h5" and not is_uniform(te)) and (rsm is None or rsm[0] == "step"):
                a, b = kw["twin"]
                slack = at + rt * max(abs(a), abs(b), float(np.max(np.abs(tg))))
                if tg[0] < a - slack or tg[-1] > b + slack or np.any(tg < a - slack) or np.any(tg > b + slack):
                    fails.append(("a windowed export holds no sample outside the window", [float(a), float(b)], [float(np.min(tg)), float(np.max(tg))],
                                  dict(series=n, **xtra)))
            # ... and the stored samples themselves (in-memory source, no option but the window): not through any retrieval
            if direct is not None and not forced:
                t0, x0 = direct[k]
                rt0, at0, rx0, ax0 = tolerances(fmt, t0, x0)
                okd = len(tg) == len(t0) and len(xg) == len(x0) and (bool(np.all(np.abs(tg - t0) <= at0 + rt0 * np.abs(t0) + (0.0 if ext == ".h5" else 1e-12 + 1e-9 * np.abs(t0)))) or
                                                                       (ext == ".h5" and not is_uniform(t0))) and bool(np.all(within(xg, x0, rx0, ax0)))
                if not okd:
                    fails.append(("without options other than a window the reloaded file holds the samples the series was built from (inside the "
                                  "window), at the format's precision", dict(series=n, t=t0.tolist()[:6], x=x0.tolist()[:6]),
                                  dict(series=n, t=tg.tolist()[:6], x=xg.tolist()[:6]), dict(series=n, **xtra)))
            if direct_rs is not None and not forced:
                t0, x0, sc = direct_rs[k]
                rt0, at0, rx0, ax0 = tolerances(fmt, t0, x0)
                okd = len(tg) == len(t0) and len(xg) == len(x0) and \
                    (bool(np.all(np.abs(tg - t0) <= at0 + rt0 * np.abs(t0))) or (ext == ".h5" and not is_uniform(t0))) and \
                    bool(np.all(np.abs(xg - x0) <= 1e-9 * sc + ax0 + max(rx0, 1e-12) * np.abs(x0) + 2e-7 * sc * (ext in (".ts", ".dat"))))
                if not okd:
                    fails.append(("an export resampled to a specified time array (no other option) holds that time array and the linear "
                                  "interpolation of the samples the series was built from, at the format's precision",
                                  dict(series=n, n=len(t0), t=t0.tolist()[:6], x=x0.tolist()[:6]),
                                  dict(series=n, n=len(tg), t=tg.tolist()[:6], x=xg.tolist()[:6]), dict(series=n, **xtra)))
        # forced resampling: independent reading of "resampled to the common window"
        if forced:
            sel = OrderedDict((k, db.get(ind=db.register_keys.index(k), store=False)) for k in keys)     # each series read on its own
            t_all = [np.array(sel[k].t) for k in keys]
            cs, ce = max(a[0] for a in t_all), min(a[-1] for a in t_all)
            T = got[0][0]
            tol = 1e-6 * max(1.0, abs(ce))
            if len(T) and (T[0] < cs - tol or T[-1] > ce + tol):
                fails.append(("forced common time lies inside the common window", [float(cs), float(ce)], [float(T[0]), float(T[-1])], xtra))
            if not any(x in case["kw"] for x in ("filterargs", "taperfrac", "window_len")):
                for k, i, n in zip(keys, order, exp_names):
                    ref = np.interp(exp[k][0], sel[k].t, sel[k].x)
                    if len(got[i][1]) != len(ref):
                        continue                    # (length mismatch is reported above)
                    rt, at, rx, ax = tolerances(fmt, exp[k][0], ref)
                    sc = max(1.0, float(np.max(np.abs(sel[k].x))))
                    if not np.all(np.abs(got[i][1] - ref) <= 1e-9 * sc + ax + max(rx, 1e-12) * np.abs(ref) + 2e-7 * sc * (ext in (".ts", ".dat"))):
                        fails.append(("forced resampling writes the linear interpolation of each series on the common time", "np.interp",
                                      "differs", dict(series=n, **xtra)))
        return fails
    f1 = compare(exp, forced)
    if f1 and alt is not None and not compare(alt, True):
        # (time arrays that agree to rounding but not to the last bit, force_common_time=True: the series were resampled to the common
        # time array, which the statement allows as well)
        f1, info["forced"] = [], True
    fails += f1
    return fails, info


def f19_shape(f):
    inp = f.get("input") or {}
    if not isinstance(inp, dict) or inp.get("kind") != "e2e" or inp.get("ext") != ".dat":
        return False
    names = [s["name"] for s in inp.get("series", [])]
    return "can be loaded again" in f.get("oracle", "") and "time vector" in str(f.get("observed")) and \
        any(pyfnmatch.fnmatchcase(n, "[Tt]ime*") for n in names)


def f19b_shape(f):
    inp = f.get("input") or {}
    if not isinstance(inp, dict) or inp.get("kind") != "e2e" or inp.get("ext") not in (".pkl", ".pickle"):
        return False
    return "can be loaded again" in f.get("oracle", "") and "cannot insert Time" in str(f.get("observed")) and \
        any(s["name"] == "Time" for s in inp.get("series", []))


def f30_shape(f):
    """the processed arrays (as in-memory retrieval returns them) have fewer than two samples"""
    inp = f.get("input") or {}
    n = f.get("processed_samples")
    return isinstance(inp, dict) and inp.get("kind") == "e2e" and n is not None and n < 2


def fxok_shape(f):
    """exist_ok spelled as 0 / numpy.bool_(False) and the existing target was overwritten"""
    inp = f.get("input") or {}
    if not isinstance(inp, dict) or inp.get("kind") != "e2e":
        return False
    spells = [(inp.get("spell") or {}).get("bool")] + [(st.get("spell") or {}).get("bool") for st in inp.get("then") or []]
    return "is not overwritten when exist_ok=False" in f.get("oracle", "") and any(b in ("np", "int") for b in spells) and \
        isinstance(f.get("observed"), dict) and f["observed"].get("exist_ok") in ("0", "False", "np.False_", "numpy.False_")


def f31_shape(f):
    inp = f.get("input") or {}
    return isinstance(inp, dict) and inp.get("kind") == "e2e" and inp.get("ext") == ".ts" and ".ts" in str(inp.get("target", "")) and \
        "can be loaded again" in f.get("oracle", "") and "FileNotFoundError" in str(f.get("observed"))


def f32_shape(f):
    inp = f.get("input") or {}
    r = (inp.get("kw") or {}).get("resample") if isinstance(inp, dict) else None
    return isinstance(inp, dict) and inp.get("kind") == "e2e" and inp.get("ext") == ".ts" and r is not None and r[0] == "list" and \
        "RuntimeError" in str(f.get("observed"))


def run_e2e(chk, case):
    root = tempfile.mkdtemp(prefix="qv07_")
    try:
        try:
            fails, info = eval_e2e(case, root)
        except BuildRefused:
            # building the database itself can refuse (same key twice in memory)
            chk.dist("e2e:build-refused")
            return
        except Exception as e:
            # an exception raised by the implementation outside `export` / the reload (writing the source files, loading them,
            # selecting the series of the reference) is a failing clause, never a crash of the check
            chk.count("roundtrip")
            chk.dist("e2e:%s %s exception outside export" % (case.get("ext"), case.get("source")))
            tb = [ln.strip() for ln in traceback.format_exc().strip().splitlines() if ln.strip().startswith("File")][-2:]
            chk.fail("the database of the case can be built, selected from and retrieved from (an exception raised by the implementation "
                     "while the case is evaluated is a failing clause)", case, "no exception",
                     "%s: %s" % (type(e).__name__, str(e)[:200]), where=tb)
            return
        chk.count("roundtrip")
        ext = case["ext"]
        chk.dist("e2e:%s %s %s" % (ext, case["source"], info.get("outcome", "?")))
        if info.get("forced"):
            chk.dist("e2e:forced-resampling written")
        if info.get("h5_nonuniform"):
            chk.dist("e2e:h5 non-uniform time (outside the property: not compared)")
        if case.get("then"):
            chk.count("roundtrip-later-export", len(case["then"]))
            for o in info.get("then", []):
                chk.dist("e2e:later export from the same database %s" % o)
        for lab, val in (("dtype", case.get("dtype")), ("entry", case.get("entry")), ("args", case.get("args")),
                         ("preexisting", case.get("preexisting") if case.get("preexisting") == "export" else None),
                         ("target_style", case.get("target_style") if case.get("target_style") in ("dot", "dotdot") else None),
                         ("reload", case.get("reload_style") if case.get("reload_style") in ("abs", "load") else None),
                         ("nonfinite", "yes" if case.get("nonfinite") else None), ("delim", repr(case["delim"]) if case.get("delim") else None),
                         ("then", "%d more" % len(case["then"]) if case.get("then") else None),
                         ("close-times", "%s -> %s %s" % ("+".join(sorted(set(case["close_kinds"]))), ext, info.get("outcome", "?"))
                          if case.get("close_kinds") else None),
                         ("resample-array", "%s -> %s" % (case.get("resarr_kind"), info.get("outcome", "?")) if case.get("resarr_kind") else None)):
            if val not in (None, "f8", "method", "kw"):
                chk.dist("e2e-class:%s=%s" % (lab, val))
        for k, v in (case.get("spell") or {}).items():
            for w in (v if isinstance(v, list) else [v]):
                chk.dist("e2e-class:spelling %s=%s" % (k, w))
        if len(case["series"]) > 1 or case["kw"] or case["force"]:
            chk.nontriv(("e2e", json.dumps(case, sort_keys=True)))
        for oracle, expected, observed, extra in fails:
            chk.fail(oracle, case, expected, observed, **extra)
        if info.get("outcome") == "written" and not fails and len(case["series"]) > 1 and case["kw"] and len(chk.samples) < 6 and \
                len(case["series"][0]["t"]) < 8:
            chk.sample(dict(stream="roundtrip", case=case, outcome=info))
    finally:
        shutil.rmtree(root, ignore_errors=True)


def run(chk):
    chk.extra["rule"] = RULE
    chk.assumptions += [
        "POSIX paths; every selected series has at least two samples; names are representable in the target format (no white space "
        "for .dat, no '/' or '\\' for .h5, no leading '**' or quote / not END / no surrounding blanks for key files)",
        "dyadic times and values in the model correspondence (float arithmetic exact or compared to 1e-12 / 1e-9)",
        "float32 / %15.7g / pandas pickle / h5py are exercised by the round trips only (tolerances: 1.2e-7 relative, 5.1e-7 relative, "
        "exact, 8 n eps max|t|)",
        "the .dat column delimiter is white space (default tab) and the header is written (skip_header=False)"]
    chk.partial += [
        "common_safe_twin_partial: a positive `is_common` answer with a window (and optionally a resampling step) implies equal windowed "
        "time arrays only for series on one lattice (false off the lattice and for non-uniform series: machine-checked "
        "counterexamples); the export itself is safe for all inputs because of the final comparison (written_times_close)",
        "roundtrip_h5: the time array is reproduced only for uniformly sampled series (start + i*delta)"]
    chk.matchers[F19] = f19_shape
    chk.matchers[F30] = f30_shape
    rng = chk.rng
    drv = core.Driver()
    root = tempfile.mkdtemp(prefix="qv07c_")
    try:
        q = chk.quick
        for c in core.load_corpus("C07"):
            if c.get("kind") == "e2e":
                run_e2e(chk, c)
        corr_check(chk, drv, rng, 1500 if q else 30000)
        corr_cct(chk, drv, rng, 600 if q else 12000)
        corr_names(chk, drv, rng, 1200 if q else 24000)
        corr_export(chk, drv, rng, 900 if q else 18000, root)
        corr_codec(chk, drv, rng, 150 if q else 2400, root)
        corr_rows_pkl(chk, drv, rng, 250 if q else 3000, root)
    finally:
        shutil.rmtree(root, ignore_errors=True)
    for c in corner_cases():
        run_e2e(chk, c)
    for _ in range(1300 if chk.quick else 12000):
        run_e2e(chk, gen_e2e(rng))
    # series on one time grid whose time arrays are equal to rounding only (after the main stream, whose cases stay what they were)
    for _ in range(220 if chk.quick else 2500):
        run_e2e(chk, gen_e2e(rng, corner="close"))
    writers_close(chk, rng, 150 if chk.quick else 2000)
    # `resample` given as a time array related to the series' own time arrays (ends on / beyond a series' end by round-off)
    for _ in range(260 if chk.quick else 3000):
        run_e2e(chk, gen_e2e(rng, corner="resarr"))
    # long series (999 ... 70001 samples) to every format: round trip over the whole length, refusals, windows at block boundaries
    from .c07_long import run_long
    run_long(chk)


def replay(rp):
    inp = rp.get("input")
    kind = inp.get("kind") if isinstance(inp, dict) else None
    if kind == "long":
        from .c07_long import replay_long
        return replay_long(inp)
    root = tempfile.mkdtemp(prefix="qv07r_")
    try:
        if kind == "e2e":
            try:
                fails, info = eval_e2e(inp, root)
            except Exception as e:
                fails, info = [("the database of the case can be built, selected from and retrieved from", "no exception",
                                "%s: %s" % (type(e).__name__, str(e)[:200]), {})], dict(outcome="exception outside export")
            print("case: %d series from %s -> %s, options %s, basename=%s force=%s" % (len(inp["series"]), inp["source"], inp["ext"], inp["kw"],
                                                                                   inp["basename"], inp["force"]))
            print("outcome:", info.get("outcome"), "" if not inp.get("then") else "| later exports from the same database: %s" % info.get("then"))
            for k in ("spell", "entry", "args", "dtype", "nonfinite", "delim", "target", "target_style", "reload_style", "preexisting"):
                if inp.get(k) not in (None, {}, False, "out", "abs", "same", "kw", "method"):
                    print("   %s: %s" % (k, inp[k]))
            fails = [(o, e, ob) for o, e, ob, _ in fails]
        elif kind == "rows":
            rows, allc, firstm, fails = eval_rows(inp, root)
            print("write_dat_data / read_dat_data on %d rows x %d columns (delimiter %r), first %d columns by index" % (
                len(inp["t"]), len(inp["cols"]) + 1, inp.get("delim", "\t"), inp["m"]))
        elif kind == "pkl":
            gn, gd, fails = eval_pkl(inp, root)
            print("pickle_format.write_data / read_pickle_names / read_data on names %s" % inp["names"])
        elif kind == "wclose":
            fails = eval_wclose(inp, root)
            print("%s writer / reader on %d series of %d samples, time arrays computed as %s" % (inp["fmt"], len(inp["names"]), len(inp["times"][0]),
                                                                                           inp["kinds"]))
        elif kind == "codec" and inp.get("codec") == "exception":
            from qats.io.direct_access import write_ts_data, read_ts_names, read_ts_data
            from qats.io.other import write_dat_data, read_dat_names
            from qats.io.sima_h5 import write_data as write_h5, read_names as read_h5_names, read_data as read_h5_data
            t = np.arange(3.0)
            recs = OrderedDict((nm, (t, t + i)) for i, nm in enumerate(inp["names"]))
            fails = []
            for lab, fn in [(".ts", lambda: (write_ts_data(os.path.join(root, "c.ts"), t, recs), read_ts_names(os.path.join(root, "c.key")),
                                             read_ts_data(os.path.join(root, "c.ts")))),
                            (".dat", lambda: (write_dat_data(os.path.join(root, "c.dat"), t, recs, delim=inp.get("delim", "\t")),
                                              read_dat_names(os.path.join(root, "c.dat")))),
                            (".h5", lambda: (write_h5(os.path.join(root, "c.h5"), recs), read_h5_data(os.path.join(root, "c.h5"),
                                                                                                       names=read_h5_names(os.path.join(root, "c.h5")))))]:
                try:
                    fn()
                except Exception as e:
                    fails.append(("the writers and readers of the four formats accept representable names", "no exception",
                                  "%s: %s: %s" % (lab, type(e).__name__, str(e)[:160])))
            print("writers / readers of .ts, .dat, .h5 on names %s" % inp["names"])
        elif kind == "check":
            ic, fails = clause_is_common(inp)
            print("is_common_time(twin=%s) on %s -> %s" % (inp["twin"], inp["times"], ic))
        elif kind == "cct":
            fails = clause_cct(inp)
            print("create_common_time(twin=%s) on %s" % (inp["twin"], inp["times"]))
        elif kind == "names":
            got, im, fails = clause_names(inp)
            print("_make_export_friendly_names(%s, keep_basename=%s) -> %s" % (inp["keys"], inp["basename"], got if got is not None else im))
        elif kind == "trace":
            itrace = impl_trace(inp, os.path.join(root, "t"))
            print("observed steps of export:", show_trace(itrace))
            fails = clause_trace(itrace)
        else:
            print("no failing input stored (%s); broken: %s" % (rp.get("kind"), rp.get("broken")))
            print("re-run:  VERIF_SEED=%s ./check C07 %s" % (rp.get("seed"), rp.get("tier")))
            print(json.dumps(rp.get("first_disagreement"), indent=1, default=str)[:3000])
            return 1
    finally:
        shutil.rmtree(root, ignore_errors=True)
    for oracle, expected, observed in fails:
        print("FAILS: %s\n   expected: %s\n   observed: %s" % (oracle, expected, observed))
    if not fails:
        print("all clauses hold for this input")
    return 1 if fails else 0
