"""
C17, descriptive half of the statistics summary (`TimeSeries.stats`: start / end / duration / dtavg / mean / std / skew / kurt /
min / max / tz) — stream `st.moments`.

Tie: `Qats.Moments.describe` (lean/Qats/Model/Moments.lean) evaluated at Float (`st.moments`, all eleven fields) and at Rat
(`st.momentsq`, the fields computed with field operations only, exact-arithmetic reading eps = 0) on the PROCESSED arrays
`(t, x) = ts.get(**kwargs)` and compared with `ts.stats(**kwargs)` of the real code (relative tolerance 1e-10).
Oracles (the clauses proved in Props/C17.lean, evaluated on the implementation): min <= mean <= max, duration = end - start,
dtavg*(n-1) = duration, std^2*(n-1) = sum of squared deviations; x -> a*x + b (a = 2^k > 0, b integer): mean / min / max map as
a*v + b, std as a*v, skew / kurt / tz / start / end / duration / dtavg unchanged; x -> -x: mean and skew negate, std and kurt
unchanged, min / max swap with the sign (tz is NOT claimed: it counts up-crossings; how often it changes is recorded); a second
query on the same object (after a different query) returns what a fresh object returns.

Every case is a self-contained JSON dict (kind = "moments") that `replay_moments` re-evaluates.
"""
import math
import random
import warnings

import numpy as np

from ..core import fbits, unfbits, rat
from fractions import Fraction

FIELDS = ("start", "end", "duration", "dtavg", "mean", "std", "skew", "kurt", "min", "max", "tz")
QFIELDS = ("start", "end", "duration", "dtavg", "mean", "var", "kurt", "min", "max", "tz")
EPS = float(np.finfo(np.float64).eps)
RULE_MOMENTS = ("MOMENTS: seeded series of 2 / 3 / 4 / 5 / 6-300 samples; time uniform / seeded unequal dyadic steps / two rates / a gap; "
                "signal unquantised float / quantised to 1/1024 / small integers (int dtype) / two-valued / constant (dyadic, and "
                "non-dyadic = scipy's degenerate-sample threshold region) x plain / window / resampling to a new constant step / both "
                "x affine map a = 2^k, b integer x mirror x a second query on the same object; model evaluated on the processed arrays "
                "get(**kwargs); non-trivial = every case, distinct by input")


def _time(rng, n, tmode):
    if tmode == "uniform":
        return np.arange(n) * rng.choice([0.5, 0.125, 1.0])
    if tmode == "two-rate":
        k = rng.randint(0, n - 1)
        dt = np.r_[np.full(k, 0.25), np.full(n - 1 - k, 0.5)]
    elif tmode == "jitter":
        dt = np.array([rng.choice([0.25, 0.5, 0.5, 0.75, 1.0]) for _ in range(n - 1)])
    elif tmode == "gap":
        dt = np.full(n - 1, 0.5)
        dt[rng.randint(0, n - 2)] = float(rng.choice([8, 40]))
    else:
        raise ValueError(tmode)
    return np.r_[0.0, np.cumsum(dt)] + float(rng.choice([0, 0, 16, -4]))


def build(inp):
    """(t, x) of the case: deterministic in the input dict"""
    rng = random.Random(inp["seed"])
    n, xmode = inp["n"], inp["xmode"]
    t = _time(rng, n, inp["tmode"])
    nr = np.random.RandomState(rng.randint(0, 10 ** 6))
    if xmode in ("float", "quantised"):
        x = rng.uniform(0.3, 2.0) * np.sin(2 * np.pi * rng.uniform(0.02, 0.2) * np.arange(n) + rng.uniform(0, 6.28))
        x = x + rng.choice([0.2, 1.0]) * nr.standard_normal(n) + rng.choice([0.0, -5.0, 3.0])
        if rng.random() < 0.3:
            x = x + 0.5 * nr.standard_exponential(n)              # skewed
        if xmode == "quantised":
            x = np.round(x * 1024) / 1024
    elif xmode == "integer":
        x = nr.randint(-5, 6, size=n)
        if inp.get("dtype") != "int":
            x = x.astype(float)
    elif xmode == "two-valued":
        x = nr.choice([-1.0, 2.0], size=n)
    elif xmode == "constant":
        x = np.full(n, float(rng.choice([2.5, -3.0, 0.0, 1024.0])))
    elif xmode == "constant-nondyadic":
        x = np.full(n, float(rng.choice([0.1, -1.3, 1e-3, 7.7])))
    else:
        raise ValueError(xmode)
    return t, x


def kwargs_of(inp):
    kw = {}
    p = inp.get("proc") or {}
    if "twin" in p:
        kw["twin"] = tuple(float(v) for v in p["twin"])
    if "resample" in p:
        kw["resample"] = float(p["resample"])
    return kw


def gen_case(rng, k):
    n = [2, 3, 4, 5, 2, 3][k] if k < 6 else rng.choice([2, 3, 4, 5, 6, 7, 8, 9, 12, 17, 33, 64, 100, 200, 300])
    tmode = rng.choice(["uniform", "uniform", "jitter", "jitter", "two-rate"] + (["gap"] if n >= 6 else []))
    xmode = rng.choice(["float", "float", "quantised", "quantised", "integer", "integer", "two-valued", "constant",
                        "constant-nondyadic"])
    inp = dict(kind="moments", seed=rng.randint(0, 10 ** 9), n=n, tmode=tmode, xmode=xmode,
               dtype=rng.choice(["int", "float"]), a=float(2.0 ** rng.randint(-2, 3)), b=float(rng.randint(-9, 9)))
    if n >= 6 and rng.random() < 0.45:
        t, _ = build(inp)
        proc = {}
        r = rng.random()
        if r < 0.6:
            i0 = rng.randint(0, n // 3)
            i1 = rng.randint(2 * n // 3, n - 1)
            proc["twin"] = [float(t[i0]) - rng.choice([0.0, 0.1]), float(t[i1]) + rng.choice([0.0, 0.1])]
        if r > 0.4:
            proc["resample"] = rng.choice([0.125, 0.25, 0.5, 0.3])
        inp["proc"] = proc
    return inp


def _stats(ts, kw):
    with np.errstate(all="ignore"), warnings.catch_warnings():
        warnings.simplefilter("ignore")
        s = ts.stats(**kw)
    return {k: float(s[k]) for k in FIELDS}


def _close(a, b, rel, floor):
    if math.isnan(a) or math.isnan(b):
        return math.isnan(a) and math.isnan(b)
    if math.isinf(a) or math.isinf(b):
        return a == b
    return abs(a - b) <= rel * max(abs(a), abs(b)) + floor


def evaluate(inp):
    """(failing clauses [(oracle, expected, observed)], data for the model comparison or None, notes)"""
    from qats import TimeSeries
    t, x = build(inp)
    kw = kwargs_of(inp)
    a, b = float(inp["a"]), float(inp["b"])
    fails, notes = [], []
    t_given, x_given = t.copy(), x.copy()
    try:
        ts = TimeSeries("s", t, x)
        # history on one object: a different query first, then the case's query; a fresh object for reference
        with np.errstate(all="ignore"), warnings.catch_warnings():
            warnings.simplefilter("ignore")
            ts.stats(is_minima=True, statsdur=1000., twin=(float(t[0]), float(t[max(1, len(t) // 2)])))
            tt, xx = ts.get(**kw)
        s = _stats(ts, kw)
        s_fresh = _stats(TimeSeries("s", t_given.copy(), x_given.copy()), kw)
        s_again = _stats(ts, kw)
        y = a * x_given.astype(float) + b
        sa = _stats(TimeSeries("s", t_given.copy(), y), kw)
        sm = _stats(TimeSeries("s", t_given.copy(), -x_given.astype(float)), kw)
    except Exception as e:                                          # noqa
        return [("TimeSeries.stats returns the summary of every series with at least two samples (must not raise)", "summary",
                 repr(e))], None, notes
    tt = np.asarray(tt, dtype=float)
    xx = np.asarray(xx, dtype=float)
    n = int(xx.size)
    scale = float(np.abs(xx).max()) + 1.0
    spread = float(xx.max() - xx.min())
    tspan = float(np.abs(tt).max()) + 1.0
    if not (np.array_equal(t, t_given) and np.array_equal(x, x_given)):
        fails.append(("the caller's arrays are unchanged by the summary", "unchanged", "changed"))
    for k in FIELDS:
        if not (_close(s[k], s_fresh[k], 0, 0) and _close(s[k], s_again[k], 0, 0)):
            fails.append(("a second query on the same object (after a different query) returns what a fresh object returns",
                          {k: s_fresh[k]}, {k: [s[k], s_again[k]]}))
            break
    # degenerate region of scipy's test m2 <= (eps*mean)^2: the moments of a (nearly) constant signal are rounding noise
    m2 = float(np.mean((xx - xx.mean()) ** 2))
    borderline = m2 <= 1e6 * (EPS * float(xx.mean())) ** 2 and m2 > 0.0
    degenerate = spread == 0.0
    # -- consistency with its parts --------------------------------------------------------------------------------------
    tol = 4 * EPS * scale
    dev2 = math.fsum((float(v) - s["mean"]) ** 2 for v in xx)
    ok = (s["min"] - tol <= s["mean"] <= s["max"] + tol and s["min"] == float(xx.min()) and s["max"] == float(xx.max()) and
          s["start"] == float(tt[0]) and s["end"] == float(tt[-1]) and s["duration"] == s["end"] - s["start"] and
          (n < 2 or (_close(s["dtavg"] * (n - 1), s["duration"], 1e-10, 1e-12 * tspan) and
                     _close(s["std"] ** 2 * (n - 1), dev2, 1e-9, 1e-24 * scale ** 2))))
    if not ok:
        fails.append(("descriptive summary consistent with its parts: min <= mean <= max, min / max / start / end those of the "
                      "processed series, duration == end - start, dtavg*(samples-1) == duration, std^2*(samples-1) == sum of squared "
                      "deviations from the mean",
                      dict(min=float(xx.min()), max=float(xx.max()), start=float(tt[0]), end=float(tt[-1]), samples=n,
                           sum_sq_dev=dev2), s))
    # -- affine map ----------------------------------------------------------------------------------------------------------
    exact = inp["xmode"] in ("quantised", "integer", "two-valued", "constant") and "resample" not in kw
    near_mean = float(np.abs(xx - xx.mean()).min()) <= 1e-9 * scale
    tz_comparable = exact or not near_mean
    bad = []
    for k, exp in (("mean", a * s["mean"] + b), ("min", a * s["min"] + b), ("max", a * s["max"] + b)):
        if not _close(sa[k], exp, 1e-10, 1e-12 * (a * scale + abs(b))):
            bad.append(k)
    for k in ("start", "end", "duration", "dtavg"):
        if not _close(sa[k], s[k], 0, 0):
            bad.append(k)
    if not (borderline or inp["xmode"] == "constant-nondyadic"):
        if not _close(sa["std"], a * s["std"], 1e-9, 1e-13 * a * scale):
            bad.append("std")
        if not degenerate:
            for k in ("skew", "kurt"):
                if not _close(sa[k], s[k], 1e-8, 1e-8):
                    bad.append(k)
        if tz_comparable and not _close(sa["tz"], s["tz"], 1e-12 if exact else 1e-9, 0):
            bad.append("tz")
    if bad:
        fails.append(("x -> a*x + b (a > 0): mean / min / max map as a*v + b, std as a*v; skew, kurt, tz, start, end, duration, "
                      "dtavg unchanged (fields failing: %s)" % ", ".join(bad), dict(original=s, a=a, b=b), sa))
    # -- mirror --------------------------------------------------------------------------------------------------------------
    bad = []
    for k, exp in (("mean", -s["mean"]), ("min", -s["max"]), ("max", -s["min"])):
        if not _close(sm[k], exp, 1e-12, 1e-13 * scale):
            bad.append(k)
    for k in ("start", "end", "duration", "dtavg"):
        if not _close(sm[k], s[k], 0, 0):
            bad.append(k)
    if not (borderline or inp["xmode"] == "constant-nondyadic"):
        if not _close(sm["std"], s["std"], 1e-12, 1e-14 * scale):
            bad.append("std")
        if not degenerate:
            if not _close(sm["skew"], -s["skew"], 1e-10, 1e-10):
                bad.append("skew")
            if not _close(sm["kurt"], s["kurt"], 1e-10, 1e-10):
                bad.append("kurt")
    if bad:
        fails.append(("x -> -x: mean and skew negate, std and kurt unchanged, min / max swap with the sign; start, end, duration, "
                      "dtavg unchanged (fields failing: %s)" % ", ".join(bad), dict(original=s), sm))
    notes.append("mirror-tz:%s" % ("both-nan" if math.isnan(s["tz"]) and math.isnan(sm["tz"]) else
                                   "same" if _close(sm["tz"], s["tz"], 1e-12, 0) else "different"))
    notes.append("region:%s" % ("degenerate" if degenerate else "borderline" if borderline else "regular"))
    data = dict(tt=tt, xx=xx, s=s, exact=exact, borderline=borderline or inp["xmode"] == "constant-nondyadic",
                near_mean=near_mean, scale=scale, tspan=tspan)
    return fails, data, notes


def compare(data, reply, fields):
    """fields of the model reply that differ from the implementation's summary (None: malformed reply)"""
    if not reply.startswith("ok "):
        return ["reply:" + reply]
    toks = reply.split()[1:]
    if len(toks) != len(fields):
        return ["reply:" + reply]
    s, scale, tspan = data["s"], data["scale"], data["tspan"]
    isq = fields is QFIELDS
    bad = []
    for k, tok in zip(fields, toks):
        if tok == "nan":
            mv = float("nan")
        else:
            mv = float(Fraction(tok)) if isq else unfbits(tok)
        iv = s["std"] ** 2 if k == "var" else s[k]
        if k in ("std", "var", "skew", "kurt") and data["borderline"]:
            continue                                    # rounding noise on either side of scipy's threshold: not comparable
        if k == "tz" and data["near_mean"] and not data["exact"]:
            continue                                    # a sample within rounding of the mean level: crossing flags not comparable
        if k in ("skew", "kurt"):
            ok = _close(mv, iv, 1e-10, 1e-10)
        elif k in ("start", "end", "duration", "dtavg", "tz"):
            ok = _close(mv, iv, 1e-10, 1e-13 * tspan)
        elif k == "var":
            ok = _close(mv, iv, 1e-10, 1e-24 * scale ** 2)
        else:
            ok = _close(mv, iv, 1e-10, 1e-13 * scale)
        if not ok:
            bad.append("%s: model %r impl %r" % (k, mv, iv))
    return bad


def run_moments(chk, drv):
    rng = chk.rng
    chk.extra["rule"] = (chk.extra.get("rule") or "") + " || " + RULE_MOMENTS
    chk.assumptions += ["Qats.Moments: integral powers d**2.0 … d**4.0 inside scipy's moments are products, v**0.5 is sqrt, numpy's "
                        "pairwise summation is a left fold (equal over a field; within rounding at Float, tolerance 1e-10); scipy's "
                        "degenerate-sample threshold eps is a parameter (2^-52 at Float, 0 in the exact-arithmetic theorems)"]
    N = 70 if chk.quick else 700
    cases = [gen_case(rng, k) for k in range(N)]
    lines, owners = [], []
    for inp in cases:
        chk.count("st.moments")
        chk.nontriv(repr(inp))
        proc = "+".join(sorted((inp.get("proc") or {}).keys())) or "plain"
        chk.dist("moments:%s:%s:%s:n%s" % (inp["xmode"], inp["tmode"], proc, inp["n"] if inp["n"] <= 5 else ">5"))
        try:
            fails, data, notes = evaluate(inp)
        except Exception as e:                                      # noqa
            fails, data, notes = [("the descriptive summary and its oracles can be evaluated", "clauses", repr(e))], None, []
        for nt in notes:
            chk.dist("moments:" + nt)
        for f in fails:
            chk.fail(f[0], inp, f[1], f[2])
        if data is None:
            continue
        tt, xx = data["tt"], data["xx"]
        lines.append("st.moments %s %s | %s" % (fbits(EPS), " ".join(fbits(v) for v in tt), " ".join(fbits(v) for v in xx)))
        owners.append((inp, data, FIELDS))
        if data["exact"] and xx.size <= 120:
            lines.append("st.momentsq %s | %s" % (" ".join(rat(float(v)) for v in tt), " ".join(rat(float(v)) for v in xx)))
            owners.append((inp, data, QFIELDS))
            chk.count("st.momentsq")
    for (inp, data, fields), o in zip(owners, drv.run(lines)):
        bad = compare(data, o.strip(), fields)
        if bad:
            chk.disagree("st.momentsq" if fields is QFIELDS else "st.moments", inp, bad, data["s"])
    chk.sample(cases[-1])


def replay_moments(rp):
    inp = rp["input"]
    fails, _, _ = evaluate(inp)
    for f in fails:
        print("FAILS: %s\n   expected %s\n   observed %s" % f)
    print("replay: %d failing clause(s)" % len(fails))
    return 1 if fails else 0
