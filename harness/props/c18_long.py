"""
C18 -- LONG series (audit round 8: size-conditioned code paths).

The histories of c18.py run on series of 1-50 samples.  Here the same clauses (absolute instant of EVERY sample invariant under
re-referencing / copying / reading, dtg_time == reference + relative time, start / end instants, construction from stamps,
originals untouched by operations on copies) are evaluated on series of 999 ... 131073 samples, with exact integer-microsecond
arithmetic as the reference (all times are multiples of 1/8 s, so float and timedelta arithmetic are exact: tolerance 0).
The sampling is NOT uniform: gaps (one or several extra eighths of a second) sit in the first / last elements, exactly at
multiples of 1000 / 1024 / 4096 / 10000 / 65536 and in pairs spanning them.  A failing input stores (n, seed, gaps, ops) only.
"""
import copy as _copy
from datetime import datetime, timedelta

import numpy as np

SIZES_SMALL = (999, 1000, 1001, 1023, 1024, 1025, 4095, 4096, 4097, 9999, 10000, 10001)
SIZES_BIG = (65535, 65536, 65537, 70001, 131073)
BLOCKS = (1000, 1024, 4096, 10000, 65536)
EPOCH = datetime(2000, 1, 1)
BASE8 = 20 * 365 * 86400 * 8        # eighths of a second: instants around 2020
E8 = 125000                         # microseconds per eighth


def special_positions(rng, n):
    cand = {1, 2, n - 1, n - 2}
    for b in BLOCKS:
        if n >= b:
            for m in {rng.randint(1, n // b), n // b}:
                cand |= {m * b - 1, m * b, m * b + 1}
    return sorted(p for p in cand if 1 <= p < n)


def gen_long(rng, n):
    pos = special_positions(rng, n)
    gaps = {p: rng.choice([1, 3, 8, 80, 8 * 3600]) for p in rng.sample(pos, min(len(pos), rng.choice([1, 2, 4])))}
    bs = [b for b in BLOCKS if n > b]
    if bs:
        b = rng.choice(bs)
        m = rng.randint(1, (n - 1) // b)
        gaps[m * b - 1] = 1
        gaps[m * b] = rng.choice([1, 8])
    if rng.random() < 0.5:
        gaps[n - 1] = rng.choice([1, 80])
    q = lambda: BASE8 + rng.randint(-400 * 86400 * 8, 400 * 86400 * 8)
    ops = []
    for _ in range(rng.choice([3, 4, 6])):
        r = rng.random()
        ops.append("set:%d" % q() if r < 0.35 else "set:-" if r < 0.55 else "read" if r < 0.75 else rng.choice(["copy", "deep", "copy:name"]))
    if not any(o.startswith("set") for o in ops):
        ops.insert(rng.randint(0, len(ops)), "set:%d" % q())
    ops.append("read")
    ctor = rng.choice(["F", "F", "F-dt64ref", "S-dt", "S-us"])
    return dict(kind="long", n=n, seed=rng.randrange(2 ** 31), ctor=ctor, dt8=rng.choice([1, 1, 2, 4, 8]),
                start8=rng.choice([0, 0, rng.randint(-800, 80000)]), ref8=q(), refarg=(ctor != "S-dt" and ctor != "S-us") or rng.random() < 0.4,
                gaps=[[int(p), int(g)] for p, g in sorted(gaps.items())], ops=ops)


def times8(case):
    """time of every sample in eighths of a second (int64): relative to the reference (ctor F) or to EPOCH (stamps)"""
    n = case["n"]
    t8 = case["start8"] + np.arange(n, dtype=np.int64) * case["dt8"]
    for p, g in case["gaps"]:
        t8[p:] += g
    return t8


def inst8(v):
    return EPOCH + timedelta(microseconds=int(v) * E8)


def us_of(d):
    """microseconds since EPOCH of a datetime / datetime64, as python int"""
    if isinstance(d, np.datetime64):
        d = d.astype("datetime64[us]").tolist()
    td = d - EPOCH
    return (td.days * 86400 + td.seconds) * 1000000 + td.microseconds


def us_array(stamps):
    """int64 microseconds since EPOCH for a sequence of datetime objects"""
    a = np.array(list(stamps), dtype="datetime64[us]")
    return (a - np.datetime64(EPOCH, "us")).astype(np.int64)


def abs_us(ref, t):
    """reference + relative seconds of every sample in whole microseconds, computed here"""
    if ref is None:
        return None
    tu = np.asarray(t, dtype=float) * 1e6
    return us_of(ref) + np.rint(tu).astype(np.int64)


def build(case):
    from qats import TimeSeries
    t8 = times8(case)
    x = np.arange(case["n"], dtype=float)
    ref = inst8(case["ref8"]) if case["refarg"] else None
    if case["ctor"].startswith("F"):
        if ref is not None and case["ctor"] == "F-dt64ref":
            ref = np.datetime64(ref)
        return TimeSeries("s", t8 / 8.0, x, dtg_ref=ref), None
    stamps_us = (BASE8 + t8) * E8
    st64 = np.datetime64(EPOCH, "us") + stamps_us.astype("timedelta64[us]")
    if case["ctor"] == "S-us":
        return TimeSeries("s", st64, x, dtg_ref=ref), stamps_us
    t = np.empty(case["n"], dtype=object)
    t[:] = st64.astype(datetime)
    return TimeSeries("s", t, x, dtg_ref=ref), stamps_us


def _diff(a, b):
    """None when equal, else a short description of the first difference"""
    if a is None or b is None:
        return None if (a is None and b is None) else "one of them is None"
    a, b = np.asarray(a), np.asarray(b)
    if a.shape != b.shape:
        return "lengths %r / %r" % (a.shape, b.shape)
    ne = a != b
    if not ne.any():
        return None
    i = int(np.argmax(ne))
    return "%d samples differ, first at index %d: %s / %s (microseconds since 2000-01-01)" % (int(ne.sum()), i, a[i], b[i])


def play(case):
    """-> [(oracle, expected, observed, clause)]"""
    out = []
    n = case["n"]
    fail = lambda *a: out.append(a)
    try:
        ts, stamps = build(case)
    except Exception as e:
        return [("a series of %d samples can be constructed (%s)" % (n, case["ctor"]), "a series", "%s: %s" % (type(e).__name__, str(e)[:200]), "build")]
    a0 = abs_us(ts.dtg_ref, ts.t)
    if stamps is not None:
        d = _diff(stamps, a0)
        if d:
            fail("built from %d date-time stamps: reference + relative time of every sample equals its stamp" % n, "equal", d, "from_stamps")
    elif case["refarg"]:
        d = _diff(case["ref8"] * E8 + times8(case) * E8, a0)
        if d:
            fail("built from numbers and a reference: the absolute instants are the given reference + the given times (%d samples)" % n,
                 "equal", d, "from_floats")
    originals = []
    for k, op in enumerate(case["ops"]):
        where = "step %d (%s) on a series of %d samples" % (k + 1, op, n)
        pre_ref, pre_t = ts.dtg_ref, np.array(ts.t, dtype=float, copy=True)
        a_pre = abs_us(pre_ref, pre_t)
        ret = None
        try:
            if op == "read":
                ret = ts.dtg_time
            elif op == "set:-":
                if pre_ref is None:
                    continue
                ts.set_dtg_ref()
            elif op.startswith("set:"):
                ts.set_dtg_ref(inst8(int(op.split(":")[1])))
            else:
                new = ts.copy() if op == "copy" else _copy.deepcopy(ts) if op == "deep" else ts.copy(newname="c%d" % k)
                if new.dtg_ref != ts.dtg_ref or not np.array_equal(np.asarray(new.t), pre_t):
                    fail("a copy has the same reference and relative times", "equal", _diff(pre_t, np.asarray(new.t)) or "reference differs",
                         "copy_equal@" + where)
                originals.append((ts, ts.dtg_ref, np.array(ts.t, dtype=float, copy=True)))
                ts = new
        except Exception as e:
            fail("a valid operation on a series with %d samples succeeds" % n, "no exception", "%s: %s" % (type(e).__name__, str(e)[:200]),
                 "raises@" + where)
            continue
        a_post = abs_us(ts.dtg_ref, ts.t)
        if a_pre is not None:
            d = _diff(a_pre, a_post)
            if d:
                fail("reference + relative time of every sample is the same before and after %s" % (
                    "reading dtg_time" if op == "read" else "re-referencing to the series start" if op == "set:-" else
                    "re-referencing to an instant" if op.startswith("set") else "copying"), "equal", d, "abs_invariant@" + where)
        elif op.startswith("set:") and not np.array_equal(pre_t, np.asarray(ts.t)):
            fail("setting a reference on a series that has none changes no relative time", "equal", _diff(pre_t, np.asarray(ts.t)),
                 "set_on_none_keeps_t@" + where)
        if a0 is None:
            a0 = a_post
        if op == "set:-" and (float(ts.t[0]) != 0.0 or us_of(ts.dtg_ref) != int(a_pre[0])):
            fail("re-referencing to the series start: first relative time 0, reference = old start instant", [0.0, int(a_pre[0])],
                 [float(ts.t[0]), us_of(ts.dtg_ref)], "set_none_post@" + where)
        if op.startswith("set:") and op != "set:-" and ts.dtg_ref != inst8(int(op.split(":")[1])):
            fail("after set_dtg_ref(x) the reference is x", str(inst8(int(op.split(":")[1]))), str(ts.dtg_ref), "set_ref_post@" + where)
        try:
            if op == "read":
                if (ret is None) != (a_post is None):
                    fail("dtg_time returns reference + relative time of every sample (None without reference)", "stamps" if ret is None else None,
                         "None" if ret is None else "stamps", "read@" + where)
                elif ret is not None:
                    d = _diff(a_post, us_array(ret))
                    if d:
                        fail("dtg_time returns reference + relative time of every sample", "equal", d, "read@" + where)
            cache = getattr(ts, "_dtg_time", None)
            if cache is not None and a_post is not None:
                d = _diff(a_post, us_array(cache))
                if d:
                    fail("cached stamps, when present, equal reference + relative time (no stale cache)", "equal", d, "cache_consistent@" + where)
            if a_post is not None:
                se = [us_of(ts.dtg_start), us_of(ts.dtg_end)]
                if se != [int(a_post[0]), int(a_post[-1])]:
                    fail("dtg_start / dtg_end are the first / last absolute instant", [int(a_post[0]), int(a_post[-1])], se, "start_end@" + where)
        except Exception as e:
            fail("dtg_time / dtg_start / dtg_end can be read on a series with %d samples" % n, "values", "%s: %s" % (type(e).__name__, str(e)[:200]),
                 "raises@" + where)
    try:
        final = ts.dtg_time
        d = _diff(a0, None if final is None else us_array(final))
    except Exception as e:
        d = "%s: %s" % (type(e).__name__, str(e)[:200])
    if d:
        fail("after the whole history dtg_time still gives the instants the series (%d samples) had when it first got a reference" % n,
             "equal", d, "history_end")
    for obj, r, t in originals:
        if obj.dtg_ref != r or not np.array_equal(np.asarray(obj.t), t):
            fail("operations on a copy never modify the original", "unchanged", _diff(t, np.asarray(obj.t)) or "reference changed", "copy_independent")
    return out


def plan(chk):
    rng = chk.rng
    if chk.quick:
        b = rng.sample(SIZES_BIG, 2)
        return list(SIZES_SMALL) + [b[0], 65537 if 65537 not in b else b[1]]
    return list(SIZES_SMALL) * 8 + list(SIZES_BIG) * 4


def run_long(chk, corpus=()):
    cases = [dict(c) for c in corpus if c.get("kind") == "long"]
    cases += [gen_long(chk.rng, n) for n in plan(chk)]
    for case in cases:
        chk.count("long.history", len(case["ops"]))
        chk.nontriv(("long", repr(case)))
        chk.dist("long:n=%d" % case["n"])
        chk.dist("long:" + case["ctor"])
        try:
            res = play(case)
        except Exception as e:      # noqa
            res = [("the clauses can be evaluated on a long series (no exception)", "values", "%s: %s" % (type(e).__name__, str(e)[:200]), "harness")]
        for oracle, exp, obs, clause in res:
            chk.fail(oracle, case, exp, obs, clause=clause)


def replay_long(case):
    fails = play(case)
    print("long history: n", case["n"], case["ctor"], "gaps", case["gaps"], "ops", case["ops"])
    for (oracle, exp, obs, clause) in fails:
        print("FAILS [%s]: %s\n   expected %s\n   observed %s" % (clause, oracle, exp, obs))
    print("replay: %d failing clause(s)" % len(fails))
    return 1 if fails else 0
