"""C10, stream `dbcopy`: copies and updates of a database of several series requested with name patterns that OVERLAP and whose first
pattern selects everything (`['*', 'b*']`, `['*', '*']`, `['*', <a full name>]`): the selection is the whole database, so the copy must
equal its source in every key (in registration order), array and attribute; a deep copy shares no series object or array with it, a
shallow copy / update shares exactly the series objects."""
import numpy as np


def eval_case(case):
    import random
    from qats import TimeSeries, TsDB
    rng = random.Random(case["seed"])
    names = case["names"]
    db = TsDB()
    for j, nm in enumerate(names):
        t = np.arange(5 + j) * 0.5
        db.add(TimeSeries(nm, t, 10.0 * (j + 1) + np.sin(t), kind="force", unit="kN"))
    keys = list(db.register_keys)
    bad = []
    pats = ["*", case["second"]]
    for how in ("copy-deep", "copy-shallow", "update-deep", "update-shallow"):
        try:
            if how.startswith("copy"):
                c = db.copy(names=pats, shallow=how.endswith("shallow"))
            else:
                c = TsDB()
                c.update(db, names=pats, shallow=how.endswith("shallow"))
            ck = list(c.register_keys)
        except Exception as e:      # noqa
            bad.append(("a copy of a database can be taken with overlapping name patterns", how, keys, "raised %s: %s" % (type(e).__name__, e)))
            continue
        if ck != keys or list(c.list(display=False)) != keys:
            bad.append(("a copy of a database selected by patterns that cover everything equals its source: the same keys in "
                        "registration order", how, keys, ck))
            continue
        for k in keys:
            a, b = db.register[k], c.register[k]
            same = np.array_equal(a.t, b.t) and np.array_equal(a.x, b.x) and (a.name, a.kind, a.unit) == (b.name, b.kind, b.unit)
            if not same:
                bad.append(("every series of the copy equals the series of the source under the same key", how, k, b.name))
                break
            if how.endswith("deep") and (a is b or np.shares_memory(a.x, b.x) or np.shares_memory(a.t, b.t)):
                bad.append(("a deep copy shares no series object or array with its source", how, k, "shared"))
                break
            if how.endswith("shallow") and a is not b:
                bad.append(("a shallow copy / update shares exactly the series objects", how, k, "another object"))
                break
    if list(db.register_keys) != keys:
        bad.append(("copying leaves the source as it was", "source", keys, list(db.register_keys)))
    return bad


def gen_case(rng):
    pool = ["tension_1", "tension_2", "b", "bend", "Heave", "x y", "a [kN/m]", "moment", "t2", "surge"]
    names = rng.sample(pool, rng.randint(3, 7))
    second = rng.choice(["*", names[rng.randrange(len(names))], names[-1][:1] + "*", names[0][:2] + "*", "*e*", "t*"])
    return dict(kind="dbcopy", seed=rng.randrange(10 ** 6), names=names, second=second)


def run_dbcopy(chk):
    for _ in range(12 if chk.quick else 120):
        case = gen_case(chk.rng)
        chk.count("dbcopy")
        chk.nontriv(("dbcopy", tuple(case["names"]), case["second"]))
        try:
            bad = eval_case(case)
        except Exception as e:      # noqa
            bad = [("a database copy case can be evaluated", "case", "clauses", "raised %s: %s" % (type(e).__name__, e))]
        for clause, how, exp, obs in bad[:1]:
            chk.fail(clause, dict(case, how=how), exp, obs)


def replay_dbcopy(inp):
    bad = eval_case({k: v for k, v in inp.items() if k != "how"})
    for clause, how, exp, obs in bad:
        print("FAILS: %s (%s) | expected %s | observed %s" % (clause, how, exp, obs))
    print("replay: %d failing clause(s)" % len(bad))
    return 1 if bad else 0
