"""C18, histories that also *process* the series in place (TimeSeries.modify): the lazily cached array of absolute date-times
must keep describing the samples the series holds.

Clause (property statement, observed at dtg_time / dtg_start / dtg_end): for a series with a date-time reference, dtg_time is
reference + relative time of every sample it holds, start / end instants are the first / last of them — after any history of
reads, re-referencing, copies and in-place processing (window / resampling).  Input kind "proc".  Found F54 on the unchanged
tree (modify kept the cache of the former time array; fixed).
"""
from datetime import datetime, timedelta

from fractions import Fraction

import numpy as np

from .. import core

EPOCH = datetime(2020, 1, 1)
REF0 = datetime(2020, 3, 1, 12, 0, 0)
TOL = 2e-6


def build(case):
    from qats import TimeSeries
    n = case["n"]
    t = case["t0"] + case["dt"] * np.arange(n, dtype=float)
    x = np.array([((7 * i) % 11) - 5.0 for i in range(n)])
    if case["ctor"] == "stamps":
        stamps = np.array([REF0 + timedelta(seconds=float(v)) for v in t])
        return TimeSeries("s", stamps, x)
    return TimeSeries("s", t, x, dtg_ref=REF0)


def clauses(ts, where):
    fails = []
    if ts.dtg_ref is None:
        return fails
    t = np.asarray(ts.t, dtype=float)
    try:
        dtg = ts.dtg_time
        ds, de = ts.dtg_start, ts.dtg_end
    except Exception as e:
        return [("dtg_time / dtg_start / dtg_end can be read (%s)" % where, "date-times", type(e).__name__ + ": " + str(e))]
    if dtg is None or len(dtg) != len(t):
        fails.append(("dtg_time holds one instant per sample (%s)" % where, len(t), None if dtg is None else len(dtg)))
        return fails
    for i in range(len(t)):
        want = ts.dtg_ref + timedelta(seconds=float(t[i]))
        if abs((dtg[i] - want).total_seconds()) > TOL:
            fails.append(("dtg_time is reference + relative time of every sample (%s)" % where, [i, str(want)], [i, str(dtg[i])]))
            break
    if len(t):
        for name, got, want in (("dtg_start", ds, ts.dtg_ref + timedelta(seconds=float(t[0]))),
                                ("dtg_end", de, ts.dtg_ref + timedelta(seconds=float(t[-1])))):
            if got is None or abs((got - want).total_seconds()) > TOL:
                fails.append(("%s is the instant of the first / last sample (%s)" % (name, where), str(want), str(got)))
    return fails


def apply(ts, op):
    """-> (new current series, note)"""
    kind = op[0]
    if kind == "read":
        _ = ts.dtg_time
    elif kind == "window":
        a, b = ts.t[0] + op[1] * (ts.t[-1] - ts.t[0]), ts.t[0] + op[2] * (ts.t[-1] - ts.t[0])
        ts.modify(twin=(a, b))
    elif kind == "resample":
        ts.modify(resample=float(op[1]) * (ts.t[1] - ts.t[0]))
    elif kind == "setref":
        ts.set_dtg_ref(REF0 + timedelta(seconds=op[1]))
    elif kind == "setstart":
        ts.set_dtg_ref()
    elif kind == "copy":
        return ts.copy()
    return ts


def gen_ops(rng, nops):
    ops = []
    for _ in range(nops):
        r = rng.random()
        if r < 0.3:
            ops.append(["read"])
        elif r < 0.55:
            a = rng.choice([0.0, 0.125, 0.25, 0.5])
            ops.append(["window", a, rng.choice([0.75, 0.875, 1.0])])
        elif r < 0.7:
            ops.append(["resample", rng.choice([0.5, 2, 1])])
        elif r < 0.8:
            ops.append(["setref", rng.choice([-64, 0, 16, 3600])])
        elif r < 0.9:
            ops.append(["setstart"])
        else:
            ops.append(["copy"])
    return ops


def play(case):
    fails = []
    try:
        ts = build(case)
    except Exception as e:
        return [("the series can be constructed", "series", type(e).__name__ + ": " + str(e))]
    fails += clauses(ts, "after construction")
    for k, op in enumerate(case["ops"]):
        if len(ts.t) < 4:
            break
        try:
            ts = apply(ts, op)
        except Exception as e:
            fails.append(("operation %d %s succeeds" % (k + 1, op), "no exception", type(e).__name__ + ": " + str(e)))
            break
        fails += clauses(ts, "after operation %d %s" % (k + 1, op))
        if fails:
            break
    return fails


def secs(d):
    """datetime -> exact seconds since EPOCH (microsecond resolution)"""
    td = d - EPOCH
    return Fraction(td.days * 86400 + td.seconds) + Fraction(td.microseconds, 10 ** 6)


def observed_state(ts):
    ref = None if ts.dtg_ref is None else core.rat(secs(ts.dtg_ref))
    cache = getattr(ts, "_dtg_time", None)
    c = "-" if cache is None else ",".join(core.rat(secs(v)) for v in cache)
    t = ",".join(core.rat(Fraction(float(v))) for v in ts.t)
    st = "-" if ref is None or len(ts.t) == 0 else core.rat(secs(ts.dtg_start))
    en = "-" if ref is None or len(ts.t) == 0 else core.rat(secs(ts.dtg_end))
    return ";".join([ref if ref is not None else "-", t, c, st, en])


def model_case(case):
    """-> (model line, list of observed states) for the histories the Lean model covers (no resampling), or None"""
    if any(op[0] == "resample" for op in case["ops"]):
        return None
    ts = build(case)
    kind = "S" if case["ctor"] == "stamps" else "F"
    if kind == "S":
        first = [core.rat(secs(v)) for v in ts.dtg_time]
        head = "dtg.runx S - %s |" % " ".join(first)
    else:
        head = "dtg.runx F %s %s |" % (core.rat(secs(REF0)), " ".join(core.rat(Fraction(float(v))) for v in ts.t))
    obs, toks = [observed_state(ts)], []
    for op in case["ops"]:
        if len(ts.t) < 4:
            break
        if op[0] == "window":
            a, b = ts.t[0] + op[1] * (ts.t[-1] - ts.t[0]), ts.t[0] + op[2] * (ts.t[-1] - ts.t[0])
            toks.append("keep:" + "".join("1" if (a <= v <= b) else "0" for v in ts.t))
        elif op[0] == "read":
            toks.append("read")
        elif op[0] == "setref":
            toks.append("set:" + core.rat(secs(REF0 + timedelta(seconds=op[1]))))
        elif op[0] == "setstart":
            toks.append("set:-")
        elif op[0] == "copy":
            toks.append("copy")
        try:
            ts = apply(ts, op)
        except Exception as e:
            obs.append("exception " + type(e).__name__)
            break
        obs.append(observed_state(ts))
    return head + " " + " ".join(toks), obs


def run_proc(chk, drv=None):
    rng = chk.rng
    cases = [dict(kind="proc", ctor="float", n=10, t0=0.0, dt=1.0, ops=[["read"], ["window", 0.25, 0.75], ["read"]]),
             dict(kind="proc", ctor="stamps", n=12, t0=0.0, dt=0.5, ops=[["window", 0.25, 1.0], ["setstart"], ["read"]]),
             dict(kind="proc", ctor="float", n=16, t0=-3.0, dt=0.25, ops=[["read"], ["resample", 2], ["setref", 16], ["copy"], ["window", 0.0, 0.5]])]
    for _ in range(120 if chk.quick else 3000):
        cases.append(dict(kind="proc", ctor=rng.choice(["float", "stamps"]), n=rng.randint(8, 40), t0=rng.choice([0.0, -3.0, 100.0]),
                          dt=rng.choice([1.0, 0.5, 0.25, 2.0]), ops=gen_ops(rng, rng.randint(2, 6))))
    for case in cases:
        chk.count("proc.history")
        chk.dist("proc:" + case["ctor"])
        fails = play(case)
        for oracle, exp, obs in fails:
            chk.fail(oracle, case, exp, obs, clause="proc")
        if any(op[0] in ("window", "resample") for op in case["ops"]) and any(op[0] == "read" for op in case["ops"]):
            chk.nontriv(("proc", case["ctor"], case["n"], str(case["ops"])))
    chk.sample(dict(stream="proc.history", input=cases[0]))
    # correspondence with the Lean model extended by in-place processing (Qats.Dtg.runX; theorems cache_consistent_processing,
    # processing_keeps_retained_instants): state (reference, relative times, cache, start, end) after every operation
    if drv is not None:
        lines, obs, owner = [], [], []
        for case in cases:
            try:
                mc = model_case(case)
            except Exception:
                mc = None           # construction / reading failures are reported by the clauses above
            if mc is not None:
                lines.append(mc[0])
                obs.append(mc[1])
                owner.append(case)
        outs = drv.run(lines)
        for case, o, ob in zip(owner, outs, obs):
            chk.count("dtg.runx")
            mod = o.split()[1:] if o.startswith("ok") else [o]
            if mod[:len(ob)] != ob:
                k = next((i for i, (a, b) in enumerate(zip(mod, ob)) if a != b), min(len(mod), len(ob)))
                chk.disagree("dtg.runx", dict(case, first_difference_at_state=k), mod[k:k + 1], ob[k:k + 1])


def replay_proc(rp):
    fails = play(rp["input"])
    for oracle, exp, obs in fails:
        print("FAILS:", oracle, "| expected", exp, "| observed", obs)
    print("replay: %d failing clause(s)" % len(fails))
    return 1 if fails else 0
