"""C18, histories that also *process* the series in place (TimeSeries.modify): the lazily cached array of absolute date-times
must keep describing the samples the series holds.

Clauses (property statement, observed at dtg_time / dtg_start / dtg_end / dtg_ref / t): for a series with a date-time reference,
dtg_time is reference + relative time of every sample it holds, start / end instants are the first / last of them — after any
history of reads, re-referencing, copies and in-place processing; the instants shown are the same before and after re-referencing
and copying; a series built from date-time stamps shows these stamps; a call that raised left reference and relative times alone;
an operation on one series moves no instant of another one.

Input kinds
  "proc"      one series (uniformly or IRREGULARLY sampled; floats + reference, datetime stamps or numpy datetime64 stamps) and a
              history over {read, re-reference, copy, modify(...)} where modify takes EVERY kind of option and combination (twin as
              tuple / list / ndarray, resample step as float / numpy.float64 / numpy.float32, resample to a given array or list,
              filterargs lp / hp / bp / bs / tp as tuple or list, window_len (+ window), taperfrac), + REJECTED calls of every kind the
              entry points can reject (unknown filter name, wrong arity / type, cut-off beyond Nyquist, integer / tuple / zero /
              negative resample, array out of range, twin + array, empty window + resample, unknown keyword, unknown / too long
              smoothing window, invalid reference, also rejected PART-WAY: valid window / resampling followed by an invalid filter)
              after which the SAME object is used again.  "lazy" histories look at dtg_time only at read steps and at the end.
  "procpair"  two series built from one time array, operations addressed to either; a modify(resample=<array>) hands the SAME
              caller's array to both (F55: the series then shared their time array); after every step the other series must have
              kept reference and relative times, and every array the caller passed (constructor, twin, resample) must be unchanged.
Every history runs in a worker thread with a time limit (a call that does not return is a failing clause).
Found F54 on the unchanged tree (modify kept the cache of the former time array; fixed) and F55 (fixed).
"""
import threading
import warnings
from datetime import date, datetime, timedelta

from fractions import Fraction

import numpy as np

from .. import core

EPOCH = datetime(2020, 1, 1)
REF0 = datetime(2020, 3, 1, 12, 0, 0)
TOL = 2e-6
TIME_LIMIT = 10.0       # seconds for one whole history (each takes milliseconds)

REJECTS = ("filter_name", "filter_len", "filter_type", "filter_freq", "filter_tp", "resample_int", "resample_tuple", "resample_out",
           "resample_zero", "resample_neg", "twin_array", "twin_empty", "twin_short", "kw", "window_name", "window_long",
           "ref_str", "ref_np64", "ref_date", "twin_then_filter_name", "resample_then_filter_name", "array_then_filter_len",
           "interp_out", "ctor_bad")
REF_REJECTS = ("ref_str", "ref_np64", "ref_date")


# ------------------------------------------------------------------------------------------------------------------------------
# construction
# ------------------------------------------------------------------------------------------------------------------------------
class Ctx(object):
    """what the caller holds: every array handed to the library (label, object, snapshot) + the array shared by a pair"""

    def __init__(self):
        self.held = []
        self.shared = None

    def hold(self, label, arr):
        if isinstance(arr, np.ndarray):
            self.held.append((label, arr, arr.copy()))
        return arr

    def changed(self):
        out = []
        for label, arr, was in self.held:
            try:
                same = arr.shape == was.shape and bool(np.all(arr == was))
            except Exception:
                same = False
            if not same:
                out.append((label, was, arr))
        return out


def times(case):
    n = case["n"]
    steps = case.get("steps")
    if steps:
        inc = [case["dt"] * steps[i % len(steps)] for i in range(n - 1)]
        return case["t0"] + np.concatenate([[0.0], np.cumsum(inc)])
    return case["t0"] + case["dt"] * np.arange(n, dtype=float)


def build_all(case, ctx=None):
    """-> list of series (one for "proc", two for "procpair": built from ONE time array object)"""
    from qats import TimeSeries
    ctx = ctx or Ctx()
    t = times(case)
    n = len(t)
    nser = 2 if case.get("kind") == "procpair" else 1
    refs = case.get("refs") or [0] * nser
    if case["ctor"] in ("stamps", "stamps64"):
        arr = np.array([REF0 + timedelta(seconds=float(v)) for v in t])
        if case["ctor"] == "stamps64":
            arr = arr.astype("datetime64[us]")
    else:
        arr = t
    ctx.hold("the time array given to the constructor", arr)
    out = []
    for i in range(nser):
        x = ctx.hold("the data array given to the constructor", np.array([((7 * k + 3 * i) % 11) - 5.0 for k in range(n)]))
        if case["ctor"] in ("stamps", "stamps64"):
            out.append(TimeSeries("s%d" % i if nser > 1 else "s", arr, x,
                                  dtg_ref=None if refs[i] in (0, None) else REF0 + timedelta(seconds=refs[i])))
        else:
            out.append(TimeSeries("s%d" % i if nser > 1 else "s", arr, x, dtg_ref=REF0 + timedelta(seconds=refs[i] or 0)))
    return out


def build(case):
    return build_all(case)[0]


# ------------------------------------------------------------------------------------------------------------------------------
# clauses
# ------------------------------------------------------------------------------------------------------------------------------
def clauses(ts, where, look=True):
    fails = []
    if ts.dtg_ref is None:
        return fails
    t = np.asarray(ts.t, dtype=float)
    try:
        dtg = ts.dtg_time if look else None
        ds, de = ts.dtg_start, ts.dtg_end
    except Exception as e:
        return [("dtg_time / dtg_start / dtg_end can be read (%s)" % where, "date-times", type(e).__name__ + ": " + str(e))]
    if look:
        if dtg is None or len(dtg) != len(t):
            fails.append(("dtg_time holds one instant per sample (%s)" % where, len(t), None if dtg is None else len(dtg)))
            return fails
        for i in range(len(t)):
            want = ts.dtg_ref + timedelta(seconds=float(t[i]))
            if abs((dtg[i] - want).total_seconds()) > TOL:
                fails.append(("dtg_time is reference + relative time of every sample (%s)" % where, [i, str(want)], [i, str(dtg[i])]))
                break
    if len(t):
        for name, got, want in (("dtg_start", ds, ts.dtg_ref + timedelta(seconds=float(t[0]))),
                                ("dtg_end", de, ts.dtg_ref + timedelta(seconds=float(t[-1])))):
            if got is None or abs((got - want).total_seconds()) > TOL:
                fails.append(("%s is the instant of the first / last sample (%s)" % (name, where), str(want), str(got)))
    return fails


def instants(ts):
    """reference + relative time of every sample, computed here"""
    if ts.dtg_ref is None:
        return None
    return [ts.dtg_ref + timedelta(seconds=float(v)) for v in ts.t]


def far(a, b):
    if a is None or b is None:
        return not (a is None and b is None)
    if len(a) != len(b):
        return True
    return any(abs((p - q).total_seconds()) > TOL for p, q in zip(a, b))


def brief(a, k=4):
    if a is None:
        return None
    a = list(a)
    return [str(v) for v in a[:k]] + (["... (%d)" % len(a)] if len(a) > k else [])


# ------------------------------------------------------------------------------------------------------------------------------
# operations
# ------------------------------------------------------------------------------------------------------------------------------
def seq(vals, how):
    if how == "list":
        return [float(v) for v in vals]
    if how == "ndarray":
        return np.array([float(v) for v in vals])
    return tuple(float(v) for v in vals)


def modify_kwargs(ts, opts, ctx):
    """keyword arguments of a modify call from their description (fractions of the current time range / Nyquist frequency)"""
    t = np.asarray(ts.t, dtype=float)
    t0, span = float(t[0]), float(t[-1] - t[0])
    kw = {}
    if "twin" in opts:
        a, b = opts["twin"][:2]
        kw["twin"] = ctx.hold("the array given as twin", seq([t0 + a * span, t0 + b * span], opts["twin"][2] if len(opts["twin"]) > 2 else "tuple"))
    if "resample" in opts:
        mult = opts["resample"][0]
        how = opts["resample"][1] if len(opts["resample"]) > 1 else "float"
        kw["resample"] = {"float": float, "np64": np.float64, "np32": np.float32}[how](float(mult) * float(t[1] - t[0]))
    if "resample_arr" in opts:
        f0, f1, m, how = opts["resample_arr"][:4]
        if len(opts["resample_arr"]) > 4 and ctx.shared is not None:
            arr = ctx.shared
        else:
            if how == "view":
                big = np.zeros(2 * m)
                big[::2] = np.linspace(t0 + f0 * span, t0 + f1 * span, m)
                arr = big[::2]
            else:
                arr = np.linspace(t0 + f0 * span, t0 + f1 * span, m)
            ctx.hold("the array given as resample", arr)
            if len(opts["resample_arr"]) > 4:
                ctx.shared = arr
        kw["resample"] = [float(v) for v in arr] if how == "list" else arr
    if "filter" in opts:
        f = list(opts["filter"])
        nyq = 0.5 / float(np.mean(np.diff(t)))
        args = [f[0]] + ([tuple(f[1])] if f[0] == "tp" else [v * nyq for v in f[1:]])
        kw["filterargs"] = list(args) if opts.get("filter_as") == "list" else tuple(args)
    for k in ("window_len", "window", "taperfrac"):
        if k in opts:
            kw[k] = opts[k]
    return kw


def reject_call(ts, kind, ctx):
    """a call the entry point cannot serve (most raise; the ones that do not are ordinary operations)"""
    from qats import TimeSeries
    t = np.asarray(ts.t, dtype=float)
    t0, t1 = float(t[0]), float(t[-1])
    span, d = t1 - t0, float(t[1] - t[0])
    nyq = 0.5 / float(np.mean(np.diff(t)))
    win = (t0 + 0.125 * span, t0 + 0.875 * span)
    if kind == "filter_name":
        ts.modify(filterargs=("xx", 0.25 * nyq))
    elif kind == "filter_len":
        ts.modify(filterargs=("lp",))
    elif kind == "filter_type":
        ts.modify(filterargs="lp")
    elif kind == "filter_freq":
        ts.modify(filterargs=("lp", 8.0 * nyq))
    elif kind == "filter_tp":
        ts.modify(filterargs=("tp", 0.5))
    elif kind == "resample_int":
        ts.modify(resample=2)
    elif kind == "resample_tuple":
        ts.modify(resample=(t0, t0 + 0.5 * span, t1))
    elif kind == "resample_out":
        ts.modify(resample=ctx.hold("the array given as resample", np.linspace(t0 - span, t1 + span, 7)))
    elif kind == "resample_zero":
        ts.modify(resample=0.0)
    elif kind == "resample_neg":
        ts.modify(resample=-d)
    elif kind == "twin_array":
        ts.modify(twin=win, resample=ctx.hold("the array given as resample", np.linspace(win[0], win[1], 5)))
    elif kind == "twin_empty":
        ts.modify(twin=(t1 + span + 1.0, t1 + 2 * span + 2.0), resample=d)
    elif kind == "twin_short":
        ts.modify(twin=(t0,))
    elif kind == "kw":
        ts.modify(nonsense=1)
    elif kind == "window_name":
        ts.modify(window_len=3, window="nope")
    elif kind == "window_long":
        ts.modify(window_len=len(t) + 5)
    elif kind == "ref_str":
        ts.set_dtg_ref("2020-01-01 00:00:00")
    elif kind == "ref_np64":
        ts.set_dtg_ref(np.datetime64("2020-01-01T00:00:00"))
    elif kind == "ref_date":
        ts.set_dtg_ref(date(2020, 1, 1))
    elif kind == "twin_then_filter_name":
        ts.modify(twin=win, filterargs=("nofilter", 0.25 * nyq))
    elif kind == "resample_then_filter_name":
        ts.modify(resample=0.5 * d, filterargs=["lowpass", 0.25 * nyq])
    elif kind == "array_then_filter_len":
        ts.modify(resample=ctx.hold("the array given as resample", np.linspace(win[0], win[1], 9)), filterargs=("bp", 0.25 * nyq))
    elif kind == "interp_out":
        ts.interpolate(np.array([t0 - 1.0 - span, t1 + 1.0 + span]))
    elif kind == "ctor_bad":
        TimeSeries("bad", ts.t, ts.x, dtg_ref="2020-01-01")
    else:
        raise KeyError("unknown rejected-call kind " + str(kind))


def apply(ts, op, ctx=None):
    """-> the series the history continues with (the copy after a copy step)"""
    ctx = ctx or Ctx()
    kind = op[0]
    if kind == "read":
        _ = ts.dtg_time
    elif kind == "window":
        a, b = ts.t[0] + op[1] * (ts.t[-1] - ts.t[0]), ts.t[0] + op[2] * (ts.t[-1] - ts.t[0])
        ts.modify(twin=(a, b))
    elif kind == "resample":
        ts.modify(resample=float(op[1]) * (ts.t[1] - ts.t[0]))
    elif kind == "modify":
        ts.modify(**modify_kwargs(ts, op[1], ctx))
    elif kind == "reject":
        reject_call(ts, op[1], ctx)
    elif kind == "setref":
        ts.set_dtg_ref(REF0 + timedelta(seconds=op[1]))
    elif kind == "setstart":
        ts.set_dtg_ref()
    elif kind == "copy":
        return ts.copy()
    else:
        raise KeyError("unknown operation " + str(kind))
    return ts


def regrids(op, uniform):
    """does this operation put the series on a new time grid (beyond dropping samples)?"""
    if op[0] == "resample":
        return True
    if op[0] == "modify":
        o = op[1]
        return "resample" in o or "resample_arr" in o or ("filter" in o and not uniform)
    return False


def keep_mask(ts, op):
    """samples a time-preserving processing step retains (None: not a processing step)"""
    t = np.asarray(ts.t, dtype=float)
    if op[0] == "window":
        a, b = t[0] + op[1] * (t[-1] - t[0]), t[0] + op[2] * (t[-1] - t[0])
    elif op[0] == "modify" and "twin" in op[1]:
        a, b = float(t[0]) + op[1]["twin"][0] * float(t[-1] - t[0]), float(t[0]) + op[1]["twin"][1] * float(t[-1] - t[0])
    elif op[0] == "modify":
        return [True] * len(t)
    else:
        return None
    return [bool(a <= v <= b) for v in t]


# ------------------------------------------------------------------------------------------------------------------------------
# generators
# ------------------------------------------------------------------------------------------------------------------------------
def gen_modify(rng, irregular):
    """description of a modify call: every kind of option, alone and combined"""
    o = {}
    r = rng.random()
    if r < 0.16:
        kinds = ["twin"]
    elif r < 0.28:
        kinds = ["resample"]
    elif r < 0.38:
        kinds = ["resample_arr"]
    elif r < 0.66 or (irregular and r < 0.76):
        kinds = ["filter"]
    elif r < 0.8:
        kinds = [rng.choice(["window_len", "taperfrac"])]
    else:
        kinds = rng.sample(["twin", "resample", "filter", "window_len", "taperfrac"], rng.choice([2, 2, 3]))
        if rng.random() < 0.2:
            kinds = [k for k in kinds if k not in ("twin", "resample")] + ["resample_arr"]
    for k in kinds:
        if k == "twin":
            o["twin"] = [rng.choice([0.0, 0.0, 0.125, 0.25]), rng.choice([0.75, 0.875, 1.0, 1.0]), rng.choice(["tuple", "list", "ndarray"])]
        elif k == "resample":
            o["resample"] = [rng.choice([0.5, 1, 2]), rng.choice(["float", "np64", "np32"])]
        elif k == "resample_arr":
            o["resample_arr"] = [rng.choice([0.0, 0.125]), rng.choice([1.0, 0.875]), rng.choice([5, 12, 30]), rng.choice(["ndarray", "list", "view"])]
        elif k == "filter":
            f = rng.choice(["lp", "lp", "hp", "bp", "bs", "tp"])
            o["filter"] = [f, [0.125, 1.0]] if f == "tp" else [f, rng.choice([0.125, 0.25, 0.5])] if f in ("lp", "hp") else [f, 0.125, 0.5]
            o["filter_as"] = rng.choice(["tuple", "list"])
        elif k == "window_len":
            o["window_len"] = rng.choice([3, 4, 5, 7])
            if rng.random() < 0.3:
                o["window"] = rng.choice(["hanning", "bartlett", "rectangular"])
        elif k == "taperfrac":
            o["taperfrac"] = rng.choice([0.01, 0.1, 0.5])
    return o


def gen_ops(rng, nops, irregular=False, rich=True):
    ops = []
    for _ in range(nops):
        r = rng.random()
        if r < 0.22:
            ops.append(["read"])
        elif not rich and r < 0.47:
            ops.append(["window", rng.choice([0.0, 0.125, 0.25, 0.5]), rng.choice([0.75, 0.875, 1.0])])
        elif not rich and r < 0.62:
            ops.append(["resample", rng.choice([0.5, 2, 1])])
        elif r < 0.3:
            ops.append(["window", rng.choice([0.0, 0.125, 0.25]), rng.choice([0.75, 0.875, 1.0])])
        elif r < 0.58:
            ops.append(["modify", gen_modify(rng, irregular)])
        elif r < 0.7:
            ops.append(["reject", rng.choice(REJECTS)])
        elif r < 0.8:
            ops.append(["setref", rng.choice([-64, 0, 16, 3600])])
        elif r < 0.9:
            ops.append(["setstart"])
        else:
            ops.append(["copy"])
    return ops


IRREGULAR = ([1, 1, 1.25, 2, 0.75], [1, 0.5, 1.5], [1, 1, 1, 2], [0.75, 1.25, 1, 1, 2, 1, 0.5])


def gen_case(rng, rich=True):
    irregular = rich and rng.random() < 0.5
    case = dict(kind="proc", ctor=rng.choice(["float", "stamps", "stamps64"] if rich else ["float", "stamps"]),
                n=rng.choice([rng.randint(8, 40), rng.randint(40, 90)]) if rich else rng.randint(8, 40),
                t0=rng.choice([0.0, -3.0, 100.0]), dt=rng.choice([1.0, 0.5, 0.25, 2.0]))
    if irregular:
        case["steps"] = list(rng.choice(IRREGULAR))
    case["ops"] = gen_ops(rng, rng.randint(2, 7 if rich else 6), irregular, rich)
    if rich and rng.random() < 0.25:
        case["lazy"] = True
    return case


def gen_pair(rng):
    irregular = rng.random() < 0.4
    case = dict(kind="procpair", ctor=rng.choice(["float", "float", "stamps", "stamps64"]), n=rng.choice([12, 25, 48, 70]),
                t0=rng.choice([0.0, -3.0, 100.0]), dt=rng.choice([1.0, 0.5, 0.25, 2.0]), refs=rng.choice([[0, 0], [0, 3600], [0, -64]]))
    if case["ctor"] != "float" and rng.random() < 0.6:
        case["refs"] = [0, 0]
    if irregular:
        case["steps"] = list(rng.choice(IRREGULAR))
    ops = []
    if rng.random() < 0.7:
        # the same caller's array for both series (each spelled its own way), directly or after a look at the date-times
        spec = [rng.choice([0.0, 0.125]), rng.choice([1.0, 0.875]), rng.choice([5, 12, 30])]
        if rng.random() < 0.4:
            ops.append([rng.randrange(2), ["read"]])
        first = rng.randrange(2)
        ops.append([first, ["modify", {"resample_arr": spec + [rng.choice(["ndarray", "ndarray", "view"]), "shared"]}]])
        ops.append([1 - first, ["modify", {"resample_arr": spec + [rng.choice(["ndarray", "ndarray", "list"]), "shared"]}]])
    for op in gen_ops(rng, rng.randint(2, 6), irregular):
        ops.append([rng.randrange(2), op])
    case["ops"] = ops
    return case


FIXED = [
    dict(kind="proc", ctor="float", n=10, t0=0.0, dt=1.0, ops=[["read"], ["window", 0.25, 0.75], ["read"]]),
    dict(kind="proc", ctor="stamps", n=12, t0=0.0, dt=0.5, ops=[["window", 0.25, 1.0], ["setstart"], ["read"]]),
    dict(kind="proc", ctor="float", n=16, t0=-3.0, dt=0.25, ops=[["read"], ["resample", 2], ["setref", 16], ["copy"], ["window", 0.0, 0.5]]),
    # every kind of option once on a uniformly and once on an irregularly sampled series, each after a look at the date-times
    dict(kind="proc", ctor="float", n=48, t0=0.0, dt=0.5, ops=[["read"], ["modify", {"filter": ["lp", 0.25]}], ["read"], ["setstart"]]),
    dict(kind="proc", ctor="float", n=48, t0=0.0, dt=0.5, steps=[1, 1, 1.25, 2, 0.75],
         ops=[["read"], ["modify", {"filter": ["lp", 0.25]}], ["read"], ["setref", 16], ["copy"]]),
    dict(kind="proc", ctor="stamps", n=60, t0=0.0, dt=1.0, steps=[1, 0.5, 1.5],
         ops=[["modify", {"filter": ["bp", 0.125, 0.5], "filter_as": "list", "taperfrac": 0.1}], ["copy"], ["setstart"]]),
    dict(kind="proc", ctor="stamps64", n=40, t0=100.0, dt=0.25, steps=[1, 1, 1, 2],
         ops=[["modify", {"filter": ["hp", 0.25], "window_len": 5}], ["setref", -64]]),
    dict(kind="proc", ctor="stamps", n=30, t0=0.0, dt=1.0, steps=[1, 1, 1, 2], ops=[["modify", {"window_len": 5}], ["modify", {"taperfrac": 0.1}],
                                                                                   ["modify", {"filter": ["tp", [0.125, 1.0]]}]]),
    dict(kind="proc", ctor="float", n=30, t0=0.0, dt=1.0, ops=[["read"], ["modify", {"resample_arr": [0.125, 0.875, 12, "ndarray"]}], ["setstart"],
                                                               ["modify", {"resample": [0.5, "np32"], "twin": [0.0, 0.75, "ndarray"]}]]),
    dict(kind="proc", ctor="stamps", n=44, t0=0.0, dt=1.0, steps=[1, 1, 1.25, 2, 0.75],
         ops=[["reject", "filter_name"], ["reject", "twin_then_filter_name"], ["modify", {"filter": ["lp", 0.25]}], ["reject", "ref_str"],
              ["reject", "resample_out"], ["setstart"]]),
    dict(kind="procpair", ctor="float", n=20, t0=0.0, dt=1.0, refs=[0, 0],
         ops=[[0, ["modify", {"resample_arr": [0.0, 1.0, 12, "ndarray", "shared"]}]], [1, ["modify", {"resample_arr": [0.0, 1.0, 12, "ndarray", "shared"]}]],
              [0, ["setref", 16]], [1, ["read"]], [1, ["setstart"]]]),
    dict(kind="procpair", ctor="stamps", n=20, t0=0.0, dt=0.5, refs=[0, 3600], steps=[1, 0.5, 1.5],
         ops=[[1, ["read"]], [1, ["modify", {"resample_arr": [0.125, 0.875, 5, "view", "shared"]}]],
              [0, ["modify", {"resample_arr": [0.125, 0.875, 5, "list", "shared"]}]], [1, ["setstart"]], [0, ["setref", -64]]]),
]


# ------------------------------------------------------------------------------------------------------------------------------
# one history
# ------------------------------------------------------------------------------------------------------------------------------
def norm_ops(case):
    if case.get("kind") == "procpair":
        return [(int(i), op) for i, op in case["ops"]]
    return [(0, op) for op in case["ops"]]


def play_inner(case, progress):
    fails = []
    ctx = Ctx()
    lazy = bool(case.get("lazy"))
    try:
        cur = build_all(case, ctx)
    except Exception as e:
        return [("the series can be constructed", "series", type(e).__name__ + ": " + str(e))]
    for i, ts in enumerate(cur):
        fails += clauses(ts, "s%d after construction" % i, look=not lazy)
        if case["ctor"] in ("stamps", "stamps64") and not lazy:
            stamps = [REF0 + timedelta(seconds=float(v)) for v in times(case)]
            if far(list(ts.dtg_time), stamps):
                fails.append(("built from date-time stamps: dtg_time shows the stamps it was constructed from", brief(stamps), brief(ts.dtg_time)))
    left = []
    regridded = set()       # series that were put on a regular grid by an earlier processing step
    for k, (i, op) in enumerate(norm_ops(case)):
        if i >= len(cur) or len(cur[i].t) < 4:
            continue
        ts = cur[i]
        where = "after operation %d %s%s" % (k + 1, "" if len(cur) == 1 else "on s%d " % i, op)
        progress.append(where)
        others = [("s%d" % j, o) for j, o in enumerate(cur) if j != i] + left
        before = [(o.dtg_ref, np.array(o.t, dtype=float, copy=True)) for _, o in others]
        pre_ref, pre_t = ts.dtg_ref, np.array(ts.t, dtype=float, copy=True)
        pre_abs = instants(ts)
        mask = keep_mask(ts, op)
        uniform = not case.get("steps") or i in regridded
        err = None
        try:
            with warnings.catch_warnings():
                warnings.simplefilter("ignore")
                with np.errstate(all="ignore"):
                    new = apply(ts, op, ctx)
        except Exception as e:
            err, new = e, ts
        if err is not None:
            if op[0] not in ("reject", "modify"):
                fails.append(("operation %d %s succeeds" % (k + 1, op), "no exception", type(err).__name__ + ": " + str(err)))
                break
            # a call that raised: the same object is used again, its instants are what they were
            if ts.dtg_ref != pre_ref or not np.array_equal(np.asarray(ts.t, dtype=float), pre_t):
                fails.append(("a call that raised (%s) leaves reference and relative times -- the instant of every sample -- untouched (%s)"
                              % (type(err).__name__, where), [str(pre_ref), brief(pre_t)], [str(ts.dtg_ref), brief(ts.t)]))
        else:
            if op[0] == "reject" and op[1] in REF_REJECTS:
                fails.append(("an invalid reference (not a datetime) is rejected (%s)" % where, "ValueError", "accepted"))
            if op[0] == "copy":
                left.append(("s%d before operation %d" % (i, k + 1), ts))
                others.append(left[-1])
                before.append((pre_ref, pre_t))
            cur[i] = ts = new
            post_abs = instants(ts)
            if op[0] in ("setref", "setstart", "copy", "read"):
                if far(pre_abs, post_abs):
                    fails.append(("reference + relative time of every sample is the same before and after %s (%s)" % (
                        {"copy": "copying", "read": "reading dtg_time"}.get(op[0], "re-referencing"), where), brief(pre_abs), brief(post_abs)))
                if op[0] == "setref" and ts.dtg_ref != REF0 + timedelta(seconds=op[1]):
                    fails.append(("after set_dtg_ref(x) the reference is x (%s)" % where, str(REF0 + timedelta(seconds=op[1])), str(ts.dtg_ref)))
                if op[0] == "setstart" and (float(ts.t[0]) != 0.0 or abs((ts.dtg_ref - pre_abs[0]).total_seconds()) > TOL):
                    fails.append(("re-referencing to the series start: first relative time 0, reference = old start instant (%s)" % where,
                                  [0.0, str(pre_abs[0])], [float(ts.t[0]), str(ts.dtg_ref)]))
            elif mask is not None and not regrids(op, uniform):
                # processing that only drops samples / changes values: the retained samples keep their instants
                want = [a for a, m in zip(pre_abs, mask) if m]
                if ts.dtg_ref != pre_ref or far(want, post_abs):
                    fails.append(("a time window / filter on a regular grid / smoothing / tapering keeps the instants of the retained samples (%s)"
                                  % where, brief(want), brief(post_abs)))
            if regrids(op, uniform):
                regridded.add(i)
        if not lazy or op[0] == "read":
            fails += clauses(ts, where)
        else:
            fails += clauses(ts, where, look=False)
        for (label, o), b in zip(others, before):
            if o.dtg_ref != b[0] or not np.array_equal(np.asarray(o.t, dtype=float), b[1]):
                fails.append(("reference + relative time of every sample of a series is the same before and after an operation on ANOTHER "
                              "series (built from the same time array / processed with the same caller's array / its copy) (%s)" % where,
                              dict(series=label, ref=str(b[0]), t=brief(b[1])), dict(series=label, ref=str(o.dtg_ref), t=brief(o.t))))
            elif not lazy:
                fails += clauses(o, "%s, %s" % (label, where))
        for label, was, arr in ctx.changed():
            fails.append(("%s is the caller's: no later operation on a series changes it (%s)" % (label, where), brief(was), brief(arr)))
        if fails:
            break
    if not fails:
        for i, ts in enumerate(cur):
            fails += clauses(ts, "s%d at the end of the history" % i)
            if not fails and ts.dtg_ref is not None:
                # what the user reads now survives copying and re-referencing (the clauses of the property, once more at the end)
                try:
                    shown = list(ts.dtg_time)
                    c = ts.copy()
                    if far(shown, list(c.dtg_time)):
                        fails.append(("the instants shown by dtg_time are the same before and after copying (s%d at the end of the history)" % i,
                                      brief(shown), brief(c.dtg_time)))
                    c.set_dtg_ref(c.dtg_ref - timedelta(hours=1))
                    if far(shown, list(c.dtg_time)):
                        fails.append(("the instants shown by dtg_time are the same before and after re-referencing (s%d at the end of the history)" % i,
                                      brief(shown), brief(c.dtg_time)))
                    if len(ts.t):
                        ts.set_dtg_ref()
                        if far(shown, list(ts.dtg_time)):
                            fails.append(("the instants shown by dtg_time are the same before and after re-referencing to the start (s%d at the end "
                                          "of the history)" % i, brief(shown), brief(ts.dtg_time)))
                except Exception as e:
                    fails.append(("copying and re-referencing succeed at the end of the history (s%d)" % i, "no exception",
                                  type(e).__name__ + ": " + str(e)))
    return fails


def play(case, limit=TIME_LIMIT):
    """the history in a worker thread: a call that does not return is a failing clause, never a hanging check"""
    box, progress = {}, []

    def work():
        try:
            box["fails"] = play_inner(case, progress)
        except BaseException as e:            # harness-side surprise: reported, never a crash
            box["fails"] = [("the history can be evaluated (%s)" % (progress[-1] if progress else "construction"), "clauses evaluated",
                             type(e).__name__ + ": " + str(e))]

    th = threading.Thread(target=work, daemon=True)
    th.start()
    th.join(limit)
    if th.is_alive():
        return [("every call of the history returns (time limit %g s; %s)" % (limit, progress[-1] if progress else "construction"),
                 "returns", "still running")]
    return box["fails"]


# ------------------------------------------------------------------------------------------------------------------------------
# correspondence with the Lean model (Qats.Dtg.runX)
# ------------------------------------------------------------------------------------------------------------------------------
def secs(d):
    """datetime -> exact seconds since EPOCH (microsecond resolution)"""
    td = d - EPOCH
    return Fraction(td.days * 86400 + td.seconds) + Fraction(td.microseconds, 10 ** 6)


def observed_state(ts):
    ref = None if ts.dtg_ref is None else core.rat(secs(ts.dtg_ref))
    cache = getattr(ts, "_dtg_time", None)
    c = "-" if cache is None else ",".join(core.rat(secs(v)) for v in cache)
    t = ",".join(core.rat(Fraction(float(v))) for v in ts.t)
    st = "-" if ref is None or len(ts.t) == 0 else core.rat(secs(ts.dtg_start))
    en = "-" if ref is None or len(ts.t) == 0 else core.rat(secs(ts.dtg_end))
    return ";".join([ref if ref is not None else "-", t, c, st, en])


def model_case(case):
    """-> (model line, list of observed states) for the part of the history the Lean model covers: up to the first operation that
    puts the series on a new grid (resampling; filtering an irregularly sampled series).  Processing that keeps the grid (window,
    filter on a regular grid, smoothing, tapering) is the model's `keep:<mask>`; a call that raised is no operation."""
    if case.get("kind") != "proc":
        return None
    ctx = Ctx()
    ts = build(case)
    if case["ctor"] != "float":
        first = [core.rat(secs(v)) for v in ts.dtg_time]
        head = "dtg.runx S - %s |" % " ".join(first)
    else:
        head = "dtg.runx F %s %s |" % (core.rat(secs(REF0)), " ".join(core.rat(Fraction(float(v))) for v in ts.t))
    obs, toks = [observed_state(ts)], []
    uniform = not case.get("steps")
    for op in case["ops"]:
        if len(ts.t) < 4 or regrids(op, uniform):
            break
        tok = None
        if op[0] in ("window", "modify"):
            tok = "keep:" + "".join("1" if m else "0" for m in keep_mask(ts, op))
        elif op[0] == "read":
            tok = "read"
        elif op[0] == "setref":
            tok = "set:" + core.rat(secs(REF0 + timedelta(seconds=op[1])))
        elif op[0] == "setstart":
            tok = "set:-"
        elif op[0] == "copy":
            tok = "copy"
        try:
            with warnings.catch_warnings():
                warnings.simplefilter("ignore")
                with np.errstate(all="ignore"):
                    ts = apply(ts, op, ctx)
        except Exception as e:
            if op[0] in ("reject", "modify"):
                continue                # a rejected call: no operation for the model; the next state shows what it left behind
            obs.append("exception " + type(e).__name__)
            toks.append(tok)
            break
        if tok is None:                 # a "rejected" kind that the entry point served after all: outside the model
            break
        toks.append(tok)
        obs.append(observed_state(ts))
    return head + " " + " ".join(toks), obs


def run_proc(chk, drv=None):
    rng = chk.rng
    cases = [c for c in core.load_corpus("C18") if c.get("kind") in ("proc", "procpair")] + [dict(c) for c in FIXED]
    for _ in range(60 if chk.quick else 1500):
        cases.append(gen_case(rng, rich=False))
    for _ in range(260 if chk.quick else 6000):
        cases.append(gen_case(rng))
    for _ in range(120 if chk.quick else 3000):
        cases.append(gen_pair(rng))
    for case in cases:
        stream = "proc.pair" if case["kind"] == "procpair" else "proc.history"
        chk.count(stream)
        ops = [op for _, op in norm_ops(case)]
        chk.dist("%s:%s%s" % (case["kind"], case["ctor"], ":irregular" if case.get("steps") else ""))
        for op in ops:
            if op[0] == "modify":
                chk.dist("proc.modify:" + "+".join(sorted(k for k in op[1] if k not in ("filter_as", "window"))))
            elif op[0] == "reject":
                chk.dist("proc.reject:" + op[1])
        fails = play(case)
        for oracle, exp, obs in fails:
            chk.fail(oracle, case, exp, obs, clause="proc")
        if any(op[0] in ("window", "resample", "modify") for op in ops) and any(op[0] == "read" for op in ops):
            chk.nontriv((case["kind"], case["ctor"], case["n"], str(case.get("steps")), str(case["ops"])))
    chk.sample(dict(stream="proc.history", input=cases[0]))
    chk.sample(dict(stream="proc.history", input=FIXED[4]))
    # correspondence with the Lean model extended by in-place processing (Qats.Dtg.runX; theorems cache_consistent_processing,
    # processing_keeps_retained_instants): state (reference, relative times, cache, start, end) after every operation
    if drv is not None:
        lines, obs, owner = [], [], []
        for case in cases:
            try:
                mc = model_case(case)
            except Exception:
                mc = None           # construction / reading failures are reported by the clauses above
            if mc is not None and len(mc[1]) > 1:
                lines.append(mc[0])
                obs.append(mc[1])
                owner.append(case)
        outs = drv.run(lines)
        for case, o, ob in zip(owner, outs, obs):
            chk.count("dtg.runx")
            mod = o.split()[1:] if o.startswith("ok") else [o]
            if mod[:len(ob)] != ob:
                k = next((i for i, (a, b) in enumerate(zip(mod, ob)) if a != b), min(len(mod), len(ob)))
                chk.disagree("dtg.runx", dict(case, first_difference_at_state=k), mod[k:k + 1], ob[k:k + 1])


def replay_proc(rp):
    fails = play(rp["input"])
    for oracle, exp, obs in fails:
        print("FAILS:", oracle, "| expected", exp, "| observed", obs)
    print("replay: %d failing clause(s)" % len(fails))
    return 1 if fails else 0
