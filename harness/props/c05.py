"""
C05 — an S-N curve is a continuous, decreasing, invertible capacity law.

Tie: (a) the branch formulas are regenerated from qats/fatigue/sn.py by the translator and the theorems re-proved;
(b) Float correspondence of SNCurve.n / fatigue_strength / thickness_correction / loga2 / a2 / sswitch with the model
(generated formulas + hand-written branch skeleton) on seeded parameters, including stresses next to the transition.
Search: the property's clauses on the implementation alone.
"""
import math

import numpy as np

from .. import core
from ..core import fbits, unfbits

USES_TRANSLATOR = True
ANCHOR_PREFIX = ("sn_",)
RULE = ("seeded S-N curves (single / bilinear, with / without thickness parameters, built from a1 or loga1 or a dict) x stress "
        "ranges log-uniform in [0.5, 2000] plus points at sswitch/tcorr*(1±2^-k) x thickness None / <= t_ref / > t_ref; "
        "non-trivial = bilinear curve or thickness above reference; distinct by (curve, s, t)")
REL = 1e-9


def close(a, b, rel=REL):
    if a is None or b is None:
        return a is b
    if isinstance(a, str) or isinstance(b, str):
        return a == b
    if math.isnan(a) or math.isnan(b):
        return math.isnan(a) and math.isnan(b)
    if math.isinf(a) or math.isinf(b):
        return a == b
    return abs(a - b) <= rel * max(abs(a), abs(b)) + 1e-300


def gen_curve(rng):
    m1 = rng.choice([3.0, 3.5, 4.0, 5.0, round(rng.uniform(2.0, 6.0), 3)])
    loga1 = rng.choice([12.164, 11.764, 15.117, 12.592, round(rng.uniform(10.0, 17.0), 4)])
    bil = rng.random() < 0.7
    m2 = rng.choice([5.0, m1 + 2.0, round(rng.uniform(1.0, 8.0), 3)]) if bil else None
    nsw = rng.choice([1e7, 1e6, 5e6, 2e6, 10 ** rng.uniform(5, 8)]) if bil else None
    thick = rng.random() < 0.7
    te = rng.choice([0.0, 0.1, 0.15, 0.2, 0.25, 0.3, round(rng.uniform(0, 0.5), 3)]) if thick else None
    tr = rng.choice([25.0, 32.0, 16.0, 22.0]) if thick else None
    return dict(m1=m1, loga1=loga1, m2=m2, nswitch=nsw, t_exp=te, t_ref=tr, ctor=rng.choice(["loga1", "a1", "dict"]))


def build(c):
    from qats.fatigue.sn import SNCurve
    kw = dict(m1=c["m1"])
    if c["ctor"] == "a1":
        kw["a1"] = 10 ** c["loga1"]
    else:
        kw["loga1"] = c["loga1"]
    if c["m2"] is not None:
        kw.update(m2=c["m2"], nswitch=c["nswitch"])
    if c["t_exp"] is not None:
        kw.update(t_exp=c["t_exp"], t_ref=c["t_ref"])
    return SNCurve("x", **kw), kw


def curve_tokens(c, sn):
    o = lambda v: "-" if v is None else fbits(v)
    # the model receives loga1 as the implementation stores it (a1 constructor: log10(a1))
    return " ".join([fbits(c["m1"]), fbits(float(sn.loga1)), o(c["m2"]), o(c["nswitch"]), o(c["t_exp"]), o(c["t_ref"])])


def val(o):
    if o.startswith("ok"):
        t = o.split()
        return unfbits(t[1]) if len(t) > 1 and t[1] != "-" else None
    return o


def run(chk):
    chk.extra["rule"] = RULE
    chk.assumptions += ["float correspondence tolerance 1e-9 relative (libm pow/log10 differences are a few ulp)",
                        "the theorems are over the reals; float rounding is not covered by them"]
    rng = chk.rng
    drv = core.Driver()
    ncurves = 120 if chk.quick else 1500
    lines, meta = [], []
    curves = []
    for c in core.load_corpus("C05"):
        curves.append(dict(c["curve"], _s=c.get("s"), _t=c.get("t")))
    curves += [gen_curve(rng) for _ in range(ncurves)]
    for c in curves:
        sn, kw = build(c)
        ct = curve_tokens(c, sn)
        ts = [None]
        if c["t_ref"] is not None:
            ts += [c["t_ref"], c["t_ref"] * rng.uniform(0.2, 1.0), c["t_ref"] * rng.uniform(1.0, 6.0), 100.0]
        if c.get("_t") is not None:
            ts.append(c["_t"])
        else:
            # thickness given but curve has no thickness parameters: both sides must refuse
            if c["t_ref"] is None:
                ts.append(30.0)
        lines.append("sn.derived " + ct)
        meta.append(("derived", c, sn, None, None))
        for t in ts:
            tc = 1.0
            if t is not None and c["t_ref"] is not None:
                tc = (max(t, c["t_ref"]) / c["t_ref"]) ** c["t_exp"]
            ss = [10 ** rng.uniform(-0.3, 3.3) for _ in range(4)]
            if c.get("_s") is not None:
                ss.append(c["_s"])
            if c["m2"] is not None:
                sw = float(sn.sswitch)
                for k in (52, 40, 20, 8):
                    ss += [sw / tc * (1 - 2.0 ** -k), sw / tc * (1 + 2.0 ** -k), sw * (1 - 2.0 ** -k), sw * (1 + 2.0 ** -k)]
                ss += [sw, sw / tc, 0.5 * (sw + sw / tc)]
            for s in ss:
                lines.append("sn.n %s %s %s" % (ct, fbits(s), "-" if t is None else fbits(t)))
                meta.append(("n", c, sn, s, t))
            for n in [10 ** rng.uniform(3, 10) for _ in range(3)] + ([c["nswitch"], c["nswitch"] * (1 + 2 ** -30),
                                                                      c["nswitch"] * (1 - 2 ** -30)] if c["m2"] else []):
                lines.append("sn.strength %s %s %s" % (ct, fbits(n), "-" if t is None else fbits(t)))
                meta.append(("strength", c, sn, n, t))
            if t is not None and c["t_ref"] is not None:
                lines.append("sn.tcorr %s %s %s" % (fbits(c["t_exp"]), fbits(c["t_ref"]), fbits(t)))
                meta.append(("tcorr", c, sn, None, t))
    outs = drv.run(lines)
    pub = lambda c: {k: v for k, v in c.items() if not k.startswith("_")}
    for (kind, c, sn, v, t), o in zip(meta, outs):
        chk.count("sn." + kind)
        inp = dict(curve=pub(c), t=t)
        if c["m2"] is not None or (t is not None and c["t_ref"] is not None and t > c["t_ref"]):
            chk.nontriv((kind, tuple(sorted(pub(c).items(), key=str)), v, t))
        if kind == "derived":
            if c["m2"] is None:
                if not (sn.a2 is None and sn.loga2 is None and sn.sswitch is None and o.strip() == "ok -"):
                    chk.disagree("sn.derived", inp, o, str((sn.loga2, sn.a2, sn.sswitch)))
            else:
                m = [unfbits(x) for x in o.split()[1:]]
                im = [float(sn.loga2), float(sn.a2), float(sn.sswitch)]
                if not all(close(a, b) for a, b in zip(m, im)):
                    chk.disagree("sn.derived", inp, m, im)
                # clause: a2 and loga2 consistent; sswitch is where n == nswitch
                if not close(10 ** im[0], im[1]):
                    chk.fail("a2 == 10**loga2", inp, 10 ** im[0], im[1])
            continue
        if kind == "tcorr":
            im = float(sn.thickness_correction(t))
            if not close(val(o), im):
                chk.disagree("sn.tcorr", inp, val(o), im)
            exp = 1.0 if t <= c["t_ref"] else (t / c["t_ref"]) ** c["t_exp"]
            if not close(im, exp, 1e-12):
                chk.fail("thickness factor is 1 at or below t_ref and (t/t_ref)^k above", inp, exp, im)
            continue
        try:
            im = float(sn.n(v, t=t)) if kind == "n" else float(sn.fatigue_strength(v, t=t))
        except ValueError:
            im = "err value"
        inp["s" if kind == "n" else "n"] = v
        if not close(val(o), im):
            chk.disagree("sn." + kind, inp, val(o), im)
        chk.dist("%s:%s:%s" % (kind, "bilinear" if c["m2"] else "single",
                               "t=None" if t is None else ("no-thick-params" if c["t_ref"] is None else
                                                           ("t<=ref" if t <= c["t_ref"] else "t>ref"))))
        if isinstance(im, str):
            continue
        if len(chk.samples) < 5 and c["m2"] and t and c["t_ref"] and t > c["t_ref"]:
            chk.sample(dict(inp, model=val(o), impl=im))
        # ---- oracles on the implementation ----------------------------------------------------------------
        if kind == "n":
            s = v
            back = float(sn.fatigue_strength(im, t=t))
            if not close(back, s, 1e-8):
                chk.fail("fatigue_strength(n(s,t),t) == s", inp, s, back)
            arr = sn.n(np.array([s, s * 1.5]), t=t)
            if not close(float(arr[0]), im, 1e-14):
                chk.fail("array and scalar evaluation agree", inp, im, float(arr[0]))
            if t is not None and c["t_ref"] is not None:
                f = 1.0 if t <= c["t_ref"] else (t / c["t_ref"]) ** c["t_exp"]
                ref = float(sn.n(s * f))
                if not close(ref, im, 1e-9):
                    chk.fail("thickness acts like multiplying the stress range by (t/t_ref)^k (1 at or below t_ref)", inp, ref, im)
            # continuity / monotonicity: compare with a neighbour 1e-9 away
            d = 1e-9
            hi = float(sn.n(s * (1 + d), t=t))
            if not (hi < im):
                chk.fail("n strictly decreasing in s", dict(inp, s2=s * (1 + d)), "< %r" % im, hi)
            mmax = max(c["m1"], c["m2"] or 0.0)
            if abs(hi - im) > im * (mmax * d * 1.5 + 1e-12):
                chk.fail("n continuous in s (no jump between s and s(1+1e-9))", dict(inp, s2=s * (1 + d)), im, hi)
        else:
            n = v
            back = float(sn.n(im, t=t))
            if not close(back, n, 1e-8):
                chk.fail("n(fatigue_strength(N,t),t) == N", inp, n, back)
    # ---- input types and caller data: integer stresses, float arrays passed twice ----------------------------------------------
    for c in curves[:60 if chk.quick else 600]:
        sn, _ = build(c)
        t = None if c["t_ref"] is None else 2.0 * c["t_ref"]
        inp = dict(curve=pub(c), t=t, kind="types")
        chk.count("sn.types")
        ints = [3, 30, 300, 3000]
        try:
            a_int = np.asarray(sn.n(np.array(ints), t=t), dtype=float)
            a_flt = np.asarray(sn.n(np.array(ints, dtype=float), t=t), dtype=float)
            s_int = [float(sn.n(v, t=t)) for v in ints]
        except Exception as e:
            chk.fail("n accepts integer stress ranges like float ones", inp, "values", type(e).__name__)
            continue
        if not (np.allclose(a_int, a_flt, rtol=1e-13) and np.allclose(s_int, a_flt, rtol=1e-13)):
            chk.fail("scalar, array, integer and float evaluation of n agree", dict(inp, s=ints), a_flt.tolist(), [a_int.tolist(), s_int])
        arr = np.array([12.5, 45.0, 120.0, 800.0])
        a0 = arr.copy()
        r1 = np.array(sn.n(arr, t=t), dtype=float)
        r2 = np.array(sn.n(arr, t=t), dtype=float)
        if not (np.array_equal(arr, a0) and np.array_equal(r1, r2)):
            chk.fail("evaluating n does not modify the caller's stress array (a second call gives the same answer)", dict(inp, s=a0.tolist()),
                     r1.tolist(), r2.tolist())
    # ---- slope change exactly at nswitch ------------------------------------------------------------------------
    for c in curves:
        if c["m2"] is None:
            continue
        sn, _ = build(c)
        inp = dict(curve=pub(c))
        sw = float(sn.sswitch)
        chk.count("sn.switch")
        if not close(float(sn.n(sw)), c["nswitch"], 1e-9):
            chk.fail("n(sswitch) == nswitch", inp, c["nswitch"], float(sn.n(sw)))
        for s, m in ((sw * 1.01, c["m1"]), (sw * 0.99, c["m2"])):
            slope = (math.log(float(sn.n(s * 1.0001))) - math.log(float(sn.n(s)))) / math.log(1.0001)
            if abs(slope + m) > 1e-5 * m:
                chk.fail("log-log slope is -m1 above and -m2 below the transition stress", dict(inp, s=s), -m, slope)


def replay(rp):
    inp = rp["input"]
    sn, _ = build(inp["curve"])
    t = inp.get("t")
    bad = 0
    if "s" in inp:
        s = inp["s"]
        n = float(sn.n(s, t=t))
        back = float(sn.fatigue_strength(n, t=t))
        print("n(s,t) =", n, " fatigue_strength(n,t) =", back, " s =", s)
        if not close(back, s, 1e-8):
            print("FAILS: inverse")
            bad += 1
        hi = float(sn.n(s * (1 + 1e-9), t=t))
        mmax = max(inp["curve"]["m1"], inp["curve"]["m2"] or 0.0)
        if not hi < n or abs(hi - n) > n * (mmax * 1.5e-9 + 1e-12):
            print("FAILS: continuity / monotonicity", n, hi)
            bad += 1
        if t is not None and inp["curve"]["t_ref"] is not None:
            f = 1.0 if t <= inp["curve"]["t_ref"] else (t / inp["curve"]["t_ref"]) ** inp["curve"]["t_exp"]
            if not close(float(sn.n(s * f)), n):
                print("FAILS: thickness scaling")
                bad += 1
    print("replay: %d failing clause(s)" % bad)
    return 1 if bad else 0
