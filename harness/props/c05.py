"""
C05 — an S-N curve is a continuous, decreasing, invertible capacity law.

Tie: (a) the branch formulas are regenerated from qats/fatigue/sn.py by the translator and the theorems re-proved;
(b) Float correspondence of SNCurve.n / fatigue_strength / thickness_correction / loga2 / a2 / sswitch with the model
(generated formulas + hand-written branch skeleton, `Model/SN.lean`: Curve.n, Curve.nArray, Curve.strength, tcorr) on seeded
parameters, including stresses next to the transition.  The model receives the parameters as the HARNESS knows them
(`log10(a1)` is computed here, not read back from the object).
Search: the property's clauses on the implementation alone, in five streams:
  main     scalar float calls: inverse, monotone, continuous, thickness-as-scaling, slope by capacity, value returned;
  narray   `Curve.nArray` against `SNCurve.n(<ndarray / list / integer array>)`, knee values, empty, the error case;
  spell    the same stress ranges / thickness in every container and number type, positional or keyword;
  history  many calls on ONE curve object against a fresh object per call, caller data and earlier results untouched;
  ctor     the same parameters through every constructor spelling / number type define the same curve.
Over-defined curves (documented: "If S-N curve is overdefined (e.g. both loga1 and a1 are defined), the S-N curve is established
based on the parameter order listed", i.e. by a1): a curve may carry an explicit `a1` next to `loga1` -- the pair as printed in a
design-code table (a1 rounded to 3..5 significant digits, so 10**loga1 != a1), an unrelated loga1, or the exact power.  Such a curve
goes through every stream like any other; the harness (and the model) know it by log10(a1).
Every evaluation is wrapped: an exception raised by the implementation is a failing clause.
Audit round 8: stream `long` (c05_long.py) = the array clauses on 999 ... 131073 stress ranges (size-conditioned code paths).
"""
import math

import numpy as np

from .. import core
from ..core import fbits, unfbits

USES_TRANSLATOR = True
ANCHOR_PREFIX = ("sn_",)
RULE = ("seeded S-N curves (single / bilinear incl. m2 == m1 and m2 < m1, with / without thickness parameters, built from a1, loga1, "
        "both, all-keyword, explicit None options, positional m1; over-defined with a tabulated pair a1 / loga1 that agrees only to "
        "the printed digits, or with an unrelated loga1 (a1 decides); parameters as float / int / numpy scalars) x stress ranges "
        "log-uniform in [0.5, 2000], scaled by 2^±(30..200) while the capacity stays finite, points at sswitch/tcorr*(1±2^-k), "
        "integers around the knee x thickness None / <= t_ref / == t_ref(1±2^-52) / > t_ref / 1e-6 t_ref / 1e4 t_ref, as float, int, "
        "numpy scalar, 0-d array, positional or keyword; stress containers ndarray / list / tuple / view / reversed / 2-D / "
        "read-only / length 0, 1 / 0-d / int64 / int32 / uint16 / float32; histories of 14 calls on one object; stream `sn.long`: "
        "arrays of 999, 1000, 1001, 1023, 1024, 1025, 4095, 4096, 4097, 9999, 10000, 10001, 65535 ... 131073 stress ranges (sorted "
        "or random around the transition stress; exact tie / +-1 ulp / extremes / duplicates in the first and last elements, at "
        "multiples of 1000 / 1024 / 4096 / 10000 / 65536 and in pairs spanning them), every element against an independent "
        "capacity, special positions against the scalar evaluation, slices / permutation against the full result; "
        "non-trivial = bilinear curve or thickness above reference; distinct by (curve, s, t) or by the written-out case")
REL = 1e-9


def close(a, b, rel=REL):
    if a is None or b is None:
        return a is b
    if isinstance(a, str) or isinstance(b, str):
        return a == b
    if math.isnan(a) or math.isnan(b):
        return math.isnan(a) and math.isnan(b)
    if math.isinf(a) or math.isinf(b):
        return a == b
    return abs(a - b) <= rel * max(abs(a), abs(b)) + 1e-300


# ----------------------------------------------------------------------------------------------------------------------------
# spellings of one number / one list of numbers
# ----------------------------------------------------------------------------------------------------------------------------
NUMS = ("float", "int", "np", "npint")
CTORS = ("loga1", "a1", "dict", "both", "nones", "pos")


def sp(v, how):
    """the number v written as python float / python int / numpy float64 / numpy int64 / 0-d array (integers only if exact)"""
    if v is None:
        return None
    v = float(v)
    integral = v.is_integer() and abs(v) < 2.0 ** 53
    if how == "int":
        return int(v) if integral else v
    if how == "np":
        return np.float64(v)
    if how == "npint":
        return np.int64(int(v)) if integral else np.float64(v)
    if how == "arr0":
        return np.array(v)
    return v


ARRAY_CONTS = ("ndarray", "list", "tuple", "view", "rev", "2d", "2dF", "ro", "len1", "empty")
SCALAR_CONTS = ("float", "npfloat", "0d")
INT_ARRAY_CONTS = ("i64", "i32", "u16", "ilist", "ituple", "f32", "imixed")
INT_SCALAR_CONTS = ("int", "npint", "npi32")


def container(vals, kind):
    """(object handed to SNCurve.n, indices of `vals` in result order, expected shape)"""
    k = len(vals)
    a = np.array([float(v) for v in vals], dtype=float)
    idx = list(range(k))
    if kind == "ndarray":
        return a, idx, (k,)
    if kind == "list":
        return [float(v) for v in vals], idx, (k,)
    if kind == "tuple":
        return tuple(float(v) for v in vals), idx, (k,)
    if kind == "view":
        big = np.full(2 * k + 1, 7.0)
        big[1::2] = a
        return big[1::2], idx, (k,)
    if kind == "rev":
        return a[::-1], idx[::-1], (k,)
    if kind in ("2d", "2dF"):
        if k % 2:
            a, idx = a[:-1], idx[:-1]
        b = a.reshape(2, -1)
        return (np.asfortranarray(b) if kind == "2dF" else b), idx, b.shape
    if kind == "ro":
        a.setflags(write=False)
        return a, idx, (k,)
    if kind == "len1":
        return a[:1], idx[:1], (1,)
    if kind == "empty":
        return a[:0], [], (0,)
    if kind == "float":
        return float(vals[0]), [0], ()
    if kind == "npfloat":
        return np.float64(vals[0]), [0], ()
    if kind == "0d":
        return np.array(float(vals[0])), [0], ()
    # integer-valued
    iv = [int(v) for v in vals]
    if kind == "i64":
        return np.array(iv, dtype=np.int64), idx, (k,)
    if kind == "i32":
        return np.array(iv, dtype=np.int32), idx, (k,)
    if kind == "u16":
        return np.array(iv, dtype=np.uint16), idx, (k,)
    if kind == "f32":
        return np.array(iv, dtype=np.float32), idx, (k,)
    if kind == "ilist":
        return list(iv), idx, (k,)
    if kind == "ituple":
        return tuple(iv), idx, (k,)
    if kind == "imixed":
        return [iv[i] if i % 2 else float(iv[i]) for i in range(k)], idx, (k,)
    if kind == "int":
        return iv[0], [0], ()
    if kind == "npint":
        return np.int64(iv[0]), [0], ()
    if kind == "npi32":
        return np.int32(iv[0]), [0], ()
    raise KeyError(kind)


def snapshot(obj):
    if isinstance(obj, np.ndarray):
        base = obj.base if isinstance(obj.base, np.ndarray) else obj
        return ("nd", str(obj.dtype), obj.shape, obj.tolist(), base.tolist())
    if isinstance(obj, (list, tuple)):
        return (type(obj).__name__, [repr(v) for v in obj])
    return ("scalar", repr(obj))


# ----------------------------------------------------------------------------------------------------------------------------
# curves
# ----------------------------------------------------------------------------------------------------------------------------
def gen_curve(rng):
    m1 = rng.choice([3.0, 3.5, 4.0, 5.0, round(rng.uniform(2.0, 6.0), 3)])
    loga1 = rng.choice([12.164, 11.764, 15.117, 12.592, round(rng.uniform(10.0, 17.0), 4)])
    bil = rng.random() < 0.7
    m2 = rng.choice([5.0, m1 + 2.0, round(rng.uniform(1.0, 8.0), 3)]) if bil else None
    nsw = rng.choice([1e7, 1e6, 5e6, 2e6, 10 ** rng.uniform(5, 8)]) if bil else None
    thick = rng.random() < 0.7
    te = rng.choice([0.0, 0.1, 0.15, 0.2, 0.25, 0.3, round(rng.uniform(0, 0.5), 3)]) if thick else None
    tr = rng.choice([25.0, 32.0, 16.0, 22.0]) if thick else None
    ctor = rng.choice(["loga1", "a1", "dict"])
    # boundary parameters: integral log a1 (so that every parameter has an integer spelling), equal slopes, far transition
    # cycle numbers, exponent 1, a non-integral reference thickness
    if rng.random() < 0.2:
        loga1 = rng.choice([12.0, 13.0, 16.0, 11.0])
    if bil and rng.random() < 0.1:
        m2 = m1
    if bil and rng.random() < 0.15:
        nsw = rng.choice([1e3, 1e4, 1e10, 1e12, float(round(10 ** rng.uniform(3, 12)))])
    if thick and rng.random() < 0.1:
        te = rng.choice([1.0, 0.5, 0.0])
    if thick and rng.random() < 0.1:
        tr = rng.choice([12.5, 1.0, 150.0])
    if rng.random() < 0.5:
        ctor = rng.choice(CTORS)
    num = rng.choice(["float", "float", "float", "int", "np", "npint"])
    c = dict(m1=m1, loga1=loga1, m2=m2, nswitch=nsw, t_exp=te, t_ref=tr, ctor=ctor, num=num)
    # over-defined curve: a1 given next to loga1.  The pair of a design-code table (a1 printed with 3..5 significant digits), a
    # loga1 that has nothing to do with a1, or the exact power.  a1 decides (documented parameter order).
    if rng.random() < 0.3:
        r = rng.random()
        if r < 0.6:
            a1 = float("%.*e" % (rng.choice([2, 3, 3, 4]), 10 ** loga1))
        elif r < 0.8:
            a1 = 10 ** (loga1 + rng.uniform(-0.5, 0.5))
        elif r < 0.9:
            a1 = float(round(10 ** loga1))
        else:
            a1 = 10 ** loga1
        c["a1"] = a1
        if ctor == "loga1":
            c["ctor"] = rng.choice(["both", "both", "dict", "pos", "nones"])
    return c


def ref_ctor(c):
    """the plainest spelling of the curve: loga1 alone, or a1 alone when the curve carries an explicit a1"""
    return "a1" if c.get("a1") is not None else "loga1"


def build(c, ctor=None, num=None):
    from qats.fatigue.sn import SNCurve
    ctor = ctor or c.get("ctor", "loga1")
    how = num or c.get("num", "float")
    f = lambda v: sp(v, how)
    kw = dict(m1=f(c["m1"]))
    if c.get("a1") is not None:
        # explicit a1: given in every spelling; every spelling but "a1" also gives loga1 (over-defined, a1 decides)
        if ctor == "loga1":
            ctor = "both"
        kw["a1"] = f(c["a1"])
    elif ctor in ("a1", "both"):
        kw["a1"] = f(10 ** c["loga1"])
    if ctor != "a1":
        kw["loga1"] = f(c["loga1"])
    if c["m2"] is not None:
        kw.update(m2=f(c["m2"]), nswitch=f(c["nswitch"]))
    if c["t_exp"] is not None:
        kw.update(t_exp=f(c["t_exp"]), t_ref=f(c["t_ref"]))
    if ctor == "nones":
        # options that are given but say nothing: explicit None, and a transition cycle number on a single-slope curve
        if c["m2"] is None:
            kw.update(m2=None, nswitch=f(1e7))
        if c["t_exp"] is None:
            kw.update(t_exp=None, t_ref=None)
    if ctor in ("dict", "nones"):
        return SNCurve(**dict(kw, name="x")), kw
    if ctor == "pos":
        rest = {k: v for k, v in kw.items() if k != "m1"}
        return SNCurve("x", kw["m1"], **rest), kw
    return SNCurve("x", **kw), kw


def model_loga1(c):
    """log10(a1) as the harness computes it from what it hands to the constructor"""
    if c.get("a1") is not None:
        return math.log10(c["a1"])
    if c.get("ctor", "loga1") in ("a1", "both"):
        return math.log10(10 ** c["loga1"])
    return c["loga1"]


def curve_tokens(c, sn=None):
    o = lambda v: "-" if v is None else fbits(v)
    return " ".join([fbits(c["m1"]), fbits(model_loga1(c)), o(c["m2"]), o(c["nswitch"]), o(c["t_exp"]), o(c["t_ref"])])


def val(o):
    if o.startswith("ok"):
        t = o.split()
        return unfbits(t[1]) if len(t) > 1 and t[1] != "-" else None
    return o


def pub(c):
    return {k: v for k, v in c.items() if not k.startswith("_")}


def tfac(c, t):
    """the thickness factor the PROPERTY prescribes: 1 without thickness or at / below t_ref, (t/t_ref)^k above"""
    if t is None or c["t_ref"] is None:
        return 1.0
    return 1.0 if t <= c["t_ref"] else (t / c["t_ref"]) ** c["t_exp"]


def knee(c):
    """transition stress, harness side (only used to place inputs)"""
    if c["m2"] is None:
        return None
    return 10 ** ((model_loga1(c) - math.log10(c["nswitch"])) / c["m1"])


def finite_range(c, s):
    """is the capacity at s (times any factor in [1, 2^14]) well inside the float range on both branches? (input filter)"""
    la1 = model_loga1(c)
    xs = []
    for f in (1.0, 2.0 ** 14):
        xs.append(la1 - c["m1"] * math.log10(s * f))
        if c["m2"] is not None:
            la2 = c["m2"] / c["m1"] * la1 + (1 - c["m2"] / c["m1"]) * math.log10(c["nswitch"])
            xs.append(la2 - c["m2"] * math.log10(s * f))
    return max(abs(x) for x in xs) < 280


def valid_t(c, t):
    return t is None or c["t_ref"] is not None


def exc(e):
    return "%s: %s" % (type(e).__name__, str(e)[:120])


# ----------------------------------------------------------------------------------------------------------------------------
# stream "spell": one list of stress ranges, one thickness, one container, one thickness spelling, one call style
# ----------------------------------------------------------------------------------------------------------------------------
def call_n(sn, obj, t, tspell, call):
    if t is None:
        return sn.n(obj) if call == "pos" else sn.n(obj, t=None)
    ts = sp(t, tspell)
    return sn.n(obj, ts) if call == "pos" else sn.n(obj, t=ts)


def run_spell(case):
    """-> list of (oracle, expected, observed)"""
    c, vals, t = case["curve"], case["vals"], case.get("t")
    out = []
    try:
        ref_sn, _ = build(c)
    except Exception as e:
        return [("a valid S-N curve can be constructed", "an SNCurve", exc(e))]
    ref, ref_err = [], None
    for v in vals:
        try:
            ref.append(float(ref_sn.n(float(v), t=t)))
        except ValueError as e:
            if valid_t(c, t):
                return [("n returns a value for every valid curve, stress range and thickness", "a value", exc(e))]
            ref_err = e
            break
        except Exception as e:
            return [("n returns a value for every valid curve, stress range and thickness", "a value", exc(e))]
    sn, _ = build(c)
    obj, idx, shape = container(vals, case["cont"])
    snap = snapshot(obj)
    try:
        res = call_n(sn, obj, t, case.get("tspell", "float"), case.get("call", "kw"))
    except Exception as e:
        if ref_err is not None and isinstance(e, ValueError):
            return out
        return [("scalar and array evaluation agree: n(<%s>) evaluates like n(<float>) element by element" % case["cont"],
                 "values" if ref_err is None else "ValueError", exc(e))]
    if ref_err is not None:
        return [("an undefined thickness correction is refused in every spelling of the request (scalar or array, any number type)", "ValueError", repr(np.asarray(res).tolist()))]
    exp = [ref[i] for i in idx]
    got = np.asarray(res)
    rtol = 1e-3 if case["cont"] == "f32" else 1e-13
    ok = got.shape == tuple(shape) and got.dtype.kind == "f"
    if ok:
        g = got.astype(float).ravel().tolist()
        ok = all(close(a, b, rtol) for a, b in zip(exp, g))
    if not ok:
        out.append(("scalar and array evaluation agree: n(<%s>, thickness as %s, %s) equals the scalar float evaluation element by element "
                    "(same shape, float result)" % (case["cont"], case.get("tspell", "float"), case.get("call", "kw")),
                    exp, [str(got.dtype), list(got.shape), got.ravel().tolist()]))
    if snapshot(obj) != snap:
        out.append(("evaluating n does not modify the caller's stress ranges", snap[-1], snapshot(obj)[-1]))
    return out


def gen_spell(rng, c, quick):
    sw = knee(c)
    cases = []
    if c["t_ref"] is None:
        ts = [None, 30.0]
    else:
        tr = c["t_ref"]
        ts = [None, rng.choice([tr, tr * rng.uniform(0.2, 1.0), float(math.floor(tr))]),
              rng.choice([100.0, 4.0 * tr, tr * rng.uniform(1.0, 6.0), float(math.ceil(tr) + rng.randint(1, 80))])]
    for t in ts:
        tc = tfac(c, t)
        vals = [10 ** rng.uniform(-0.3, 3.3) for _ in range(3)]
        ints = [rng.randint(1, 3000) for _ in range(3)]
        if sw is not None:
            k0 = sw / tc
            vals += [k0, k0 * (1 - 2.0 ** -52), k0 * (1 + 2.0 ** -52), k0 * 0.7, k0 * 1.3, sw]
            ints += [max(1, math.floor(k0)), math.ceil(k0) + (1 if math.ceil(k0) == math.floor(k0) else 0), max(1, math.floor(k0) - 1),
                     max(1, round(k0))]
        rng.shuffle(vals)
        rng.shuffle(ints)
        ints = [min(i, 60000) for i in ints]
        tspells = ["float", "np", "arr0"] + (["int", "npint"] if t is not None and float(t).is_integer() else [])
        fl = list(ARRAY_CONTS) + list(SCALAR_CONTS)
        il = list(INT_ARRAY_CONTS) + list(INT_SCALAR_CONTS)
        if quick:
            fl = rng.sample(fl, 6)
            il = rng.sample(il, 5)
        for cont in fl:
            cases.append(dict(curve=pub(c), kind="spell", vals=vals, cont=cont, t=t, tspell=rng.choice(tspells),
                              call=rng.choice(["kw", "pos"])))
        for cont in il:
            cases.append(dict(curve=pub(c), kind="spell", vals=[float(i) for i in ints], cont=cont, t=t, tspell=rng.choice(tspells),
                              call=rng.choice(["kw", "pos"])))
    return cases


# ----------------------------------------------------------------------------------------------------------------------------
# stream "history": many calls on one object, each compared with the same call on a fresh object
# ----------------------------------------------------------------------------------------------------------------------------
def do_op(sn, op):
    """-> (tag, value, caller_object, snapshot_before)"""
    t = op.get("t")
    ts = sp(t, op.get("tspell", "float"))
    kind = op["op"]
    if kind == "n":
        obj, idx, shape = container(op["vals"], op["cont"])
        snap = snapshot(obj)
        r = call_n(sn, obj, t, op.get("tspell", "float"), op.get("call", "kw"))
        return np.array(r, dtype=float), obj, snap
    if kind == "strength":
        v = sp(op["n"], op.get("nspell", "float"))
        r = sn.fatigue_strength(v, ts) if op.get("call") == "pos" else sn.fatigue_strength(v, t=ts)
        return np.array(r, dtype=float), None, None
    if kind == "tcorr":
        return np.array(sn.thickness_correction(ts), dtype=float), None, None
    raise KeyError(kind)


def run_history(case):
    c, ops = case["curve"], case["ops"]
    out = []
    try:
        sn, _ = build(c)
    except Exception as e:
        return [("a valid S-N curve can be constructed", "an SNCurve", exc(e))]
    kept = []
    for i, op in enumerate(ops):
        fresh, _ = build(c)
        try:
            want = do_op(fresh, op)[0]
            want_tag = "value"
        except Exception as e:
            want, want_tag = None, type(e).__name__
        try:
            got, obj, snap = do_op(sn, op)
            got_tag = "value"
        except Exception as e:
            got, obj, snap, got_tag = None, None, None, type(e).__name__
        expect_value = op["op"] == "tcorr" and c["t_ref"] is not None or op["op"] != "tcorr" and valid_t(c, op.get("t"))
        if expect_value and got_tag != "value":
            out.append(("step %d (%s): a valid request returns a value, also after other requests on the same curve object" % (i, op["op"]),
                        "a value", got_tag))
        elif want_tag != got_tag or (got is not None and not (want.shape == got.shape and np.array_equal(want, got))):
            out.append(("step %d (%s): a curve object answers like a freshly built curve whatever was asked before (n, fatigue_strength, "
                        "thickness_correction depend on their arguments and the curve parameters only)" % (i, op["op"]),
                        want_tag if want is None else want.tolist(), got_tag if got is None else got.tolist()))
        if obj is not None and snapshot(obj) != snap:
            out.append(("step %d: evaluating n does not modify the caller's stress ranges" % i, snap[-1], snapshot(obj)[-1]))
        if got is not None and op["op"] == "n":
            # the object RETURNED to the caller (not a copy) is kept and looked at again after the later steps
            try:
                r = call_n(sn, container(op["vals"], op["cont"])[0], op.get("t"), op.get("tspell", "float"), op.get("call", "kw"))
                if isinstance(r, np.ndarray):
                    kept.append((i, r, r.copy()))
            except Exception:
                pass
    for i, r, r0 in kept:
        if not np.array_equal(r, r0):
            out.append(("the array returned at step %d is not changed by later evaluations" % i, r0.tolist(), r.tolist()))
    return out


def shrink_history(case, res):
    """drop steps one at a time as long as some clause still fails (shorter failing input for the report)"""
    ops = list(case["ops"])
    changed = True
    while changed and len(ops) > 1:
        changed = False
        for i in range(len(ops) - 1, -1, -1):
            trial = dict(case, ops=ops[:i] + ops[i + 1:])
            try:
                r = run_history(trial)
            except Exception:
                r = []
            if r:
                ops, res, changed = trial["ops"], r, True
                break
    return dict(case, ops=ops), res


def gen_history(rng, c, nops):
    sw = knee(c)
    tr = c["t_ref"]
    if tr is None:
        tpool = [None, None, None, 30.0, 25.0]
    else:
        tpool = [None, tr, tr * 0.5, 100.0, 4.0 * tr, float(math.ceil(tr) + rng.randint(1, 80)), tr * rng.uniform(1.0, 6.0),
                 tr * (1 + 2.0 ** -52)]
    ops = []
    for _ in range(nops):
        t = rng.choice(tpool)
        tsp = rng.choice(["float", "np", "arr0"] + (["int", "npint"] if t is not None and float(t).is_integer() else []))
        call = rng.choice(["kw", "pos"])
        r = rng.random()
        tc = tfac(c, t)
        if r < 0.55:
            if rng.random() < 0.6:
                vals = [10 ** rng.uniform(-0.3, 3.3) for _ in range(rng.randint(1, 5))]
                if sw is not None:
                    vals += [sw / tc, sw / tc * (1 - 2.0 ** -40), sw / tc * 1.2, sw]
                rng.shuffle(vals)
                cont = rng.choice(ARRAY_CONTS + SCALAR_CONTS)
            else:
                vals = [float(rng.randint(1, 3000)) for _ in range(rng.randint(1, 5))]
                if sw is not None:
                    vals += [float(min(60000, max(1, math.floor(sw / tc)))), float(min(60000, math.ceil(sw / tc) + 1))]
                rng.shuffle(vals)
                cont = rng.choice(INT_ARRAY_CONTS + INT_SCALAR_CONTS)
            ops.append(dict(op="n", vals=vals, cont=cont, t=t, tspell=tsp, call=call))
        elif r < 0.85:
            n = rng.choice([10 ** rng.uniform(3, 10), float(rng.randint(1000, 10 ** 9))] +
                           ([c["nswitch"], c["nswitch"] * (1 + 2.0 ** -30), c["nswitch"] * (1 - 2.0 ** -30)] if sw is not None else []))
            ops.append(dict(op="strength", n=n, nspell=rng.choice(["float", "np", "arr0", "int", "npint"]), t=t, tspell=tsp, call=call))
        else:
            if t is None:
                t, tsp = (30.0 if tr is None else tr * 2.0), "float"
            ops.append(dict(op="tcorr", t=t, tspell=tsp))
    return dict(curve=pub(c), kind="history", ops=ops)


# ----------------------------------------------------------------------------------------------------------------------------
# stream "ctor": the same parameters through another constructor spelling / number type
# ----------------------------------------------------------------------------------------------------------------------------
def run_ctor(case):
    c = case["curve"]
    out = []
    try:
        ref, _ = build(c, ctor=ref_ctor(c), num="float")
        sn, _ = build(c, ctor=case["ctor2"], num=case["num2"])
    except Exception as e:
        return [("a valid S-N curve can be constructed from a1 or loga1, with parameters as float / int / numpy scalars "
                 "(constructor spelling %s, numbers as %s)" % (case["ctor2"], case["num2"]), "an SNCurve", exc(e))]
    tol = 1e-11
    try:
        if not close(float(sn.a1), 10 ** float(sn.loga1), 1e-12):
            out.append(("a1 == 10**loga1", 10 ** float(sn.loga1), float(sn.a1)))
        for nm in ("a1", "loga1", "a2", "loga2", "sswitch", "nswitch", "m1", "m2", "t_exp", "t_ref"):
            a, b = getattr(ref, nm), getattr(sn, nm)
            if (a is None) != (b is None) or (a is not None and not close(float(a), float(b), tol)):
                out.append(("the same parameters (constructor spelling %s, numbers as %s) define the same curve: attribute %s"
                            % (case["ctor2"], case["num2"], nm), None if a is None else float(a), None if b is None else float(b)))
        if (ref.bilinear is True) != (sn.bilinear is True):
            out.append(("the same parameters define the same curve: bilinear", ref.bilinear, sn.bilinear))
        t = case.get("t")
        for s in case["vals"]:
            a, b = float(ref.n(s, t=t)), float(sn.n(s, t=t))
            if not close(a, b, tol):
                out.append(("the same parameters (constructor spelling %s, numbers as %s) define the same curve: n(%r, t=%r)"
                            % (case["ctor2"], case["num2"], s, t), a, b))
        for n in case["ns"]:
            a, b = float(ref.fatigue_strength(n, t=t)), float(sn.fatigue_strength(n, t=t))
            if not close(a, b, tol):
                out.append(("the same parameters (constructor spelling %s, numbers as %s) define the same curve: fatigue_strength(%r, t=%r)"
                            % (case["ctor2"], case["num2"], n, t), a, b))
    except Exception as e:
        out.append(("a curve built with constructor spelling %s and numbers as %s evaluates like the float / loga1 one"
                    % (case["ctor2"], case["num2"]), "values", exc(e)))
    return out


def gen_ctor(rng, c, quick):
    sw = knee(c)
    t = None if c["t_ref"] is None else rng.choice([None, 100.0, c["t_ref"], 3.0 * c["t_ref"]])
    tc = tfac(c, t)
    vals = [10 ** rng.uniform(-0.3, 3.3) for _ in range(2)] + ([] if sw is None else [sw / tc, sw / tc * (1 - 2.0 ** -30), sw / tc * 1.5])
    ns = [10 ** rng.uniform(3, 10)] + ([] if sw is None else [c["nswitch"], c["nswitch"] * 3.0])
    combos = [(a, b) for a in CTORS for b in NUMS if not (a == "loga1" and c.get("a1") is not None)]
    if quick:
        combos = rng.sample(combos, 6)
    return [dict(curve=pub(c), kind="ctor", ctor2=a, num2=b, vals=vals, ns=ns, t=t) for a, b in combos]


# ----------------------------------------------------------------------------------------------------------------------------
# stream "main": one scalar float evaluation, all clauses (also used by replay)
# ----------------------------------------------------------------------------------------------------------------------------
def main_clauses(c, sn, kind, v, t, im):
    """clauses of the property at one (curve, s or N, t) given the implementation's value `im`; -> list of (oracle, input-extra, exp, obs)"""
    out = []
    if not (math.isfinite(im) and im > 0):
        out.append(("%s is a positive finite number" % ("n(s,t)" if kind == "n" else "fatigue_strength(N,t)"), {}, "> 0, finite", im))
        return out
    if kind == "n":
        s = v
        back = float(sn.fatigue_strength(im, t=t))
        if not close(back, s, 1e-8):
            out.append(("fatigue_strength(n(s,t),t) == s", {}, s, back))
        arr = sn.n(np.array([s, s * 1.5]), t=t)
        if not close(float(arr[0]), im, 1e-14):
            out.append(("array and scalar evaluation agree", {}, im, float(arr[0])))
        if t is not None and c["t_ref"] is not None:
            f = 1.0 if t <= c["t_ref"] else (t / c["t_ref"]) ** c["t_exp"]
            ref = float(sn.n(s * f))
            if not close(ref, im, 1e-9):
                out.append(("thickness acts like multiplying the stress range by (t/t_ref)^k (1 at or below t_ref)", {}, ref, im))
        # continuity / monotonicity: compare with a neighbour 1e-9 away
        d = 1e-9
        hi = float(sn.n(s * (1 + d), t=t))
        if not (hi < im):
            out.append(("n strictly decreasing in s", dict(s2=s * (1 + d)), "< %r" % im, hi))
        mmax = max(c["m1"], c["m2"] or 0.0)
        if abs(hi - im) > im * (mmax * d * 1.5 + 1e-12):
            out.append(("n continuous in s (no jump between s and s(1+1e-9))", dict(s2=s * (1 + d)), im, hi))
        # the slope is -m1 where the capacity is below nswitch and -m2 where it is above (single slope: -m1 everywhere)
        h = 1e-4
        n1 = float(sn.n(s * (1 + h), t=t))
        m = None
        if c["m2"] is None:
            m = c["m1"]
        elif im < c["nswitch"] / 1.001:
            m = c["m1"]
        elif n1 > c["nswitch"] * 1.001:
            m = c["m2"]
        if m is not None and n1 > 0 and math.isfinite(n1):
            slope = (math.log(n1) - math.log(im)) / math.log1p(h)
            if abs(slope + m) > 1e-5 * m:
                out.append(("log-log slope of n(., t) is -m1 where n < nswitch and -m2 where n > nswitch (the slope changes exactly "
                            "where capacity equals nswitch)", dict(s2=s * (1 + h)), -m, slope))
    else:
        n = v
        back = float(sn.n(im, t=t))
        if not close(back, n, 1e-8):
            out.append(("n(fatigue_strength(N,t),t) == N", {}, n, back))
        # the same request in other spellings: cycle number / thickness as numpy scalar, 0-d array, integer; thickness positional
        hows = ["np", "arr0"] + (["int", "npint"] if float(n).is_integer() and abs(n) < 2.0 ** 53 else [])
        thows = ["float"] if t is None else (["np", "arr0"] + (["int", "npint"] if float(t).is_integer() else []))
        for j, how in enumerate(hows):
            th = thows[j % len(thows)]
            try:
                if t is None:
                    im2 = float(sn.fatigue_strength(sp(n, how)))
                elif j % 2:
                    im2 = float(sn.fatigue_strength(sp(n, how), sp(t, th)))
                else:
                    im2 = float(sn.fatigue_strength(sp(n, how), t=sp(t, th)))
            except Exception as e:
                im2 = exc(e)
            if not close(im2, im, 1e-15):
                out.append(("fatigue_strength does not depend on the number type of N and t, nor on t being positional or keyword",
                            dict(nspell=how, tspell=th, call="pos" if j % 2 else "kw"), im, im2))
        if c["m2"] is not None:
            # the transition is where capacity equals nswitch: strength above the knee for N < nswitch, below it for N > nswitch
            tcf = tfac(c, t)
            sw = float(sn.sswitch)
            if n < c["nswitch"] * (1 - 1e-6) and not im * tcf > sw * (1 - 1e-9):
                out.append(("N < nswitch is reached above the transition stress", {}, "> %r" % (sw / tcf), im))
            if n > c["nswitch"] * (1 + 1e-6) and not im * tcf < sw * (1 + 1e-9):
                out.append(("N > nswitch is reached below the transition stress", {}, "< %r" % (sw / tcf), im))
    return out


def run(chk):
    chk.extra["rule"] = RULE
    chk.assumptions += ["float correspondence tolerance 1e-9 relative (libm pow/log10 differences are a few ulp)",
                        "the theorems are over the reals; float rounding is not covered by them",
                        "float32 stress arrays are evaluated by numpy in single precision: compared at 1e-3 relative",
                        "the model has no exact-rational execution for this property (10**x, log10 are Float / real only)"]
    rng = chk.rng
    drv = core.Driver()
    ncurves = 120 if chk.quick else 1500
    lines, meta = [], []
    curves = []
    for c in core.load_corpus("C05"):
        curves.append(dict(c["curve"], _s=c.get("s"), _t=c.get("t")))
    ncorpus = len(curves)
    curves += [gen_curve(rng) for _ in range(ncurves)]
    built = []
    for c in curves:
        inp0 = dict(curve=pub(c))
        try:
            sn, kw = build(c)
        except Exception as e:
            chk.count("sn.build")
            chk.fail("a valid S-N curve (m1, m2 > 0, a1 > 0, nswitch > 0, t_exp >= 0, t_ref > 0) can be constructed", inp0, "an SNCurve", exc(e))
            continue
        built.append(c)
        ct = curve_tokens(c)
        ts = [None]
        if c["t_ref"] is not None:
            tr = c["t_ref"]
            ts += [tr, tr * rng.uniform(0.2, 1.0), tr * rng.uniform(1.0, 6.0), 100.0]
            ts += rng.sample([tr * (1 - 2.0 ** -52), tr * (1 + 2.0 ** -52), tr * 1e-6, tr * 1e4, tr * (1 + 2.0 ** -20), 2.0 * tr],
                             2 if chk.quick else 4)
        if c.get("_t") is not None:
            ts.append(c["_t"])
        else:
            # thickness given but curve has no thickness parameters: both sides must refuse
            if c["t_ref"] is None:
                ts.append(30.0)
        lines.append("sn.derived " + ct)
        meta.append(("derived", c, sn, None, None))
        sw = knee(c)
        if c["m2"] is not None:
            try:
                sw = float(sn.sswitch)        # the implementation's own transition stress: exact ties
            except Exception:
                pass
        for t in ts:
            tc = 1.0
            if t is not None and c["t_ref"] is not None:
                tc = (max(t, c["t_ref"]) / c["t_ref"]) ** c["t_exp"]
            ss = [10 ** rng.uniform(-0.3, 3.3) for _ in range(4)]
            if c.get("_s") is not None:
                ss.append(c["_s"])
            if c["m2"] is not None:
                for k in (52, 40, 20, 8):
                    ss += [sw / tc * (1 - 2.0 ** -k), sw / tc * (1 + 2.0 ** -k), sw * (1 - 2.0 ** -k), sw * (1 + 2.0 ** -k)]
                ss += [sw, sw / tc, 0.5 * (sw + sw / tc)]
            # the same curve in far-away magnitudes (as long as the capacity stays a finite float)
            for _ in range(2):
                s = 10 ** rng.uniform(-0.3, 3.3) * 2.0 ** rng.choice([-200, -100, -60, -30, 30, 60, 100, 200])
                if finite_range(c, s):
                    ss.append(s)
            for s in ss:
                lines.append("sn.n %s %s %s" % (ct, fbits(s), "-" if t is None else fbits(t)))
                meta.append(("n", c, sn, s, t))
            for n in [10 ** rng.uniform(3, 10) for _ in range(3)] + [float(rng.randint(1000, 10 ** 9))] + ([c["nswitch"], c["nswitch"] * (1 + 2 ** -30),
                                                                      c["nswitch"] * (1 - 2 ** -30), c["nswitch"] * (1 + 2.0 ** -52),
                                                                      c["nswitch"] * (1 - 2.0 ** -53)] if c["m2"] else []):
                lines.append("sn.strength %s %s %s" % (ct, fbits(n), "-" if t is None else fbits(t)))
                meta.append(("strength", c, sn, n, t))
            if t is not None and c["t_ref"] is not None:
                lines.append("sn.tcorr %s %s %s" % (fbits(c["t_exp"]), fbits(c["t_ref"]), fbits(t)))
                meta.append(("tcorr", c, sn, None, t))
            # Curve.nArray: float values (both sides of / exactly at the knee, unsorted), integer values, the empty array
            fv = [10 ** rng.uniform(-0.3, 3.3) for _ in range(3)]
            iv = [float(rng.randint(1, 3000)) for _ in range(3)]
            if c["m2"] is not None:
                k0 = sw / tc
                fv += [k0, k0 * (1 - 2.0 ** -52), k0 * (1 + 2.0 ** -52), 0.8 * k0, 1.25 * k0, sw]
                iv += [float(min(60000, max(1, math.floor(k0)))), float(min(60000, math.ceil(k0) + 1)), float(min(60000, max(1, round(k0))))]
            rng.shuffle(fv)
            rng.shuffle(iv)
            for vals in (fv, iv, []):
                lines.append(("sn.narray %s %s %s" % (ct, "-" if t is None else fbits(t), " ".join(fbits(x) for x in vals))).rstrip())
                meta.append(("narray", c, sn, (vals, vals is iv), t))
    outs = drv.run(lines)
    for (kind, c, sn, v, t), o in zip(meta, outs):
        chk.count("sn." + kind)
        inp = dict(curve=pub(c), t=t)
        if c["m2"] is not None or (t is not None and c["t_ref"] is not None and t > c["t_ref"]):
            chk.nontriv((kind, tuple(sorted(pub(c).items(), key=str)), repr(v), t))
        try:
            eval_main(chk, kind, c, sn, v, t, o, inp)
        except Exception as e:
            extra = {"s": v} if kind == "n" else ({"n": v} if kind == "strength" else {})
            chk.fail("every clause can be evaluated: the implementation does not raise on a valid curve, stress range and thickness (%s)"
                     % kind, dict(dict(curve=pub(c), t=t), **extra), "a value", exc(e))
    curves = built
    # ---- input types and caller data: integer stresses, float arrays passed twice ----------------------------------------------
    for c in curves[:60 if chk.quick else 600]:
        sn, _ = build(c)
        t = None if c["t_ref"] is None else 2.0 * c["t_ref"]
        inp = dict(curve=pub(c), t=t, kind="types")
        chk.count("sn.types")
        ints = [3, 30, 300, 3000]
        try:
            a_int = np.asarray(sn.n(np.array(ints), t=t), dtype=float)
            a_flt = np.asarray(sn.n(np.array(ints, dtype=float), t=t), dtype=float)
            s_int = [float(sn.n(v, t=t)) for v in ints]
        except Exception as e:
            chk.fail("n accepts integer stress ranges like float ones", inp, "values", type(e).__name__)
            continue
        if not (np.allclose(a_int, a_flt, rtol=1e-13) and np.allclose(s_int, a_flt, rtol=1e-13)):
            chk.fail("scalar, array, integer and float evaluation of n agree", dict(inp, s=ints), a_flt.tolist(), [a_int.tolist(), s_int])
        try:
            arr = np.array([12.5, 45.0, 120.0, 800.0])
            a0 = arr.copy()
            r1 = np.array(sn.n(arr, t=t), dtype=float)
            r2 = np.array(sn.n(arr, t=t), dtype=float)
        except Exception as e:
            chk.fail("n evaluates a float array twice", inp, "values", exc(e))
            continue
        if not (np.array_equal(arr, a0) and np.array_equal(r1, r2)):
            chk.fail("evaluating n does not modify the caller's stress array (a second call gives the same answer)", dict(inp, s=a0.tolist()),
                     r1.tolist(), r2.tolist())
    # ---- slope change exactly at nswitch ------------------------------------------------------------------------
    for c in curves:
        if c["m2"] is None:
            continue
        inp = dict(curve=pub(c), kind="switch")
        chk.count("sn.switch")
        try:
            for oracle, extra, e, o in switch_clauses(c):
                chk.fail(oracle, dict(inp, **extra), e, o)
        except Exception as e:
            chk.fail("the transition clauses can be evaluated (no exception)", inp, "values", exc(e))
    # ---- spellings, histories, constructors ---------------------------------------------------------------------------
    nsp = ncorpus + (60 if chk.quick else 500)
    nshrunk = 0
    for stream, gen, runner, sub in (
            ("sn.spell", lambda c: gen_spell(rng, c, chk.quick), run_spell, curves[:nsp]),
            ("sn.history", lambda c: [gen_history(rng, c, 14) for _ in range(1 if chk.quick else 2)], run_history, curves[:nsp]),
            ("sn.ctor", lambda c: gen_ctor(rng, c, chk.quick), run_ctor, curves[:nsp])):
        for c in sub:
            for case in gen(c):
                chk.count(stream)
                t = case.get("t")
                if c["m2"] is not None or stream == "sn.history" or (t is not None and c["t_ref"] is not None and t > c["t_ref"]):
                    chk.nontriv((stream, repr(sorted(case.items(), key=str))))
                chk.dist("%s:%s" % (stream, case.get("cont") or case.get("ctor2") or "ops"))
                try:
                    res = runner(case)
                except Exception as e:
                    res = [("the clauses of stream %s can be evaluated (no exception)" % stream, "values", exc(e))]
                if res and stream == "sn.history" and nshrunk < 3:
                    nshrunk += 1
                    case, res = shrink_history(case, res)
                for oracle, e, o in res:
                    chk.fail(oracle, case, e, o)
    # ---- audit round 8: LONG stress-range arrays (c05_long.py) --------------------------------------------------------------
    from . import c05_long
    c05_long.run_long(chk, drv, core.load_corpus("C05"))


def switch_clauses(c):
    out = []
    sn, _ = build(c)
    sw = float(sn.sswitch)
    if not close(float(sn.n(sw)), c["nswitch"], 1e-9):
        out.append(("n(sswitch) == nswitch", {}, c["nswitch"], float(sn.n(sw))))
    for s, m in ((sw * 1.01, c["m1"]), (sw * 0.99, c["m2"])):
        slope = (math.log(float(sn.n(s * 1.0001))) - math.log(float(sn.n(s)))) / math.log(1.0001)
        if abs(slope + m) > 1e-5 * m:
            out.append(("log-log slope is -m1 above and -m2 below the transition stress", dict(s=s), -m, slope))
    # the same with a thickness: the transition is where the CAPACITY equals nswitch
    if c["t_ref"] is not None:
        for t in (c["t_ref"] * 0.5, c["t_ref"] * 4.0):
            f = tfac(c, t)
            if not close(float(sn.n(sw / f, t=t)), c["nswitch"], 1e-9):
                out.append(("n(sswitch / (t/t_ref)^k, t) == nswitch", dict(t=t), c["nswitch"], float(sn.n(sw / f, t=t))))
            if not close(float(sn.fatigue_strength(c["nswitch"], t=t)) * f, sw, 1e-9):
                out.append(("fatigue_strength(nswitch, t) (t/t_ref)^k == sswitch", dict(t=t), sw, float(sn.fatigue_strength(c["nswitch"], t=t)) * f))
    return out


def eval_main(chk, kind, c, sn, v, t, o, inp):
    if kind == "derived":
        if not close(float(sn.a1), 10 ** float(sn.loga1), 1e-12):
            try:
                given = {k: repr(x) for k, x in build(c)[1].items()}
            except Exception:
                given = None
            chk.fail("the attributes a1 and loga1 describe the same intercept: a1 == 10**loga1", dict(inp, kind="derived", given=given),
                     10 ** float(sn.loga1), float(sn.a1))
        if not close(float(sn.loga1), model_loga1(c), 1e-13):
            chk.disagree("sn.derived", inp, model_loga1(c), float(sn.loga1))
        if c["m2"] is None:
            if not (sn.a2 is None and sn.loga2 is None and sn.sswitch is None and o.strip() == "ok -"):
                chk.disagree("sn.derived", inp, o, str((sn.loga2, sn.a2, sn.sswitch)))
        else:
            m = [unfbits(x) for x in o.split()[1:]]
            im = [float(sn.loga2), float(sn.a2), float(sn.sswitch)]
            if not all(close(a, b) for a, b in zip(m, im)):
                chk.disagree("sn.derived", inp, m, im)
            # clause: a2 and loga2 consistent; sswitch is where n == nswitch
            if not close(10 ** im[0], im[1]):
                chk.fail("a2 == 10**loga2", inp, 10 ** im[0], im[1])
        return
    if kind == "tcorr":
        im = float(sn.thickness_correction(t))
        if not close(val(o), im):
            chk.disagree("sn.tcorr", inp, val(o), im)
        exp = 1.0 if t <= c["t_ref"] else (t / c["t_ref"]) ** c["t_exp"]
        if not close(im, exp, 1e-12):
            chk.fail("thickness factor is 1 at or below t_ref and (t/t_ref)^k above", inp, exp, im)
        # other spellings of the same thickness
        for how in ("np", "arr0") + (("int", "npint") if float(t).is_integer() else ()):
            try:
                im2 = float(sn.thickness_correction(sp(t, how)))
            except Exception as e:
                im2 = exc(e)
            if not close(im2, im, 1e-15):
                chk.fail("thickness factor does not depend on the number type of t", dict(inp, tspell=how), im, im2)
        return
    if kind == "narray":
        vals, integral = v
        inp = dict(inp, kind="narray", vals=vals)
        if o.startswith("ok"):
            model = [unfbits(x) for x in o.split()[1:]]
        else:
            model = o
        conts = ["ndarray", "list"] + (["i64", "ilist"] if integral and vals else [])
        for cont in conts:
            obj = container(vals, cont)[0] if vals else (np.array([], dtype=float) if cont == "ndarray" else [])
            try:
                r = sn.n(obj, t=t)
                im = np.asarray(r, dtype=float)
                im = im.tolist() if im.shape == (len(vals),) else "shape %r" % (im.shape,)
            except ValueError as e:
                im = "err value"
                if valid_t(c, t):
                    chk.fail("n(<%s>) returns values for every valid curve, stress ranges and thickness" % cont, inp, "values", exc(e))
            if isinstance(model, str) or isinstance(im, str):
                same = model == im
            else:
                same = len(model) == len(im) and all(close(a, b) for a, b in zip(model, im))
            if not same:
                chk.disagree("sn.narray", dict(inp, cont=cont), model, im)
        chk.dist("narray:%s:%s" % ("int" if integral else ("empty" if not vals else "float"),
                                   "t=None" if t is None else ("no-thick-params" if c["t_ref"] is None else "t")))
        return
    try:
        im = float(sn.n(v, t=t)) if kind == "n" else float(sn.fatigue_strength(v, t=t))
    except ValueError as e:
        im = "err value"
        if valid_t(c, t):
            chk.fail("%s returns a value for every valid curve, %s and thickness" % (
                ("n", "stress range") if kind == "n" else ("fatigue_strength", "cycle number")),
                dict(inp, **{"s" if kind == "n" else "n": v}), "a value", exc(e))
    inp["s" if kind == "n" else "n"] = v
    if not close(val(o), im):
        chk.disagree("sn." + kind, inp, val(o), im)
    chk.dist("%s:%s:%s" % (kind, "bilinear" if c["m2"] else "single",
                           "t=None" if t is None else ("no-thick-params" if c["t_ref"] is None else
                                                       ("t<=ref" if t <= c["t_ref"] else "t>ref"))))
    if isinstance(im, str):
        return
    if len(chk.samples) < 5 and c["m2"] and t and c["t_ref"] and t > c["t_ref"]:
        chk.sample(dict(inp, model=val(o), impl=im))
    # ---- oracles on the implementation ----------------------------------------------------------------
    for oracle, extra, e, ob in main_clauses(c, sn, kind, v, t, im):
        chk.fail(oracle, dict(inp, **extra), e, ob)


def replay(rp):
    inp = rp["input"]
    kind = inp.get("kind")
    bad = 0
    if kind in ("spell", "history", "ctor", "long"):
        from . import c05_long
        res = dict(spell=run_spell, history=run_history, ctor=run_ctor, long=c05_long.eval_long)[kind](inp)
        for oracle, e, o in res:
            print("FAILS:", oracle, "\n   expected", e, "\n   observed", o)
        bad = len(res)
        print("replay: %d failing clause(s)" % bad)
        return 1 if bad else 0
    try:
        sn, _ = build(inp["curve"])
    except Exception as e:
        print("FAILS: the curve cannot be constructed:", exc(e))
        print("replay: 1 failing clause(s)")
        return 1
    c = inp["curve"]
    t = inp.get("t")
    if kind == "switch":
        res = switch_clauses(c)
        for oracle, extra, e, o in res:
            print("FAILS:", oracle, extra, "expected", e, "observed", o)
        bad = len(res)
    elif kind == "types":
        ints = [3, 30, 300, 3000]
        try:
            a_int = np.asarray(sn.n(np.array(ints), t=t), dtype=float)
            a_flt = np.asarray(sn.n(np.array(ints, dtype=float), t=t), dtype=float)
            s_int = [float(sn.n(v, t=t)) for v in ints]
            if not (np.allclose(a_int, a_flt, rtol=1e-13) and np.allclose(s_int, a_flt, rtol=1e-13)):
                print("FAILS: integer / float / scalar / array agreement", a_flt, a_int, s_int)
                bad += 1
            arr = np.array([12.5, 45.0, 120.0, 800.0])
            a0 = arr.copy()
            r1 = np.array(sn.n(arr, t=t), dtype=float)
            r2 = np.array(sn.n(arr, t=t), dtype=float)
            if not (np.array_equal(arr, a0) and np.array_equal(r1, r2)):
                print("FAILS: caller's array modified / second call differs", arr, r1, r2)
                bad += 1
        except Exception as e:
            print("FAILS: raises", exc(e))
            bad += 1
    elif kind == "narray":
        for cont in ("ndarray", "list", "i64", "ilist"):
            if cont.startswith("i") and not all(float(x).is_integer() for x in inp["vals"]):
                continue
            try:
                obj = container(inp["vals"], cont)[0] if inp["vals"] else []
                r = np.asarray(sn.n(obj, t=t), dtype=float).ravel().tolist()
                ref = [float(sn.n(float(x), t=t)) for x in inp["vals"]]
                print(cont, r, "scalar:", ref)
                if not (len(r) == len(ref) and all(close(a, b, 1e-13) for a, b in zip(r, ref))):
                    print("FAILS: array and scalar evaluation agree (%s)" % cont)
                    bad += 1
            except Exception as e:
                print(cont, "raises", exc(e))
                if valid_t(c, t):
                    bad += 1
    elif "s" in inp or "n" in inp:
        which = "n" if "s" in inp else "strength"
        v = inp["s"] if "s" in inp else inp["n"]
        try:
            im = float(sn.n(v, t=t)) if which == "n" else float(sn.fatigue_strength(v, t=t))
            print("%s(%r, t=%r) = %r" % (which, v, t, im))
            res = main_clauses(c, sn, which, v, t, im)
            for oracle, extra, e, o in res:
                print("FAILS:", oracle, extra, "expected", e, "observed", o)
            bad = len(res)
        except Exception as e:
            print("raises", exc(e))
            bad = 1 if valid_t(c, t) else 0
    elif t is not None and c.get("t_ref") is not None:
        try:
            im = float(sn.thickness_correction(sp(t, inp.get("tspell", "float"))))
            exp = tfac(c, t)
            print("thickness_correction(%r) = %r, expected %r" % (t, im, exp))
            bad = 0 if close(im, exp, 1e-12) else 1
        except Exception as e:
            print("raises", exc(e))
            bad = 1
    else:
        try:
            ok = close(float(sn.a1), 10 ** float(sn.loga1), 1e-12) and (sn.a2 is None or close(10 ** float(sn.loga2), float(sn.a2)))
            print("a1, loga1, a2, loga2 =", sn.a1, sn.loga1, sn.a2, sn.loga2)
            bad = 0 if ok else 1
        except Exception as e:
            print("raises", exc(e))
            bad = 1
    print("replay: %d failing clause(s)" % bad)
    return 1 if bad else 0
