"""
C10 — queries never modify a time series; copies are complete and independent.

Tie (dynamic correspondence, DESIGN.md section 4/C10): for every combination of processing options x query method the
stored arrays and attributes are snapshotted bit-for-bit before / after the call, `np.shares_memory` of every returned
array with the stored arrays (and with the caller's resampling array) is compared with the provenance tag the Lean
ownership model predicts (`own.get`, `own.minima`), results of a repeated call are compared, the four GUI computations
are run in real threads against their sequential results, and `vars(copy)` is compared with `vars(original)` over *all*
instance attributes (so that a new, uncopied attribute is noticed).
"""
import copy as pycopy
import itertools
import threading

import numpy as np

from .. import core

RULE = ("all 72 combinations of (window, resample none/step/array, taper, filter kind incl. none, smoothing) x uniform / non-uniform "
        "series x 12 query methods; 4 GUI computations x real threads; deep / shallow copies of series and databases; "
        "non-trivial = any option set or threaded run; distinct by (series kind, options, method)")


def freeze(v):
    """hashable, comparable image of an attribute value (arrays by content)"""
    if isinstance(v, np.ndarray):
        return ("nd", v.dtype.str, v.shape, v.tobytes() if v.dtype != object else repr(v.tolist()))
    if isinstance(v, (list, tuple)):
        return (type(v).__name__,) + tuple(freeze(x) for x in v)
    if isinstance(v, dict):
        return ("dict",) + tuple((repr(k), freeze(x)) for k, x in v.items())
    try:
        hash(v)
        return v
    except TypeError:
        return repr(v)


def snap(ts):
    return dict(t=ts.t.tobytes(), x=ts.x.tobytes(), tid=id(ts._t), xid=id(ts.x),
                attrs={k: freeze(v) for k, v in vars(ts).items() if k not in ("_t", "x")})


def arrays_in(res):
    if isinstance(res, np.ndarray):
        return [res]
    if isinstance(res, (tuple, list)):
        return [a for r in res for a in arrays_in(r)]
    if isinstance(res, dict):
        return [a for r in res.values() for a in arrays_in(r)]
    return []


def same(a, b):
    if isinstance(a, np.ndarray) or isinstance(b, np.ndarray):
        return isinstance(a, np.ndarray) and isinstance(b, np.ndarray) and a.shape == b.shape and np.array_equal(a, b, equal_nan=True)
    if isinstance(a, (tuple, list)):
        return isinstance(b, (tuple, list)) and len(a) == len(b) and all(same(x, y) for x, y in zip(a, b))
    if isinstance(a, dict):
        return isinstance(b, dict) and list(a.keys()) == list(b.keys()) and all(same(a[k], b[k]) for k in a)
    if isinstance(a, float) and isinstance(b, float) and np.isnan(a) and np.isnan(b):
        return True
    return a == b


def make_series(rng, uniform, n=400):
    from qats import TimeSeries
    from datetime import datetime
    if uniform:
        t = np.arange(n) * 0.5
    else:
        t = np.cumsum(np.array([rng.choice([0.25, 0.5, 0.75]) for _ in range(n)]))
    x = np.sin(0.3 * t) + 0.5 * np.sin(1.1 * t + 1) + np.array([rng.uniform(-0.2, 0.2) for _ in range(n)])
    return TimeSeries("s", t, x, parent="/some/file.ts", dtg_ref=datetime(2020, 1, 2, 3, 4, 5), kind="force", unit="kN")


METHODS = ["get", "maxima", "minima", "max", "min", "mean", "std", "skew", "kurtosis", "psd", "rfc", "stats"]


def call(ts, method, kw):
    if method == "get":
        return ts.get(**kw)
    if method == "maxima":
        return ts.maxima(rettime=True, **kw)
    if method == "minima":
        return ts.minima(rettime=True, local=True, **kw)
    if method == "psd":
        k2 = {k: v for k, v in kw.items() if k != "window_len"}
        return ts.psd(**k2)
    if method == "stats":
        return ts.stats(include_sample=True, **kw)
    return getattr(ts, method)(**kw)


def run(chk):
    from qats import TimeSeries, TsDB
    from qats.app import funcs
    chk.extra["rule"] = RULE
    chk.assumptions += ["aliasing is observed with np.shares_memory and object identity; the Lean step programs mirror TimeSeries.get / minima"]
    chk.partial += ["the ownership theorems are about the step model; CPython/numpy aliasing itself is observed, not proved"]
    rng = chk.rng
    drv = core.Driver()
    combos = list(itertools.product([False, True], ["none", "step", "array"], [False, True], [None, "lp", "hp", "bp", "bs"], [False, True]))
    lines, meta = [], []
    for uniform in (True, False):
        ts = make_series(rng, uniform)
        for (tw, rs, tp, flt, sm) in combos:
            if tw and rs == "array":
                continue        # refused by get (assertion)
            kw = {}
            if tw:
                kw["twin"] = (float(ts.t[20]), float(ts.t[-30]))
            arr = None
            if rs == "step":
                kw["resample"] = 0.4
            elif rs == "array":
                arr = np.linspace(ts.t[5], ts.t[-5], 300)
                kw["resample"] = arr
            if tp:
                kw["taperfrac"] = 0.1
            if flt:
                kw["filterargs"] = {"lp": ("lp", 0.2), "hp": ("hp", 0.05), "bp": ("bp", 0.05, 0.3), "bs": ("bs", 0.1, 0.2)}[flt]
            if sm:
                kw["window_len"] = 5
            methods = METHODS if not chk.quick else ["get", "minima"] + rng.sample(METHODS[1:], 3)
            for m in methods:
                unif = (not uniform)
                lines.append("own.%s %d %s %d %d %d %d" % ("minima" if m == "minima" else "get", tw, rs, unif, tp, flt is not None, sm))
                meta.append((uniform, ts, dict(kw), arr, m, (tw, rs, tp, flt, sm)))
    outs = drv.run(lines)
    for (uniform, ts, kw, arr, m, combo), o in zip(meta, outs):
        inp = dict(uniform=uniform, method=m, twin=combo[0], resample=combo[1], taper=combo[2], filter=combo[3], smooth=combo[4])
        chk.count("query")
        chk.nontriv(repr(inp))
        chk.dist("method:" + m)
        before = snap(ts)
        arr0 = None if arr is None else arr.copy()
        try:
            r1 = call(ts, m, kw)
            r2 = call(ts, m, kw)
        except Exception as e:
            chk.dist("raised:" + type(e).__name__)
            after = snap(ts)
            if after != before:
                chk.fail("a query leaves the stored time, data and attributes bit-for-bit unchanged (also when it raises)", inp,
                         "unchanged", "changed after " + type(e).__name__)
            continue
        after = snap(ts)
        if after != before:
            what = [k for k in ("t", "x", "tid", "xid") if after[k] != before[k]] + [k for k in before["attrs"] if after["attrs"].get(k) != before["attrs"][k]]
            chk.fail("a query leaves the stored time, data and attributes bit-for-bit unchanged", inp, "unchanged", what)
        if arr is not None and not np.array_equal(arr, arr0):
            chk.fail("a query does not modify the caller's resampling array", inp, "unchanged", "changed")
        if not same(r1, r2):
            chk.fail("a repeated query gives the same answer", inp, "equal", "different")
        res = arrays_in(r1)
        for a in res:
            if np.shares_memory(a, ts.t) or np.shares_memory(a, ts.x):
                chk.fail("returned arrays do not alias the stored ones", inp, "no shared memory", "shares memory with stored array")
                break
        # model tags
        tags = dict(kv.split("=") for kv in o.split()[1:])
        if m in ("get", "minima"):
            pred_arg = tags["t"] == "arg"
            t_ret = r1[0] if m == "get" else None
            if m == "get":
                is_arg = arr is not None and (t_ret is arr or np.shares_memory(t_ret, arr))
                if pred_arg != is_arg:
                    chk.disagree("own.get", inp, o, "returned time %s the caller's array" % ("is" if is_arg else "is not"))
            if tags["t"] == "stored" or tags["x"] == "stored" or "stored" in tags["writes"]:
                chk.disagree("own." + m, inp, o, "model predicts access to stored arrays")
    # ---- copies ------------------------------------------------------------------------------------------------------------------
    for uniform in (True, False):
        ts = make_series(rng, uniform, n=50)
        _ = ts.dtg_time      # populate the lazy cache so that it is part of vars()
        for c, how in ((ts.copy(), "copy()"), (pycopy.copy(ts), "copy.copy"), (ts.copy(newname="other"), "copy(newname)")):
            chk.count("copy")
            inp = dict(uniform=uniform, how=how)
            va, vb = vars(ts), vars(c)
            diff = [k for k in va if k not in vb or not same(va[k], vb[k])]
            diff = [k for k in diff if not (k == "name" and how == "copy(newname)") and k != "_dtg_time"]
            if diff or set(vb) - set(va):
                chk.fail("a copy equals its source in every attribute and array", inp, "equal", diff + sorted(set(vb) - set(va)))
            if not same(list(c.dtg_time), list(ts.dtg_time)):
                chk.fail("a copy equals its source in every attribute and array (absolute time)", inp, "equal dtg_time", "different")
            if np.shares_memory(c.t, ts.t) or np.shares_memory(c.x, ts.x):
                chk.fail("a copy shares no mutable state with its source", inp, "independent arrays", "shared memory")
            shared = [k for k, v in vars(c).items() if isinstance(v, (np.ndarray, list, dict)) and v is vars(ts).get(k)]
            if shared:
                chk.fail("a copy shares no mutable state with its source (mutable attribute objects are not shared)", inp,
                         "distinct objects", shared)
            c.x[0] += 1.0
            c._t[0] -= 1.0
            c.kind = "changed"
            if ts.x[0] == c.x[0] or ts.kind == "changed":
                chk.fail("a copy shares no mutable state with its source", inp, "independent", "source changed with the copy")
    db = TsDB()
    for i in range(3):
        s = make_series(rng, True, n=30)
        s.name = "s%d" % i
        db.add(s)
    for shallow in (False, True):
        chk.count("db.copy")
        c = db.copy(shallow=shallow)
        u = TsDB()
        u.update(db, shallow=shallow)
        for other, how in ((c, "copy"), (u, "update")):
            inp = dict(how=how, shallow=shallow)
            if list(other.register_keys) != list(db.register_keys):
                chk.fail("a database copy/update holds the same keys", inp, list(db.register_keys), list(other.register_keys))
                continue
            for k in db.register_keys:
                a, b = db.register[k], other.register[k]
                if shallow and a is not b:
                    chk.fail("a shallow database copy or update shares exactly the series objects", inp, "same object", "different object")
                if not shallow:
                    if a is b or np.shares_memory(a.x, b.x) or np.shares_memory(a.t, b.t):
                        chk.fail("a deep database copy shares no mutable state with its source", inp, "independent", "shared")
                    va, vb = vars(a), vars(b)
                    diff = [kk for kk in va if kk != "_dtg_time" and not same(va[kk], vb.get(kk))]
                    if diff:
                        chk.fail("a deep database copy equals its source in every attribute and array", inp, "equal", diff)
    # ---- the four GUI computations concurrently on the same series ------------------------------------------------------------------
    rounds = 6 if chk.quick else 200
    series = {"a": make_series(rng, True, n=2000), "b": make_series(rng, False, n=1500)}
    twin, fargs = (50.0, 700.0), ("lp", 0.3)
    jobs = [("psd", lambda: funcs.calculate_psd(series, twin, fargs, 256, False)),
            ("rfc", lambda: funcs.calculate_rfc(series, twin, fargs, 32)),
            ("trace", lambda: funcs.calculate_trace(series, twin, fargs)),
            ("stats", lambda: funcs.calculate_stats(series, twin, fargs, False))]
    seq = {nm: f() for nm, f in jobs}
    befores = {k: snap(v) for k, v in series.items()}
    for r in range(rounds):
        out, errs = {}, []

        def work(nm, f):
            try:
                out[nm] = f()
            except Exception as e:
                errs.append((nm, repr(e)))
        order = jobs[:]
        rng.shuffle(order)
        th = [threading.Thread(target=work, args=j) for j in order]
        for t_ in th:
            t_.start()
        for t_ in th:
            t_.join()
        chk.count("threads")
        chk.nontriv(("threads", r))
        if errs:
            chk.fail("the four GUI computations run concurrently on the same series without error", dict(round=r), "no error", errs)
        for nm in seq:
            if nm in out and not same(out[nm], seq[nm]):
                chk.fail("concurrent and sequential execution of the GUI computations give the same answer", dict(round=r, computation=nm),
                         "equal", "different")
        for k, v in series.items():
            if snap(v) != befores[k]:
                chk.fail("the GUI computations leave the shared series unchanged", dict(round=r, series=k), "unchanged", "changed")
    chk.sample(dict(method="minima", options="twin + resample step + taper + lp + smooth", model=outs[1] if outs else ""))


def replay(rp):
    import random
    inp = rp["input"]
    if "method" not in inp:
        print("re-run ./check C10 %s" % rp.get("tier", "quick"))
        return 1
    ts = make_series(random.Random(0), inp["uniform"])
    kw = {}
    if inp["twin"]:
        kw["twin"] = (float(ts.t[20]), float(ts.t[-30]))
    if inp["resample"] == "step":
        kw["resample"] = 0.4
    elif inp["resample"] == "array":
        kw["resample"] = np.linspace(ts.t[5], ts.t[-5], 300)
    if inp["taper"]:
        kw["taperfrac"] = 0.1
    if inp["filter"]:
        kw["filterargs"] = {"lp": ("lp", 0.2), "hp": ("hp", 0.05), "bp": ("bp", 0.05, 0.3), "bs": ("bs", 0.1, 0.2)}[inp["filter"]]
    if inp["smooth"]:
        kw["window_len"] = 5
    before = snap(ts)
    r = call(ts, inp["method"], kw)
    bad = 0
    if snap(ts) != before:
        print("FAILS: stored arrays / attributes changed")
        bad += 1
    if any(np.shares_memory(a, ts.t) or np.shares_memory(a, ts.x) for a in arrays_in(r)):
        print("FAILS: result aliases stored array")
        bad += 1
    print("replay: %d failing clause(s)" % bad)
    return 1 if bad else 0
