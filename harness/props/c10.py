"""
C10 — queries never modify a time series; copies are complete and independent.

Tie (dynamic correspondence, DESIGN.md section 4/C10): for every combination of processing options x query method the
stored arrays and attributes are snapshotted bit-for-bit before / after the call, `np.shares_memory` of every returned
array with the stored arrays (and with the caller's resampling array) is compared with the provenance tag the Lean
ownership model predicts (`own.get`, `own.minima`), results of a repeated call are compared, the four GUI computations
are run in real threads against their sequential results, and `vars(copy)` is compared with `vars(original)` over *all*
instance attributes (so that a new, uncopied attribute is noticed).

Queries with *boundary option values* are examined as kind="query" cases: options that are given but turn out to do nothing
(taper fraction 0 / 1 / an integer / outside (0, 1), smoothing window of 0 / 1 / 2 points or not an integer, a time window that
covers the whole series, resampling to the series' own step or own instants, given as list, pass-everything filters) alone and
combined, x every query method (also filter / resample / interpolate / fit_weibull / extremes with threshold 0 / statistics of
minima), as one long history on the same series object; a failing case carries the history needed to reproduce it.

Copies are examined as *cases* described by a JSON dictionary (so that every failing one can be replayed):
  kind="copy"  a series on one of several time grids (dyadic, non-uniform, decimal + 1/3, accumulated 0.1, sub-microsecond
               offset, random, given as datetime objects) x date-time reference (none / whole second / with microseconds) x
               a *history* of queries made on the source before the copy is taken (the lazily filled date-time cache, get with
               options, statistics, extremes, spectrum ...) x the way of copying (copy(), copy.copy, copy(newname), deep
               TsDB.copy, deep TsDB.update);
  kind="db"    a database backed by one or more files (.ts .dat .pkl .h5) of which an arbitrary subset of the series has
               been read (preloaded) when the copy is taken, plus series added in memory, copied / updated deep or shallow,
               whole or for a selection of names given in non-file order.
Each case is evaluated by `check_copy_case` / `check_db_case`, which return the clauses of the property that fail; an
exception raised by the implementation inside a case is a failing clause, not a crash of the harness.

Audit additions (classes of inputs inside the quantifier that the generators did not reach before):
  spelling    the same option given as list / tuple / ndarray / view / read-only array / numpy scalar / int / bool (`SPELLED`), the
              parameters of the query methods themselves (threshold, quantiles, statsdur: `MPARAMS`), every public entry point that
              reaches `TimeSeries.get` (`EMETHODS`: positional get, TsDB.geta / getda / stats / stats_dataframe / to_dataframe /
              create_common_time, the qats.app.funcs computations incl. the Gumbel fit and the export, the plot methods), series
              built from int / float32 / strided / read-only / shared caller arrays (the constructor clause: `source_clauses`),
              further ways of copying (`HOWS2`), database copies called positionally / with str, tuple, list selections / on files
              named relative to the working directory;
  boundaries  windows holding 0 / 1 / 2 samples or reversed, refused option values, series of 1 / 2 / 3 samples, constant / zero /
              tied data, data scaled by 2^+-200 or on offsets of 2^40 / -1e15, time offsets, attributes None / empty / mutable;
  histories   the series is changed between queries (in place, re-assigned, re-referenced, renamed: `MUTATIONS`, `HIST_MUT`) and a
              copy taken afterwards must answer like its source; the caller writes to returned arrays and asks again; second copies,
              copies of copies, a source modified after copying; series of a database changed in memory before it is copied;
  references  the GUI computations are snapshotted before their first (sequential) run and repeated before the threads start;
  during      an `Observer` looks at the stored state whenever a query enters one of the signal / statistics routines (a deterministic
              stand-in for the other thread of the property's schedules);
  crashes     the GUI part and the model-tag comparison can no longer raise out of `run`.
Round 6 additions:
  kind="dbq"     a history of retrievals on ONE database (file-backed .ts .dat .pkl .h5 with none / some / all series read, + in-memory series):
                 getm / getd / getl / getda / geta / get / stats / stats_dataframe / list / copy / update-from / iteration / containment, by names
                 (str, list, tuple, pattern, non-file order), by index, store=False, full keys, with processing options - and in between calls
                 the database REJECTS (`DBQ_FAULTS`: index out of range / of a wrong type, names of a wrong type, names and index, no / unknown /
                 ambiguous name, refused option values, parent file missing while a series is to be read, duplicate key, rename onto an existing
                 key, update / load / export / to_dataframe refused ...). After every step: the registers and the series held in memory are
                 unchanged; every retrieval gives the answer it gave the first time and the answer of a second database loaded from the same
                 files on which nothing was ever rejected; retrievals asked together in threads answer as alone. EVERY call runs in a worker
                 thread under a time limit (`guarded`): a call that does not return is the failing clause "the repeated retrieval returns".
  kind="shared"  ONE caller's array handed to two or three series (modify(resample=arr) twice, get / resample / interpolate / the constructor),
                 as ndarray / view / float32 / int array / list / tuple, followed by in-place operations on the first series (data scaled,
                 time shifted, set_dtg_ref, modify, writing to returned arrays): the other series and the caller's array stay unchanged and no
                 two of them share memory.
Known-finding shapes (effective only with an entry of that id in known_findings.json): `is_alias_common_time`, `is_threshold_0d`.
"""
import contextlib
import copy as pycopy
import io
import itertools
import os
import random
import shutil
import tempfile
import threading
import traceback

import numpy as np

from .. import core

RULE = ("all 72 combinations of (window, resample none/step/array, taper, filter kind incl. none, smoothing) x uniform / non-uniform "
        "series x 12 query methods (each also with the stored arrays made read-only); boundary option values (no-op taper / "
        "smoothing / window / resampling / filter values, alone and combined) x 22 query methods as a history on one series; "
        "the same options in other spellings (list / tuple / ndarray / view / numpy scalars / int / bool) and refused values, parameters of the "
        "query methods (threshold, quantiles, statsdur) x 48 entry points (TimeSeries methods, TsDB.geta/getda/stats/to_dataframe/..., "
        "qats.app.funcs, plots) as histories with in-place changes of the series in between, on series built from int / float32 / strided / "
        "read-only / shared arrays, of 1-3 samples, with constant / tied data, magnitudes 2^+-200 and large offsets; the stored state is "
        "also observed during each query; "
        "5 GUI computations x 3 settings: sequential twice, then real threads; "
        "further copies: 13 ways of copying x sources changed before the copy x other array kinds / attribute values / lengths, second copies; "
        "series copies: 7 time grids x 3 date-time references x query histories ([], [dtg_time], random) x 5 ways of copying; "
        "database copies: file-backed (.ts .dat .pkl .h5, 1-2 files) with every kind of preloaded subset (none / some / all) "
        "+ in-memory series x copy / update x deep / shallow x all names / selection in non-file order; "
        "retrieval histories on one database (12 retrieval methods x names / index / pattern / store=False / options) with 23 kinds of "
        "rejected calls in between (each call in a worker thread under a time limit), compared with the first answer and with a second "
        "database on the same files; one caller's array handed to 2-3 series by 6 routes x 7 spellings, then in-place operations on the first; "
        "non-trivial = any option set, threaded run, non-empty history or file-backed database; distinct by the case dictionary")


def freeze(v):
    """hashable, comparable image of an attribute value (arrays by content)"""
    if isinstance(v, np.ndarray):
        return ("nd", v.dtype.str, v.shape, v.tobytes() if v.dtype != object else repr(v.tolist()))
    if isinstance(v, (list, tuple)):
        return (type(v).__name__,) + tuple(freeze(x) for x in v)
    if isinstance(v, dict):
        return ("dict",) + tuple((repr(k), freeze(x)) for k, x in v.items())
    try:
        hash(v)
        return v
    except TypeError:
        return repr(v)


def snap(ts, skip=()):
    return dict(t=ts.t.tobytes(), x=ts.x.tobytes(), tid=id(ts._t), xid=id(ts.x),
                attrs={k: freeze(v) for k, v in vars(ts).items() if k not in ("_t", "x") and k not in skip})


def is_frame(v):
    return type(v).__name__ in ("DataFrame", "Series") and hasattr(v, "to_numpy")


def arrays_in(res):
    if isinstance(res, np.ndarray):
        return [res]
    if is_frame(res):           # pandas: the blocks behind the columns and the index
        out = [res.index.to_numpy()]
        if type(res).__name__ == "DataFrame":
            out += [res[c].to_numpy() for c in res.columns]
        else:
            out.append(res.to_numpy())
        return [a for a in out if isinstance(a, np.ndarray)]
    if isinstance(res, (tuple, list)):
        return [a for r in res for a in arrays_in(r)]
    if isinstance(res, dict):
        return [a for r in res.values() for a in arrays_in(r)]
    return []


def same(a, b):
    if is_frame(a) or is_frame(b):
        return is_frame(a) and is_frame(b) and list(a.index) == list(b.index) and bool(a.equals(b))
    if isinstance(a, np.ndarray) or isinstance(b, np.ndarray):
        if not (isinstance(a, np.ndarray) and isinstance(b, np.ndarray) and a.shape == b.shape):
            return False
        if a.dtype.kind in "fc" and b.dtype.kind in "fc":
            return bool(np.array_equal(a, b, equal_nan=True))
        if a.dtype == object or b.dtype == object:      # e.g. arrays of datetime objects (np.isnan is not defined for those)
            return same(a.tolist(), b.tolist())
        return bool(np.array_equal(a, b))
    if isinstance(a, (tuple, list)):
        return isinstance(b, (tuple, list)) and len(a) == len(b) and all(same(x, y) for x, y in zip(a, b))
    if isinstance(a, dict):
        return isinstance(b, dict) and list(a.keys()) == list(b.keys()) and all(same(a[k], b[k]) for k in a)
    if isinstance(a, float) and isinstance(b, float) and np.isnan(a) and np.isnan(b):
        return True
    return a == b


def make_series(rng, uniform, n=400):
    from qats import TimeSeries
    from datetime import datetime
    if uniform:
        t = np.arange(n) * 0.5
    else:
        t = np.cumsum(np.array([rng.choice([0.25, 0.5, 0.75]) for _ in range(n)]))
    x = np.sin(0.3 * t) + 0.5 * np.sin(1.1 * t + 1) + np.array([rng.uniform(-0.2, 0.2) for _ in range(n)])
    return TimeSeries("s", t, x, parent="/some/file.ts", dtg_ref=datetime(2020, 1, 2, 3, 4, 5), kind="force", unit="kN")


METHODS = ["get", "maxima", "minima", "max", "min", "mean", "std", "skew", "kurtosis", "psd", "rfc", "stats"]


def call(ts, method, kw):
    if method == "get":
        return ts.get(**kw)
    if method == "maxima":
        return ts.maxima(rettime=True, **kw)
    if method == "minima":
        return ts.minima(rettime=True, local=True, **kw)
    if method == "psd":
        k2 = {k: v for k, v in kw.items() if k != "window_len"}
        return ts.psd(**k2)
    if method == "stats":
        return ts.stats(include_sample=True, **kw)
    return getattr(ts, method)(**kw)


RO_ORACLE = ("queries give the same answer when run concurrently on the same series: no query writes to the stored arrays while it "
             "runs (observed by making the stored arrays read-only: the query must still succeed and give the same answer)")


def readonly_probe(ts, method, kw, r1):
    """-> None or the observation that the query wrote (tried to write) to the stored arrays during the call"""
    fl = (ts._t.flags.writeable, ts.x.flags.writeable)
    ts._t.setflags(write=False)
    ts.x.setflags(write=False)
    try:
        r3 = call(ts, method, kw)
    except Exception as e:
        return "raised %s: %s" % (type(e).__name__, str(e)[:120])
    finally:
        ts._t.setflags(write=fl[0])
        ts.x.setflags(write=fl[1])
    if not same(r1, r3):
        return "different answer"
    return None


# ======================================================================================================================
#  query cases: boundary values of the processing options (given, but possibly doing nothing), the same option spelled in
#  other ways, every public entry point that reaches TimeSeries.get, series built from other kinds of arrays
# ======================================================================================================================
# option values as JSON; symbolic values are resolved against the series by `resolve_opts`
BOUNDARY = dict(
    taperfrac=[0., 1., 0, 1, 1.5, -0.25, 1e-300, 0.5],
    window_len=[0, 1, 2, 3, -1, 4.0, 5],
    window=["hanning", "blackman"],
    twin=["whole", "beyond", "exact-ends", "inner"],
    resample=["own-dt", "own-instants-list", "own-instants-array", "own-dt-float32", 0.4],
    filterargs=[["tp", [-1., 1.]], ["tp", [0., 1.]], ["tp", [0.1, 0.9]], ["lp", 0.95], ["hp", 1e-6], ["bp", 1e-6, 0.95], ["bs", 0.4, 0.41], ["lp", 0.2]],
)
# the same option spelled in another way {"v": value (symbolic values as above), "as": spelling}; also values the query refuses
SPELLED = dict(
    twin=[{"v": v, "as": a} for v in ("inner", "whole", "exact-ends") for a in ("list", "ndarray", "int", "npscalar")] +
         [{"v": v, "as": "tuple"} for v in ("one-sample", "two-samples", "between-samples", "reversed", "after-end")],
    resample=[{"v": "own-dt", "as": a} for a in ("f8", "f4", "int", "str")] + [{"v": 0.4, "as": "f8"}, {"v": 0.25, "as": "f4"}] +
             [{"v": v, "as": a} for v in ("own-instants", "inner-grid") for a in ("ndarray", "list", "readonly", "view", "tuple", "int-array")] +
             [{"v": "beyond-grid", "as": "ndarray"}],
    filterargs=[{"v": ["lp", 0.2], "as": "list"}, {"v": ["bp", 0.05, 0.3], "as": "list"}, {"v": ["lp", 0.2], "as": "npscalar"},
                {"v": ["hp", 1], "as": "tuple"}, {"v": ["tp", 0], "as": "tuple"}, {"v": ["tp", 0.5], "as": "list"},
                {"v": ["xx", 0.2], "as": "tuple"}, {"v": ["lp"], "as": "tuple"}, {"v": ["bp", 0.1], "as": "list"}, {"v": ["lp", 0.2], "as": "ndarray"}],
    window_len=[{"v": 5, "as": "np.int64"}, {"v": 3, "as": "np.int32"}, {"v": 1, "as": "bool"}, {"v": 5.0, "as": "np.float64"}],
    taperfrac=[{"v": 0.1, "as": "f8"}, {"v": 0.1, "as": "f4"}, {"v": 0.25, "as": "f4"}, {"v": 1, "as": "bool"}],
    window=["hamming", "bartlett", "rectangular", "nosuch"],
)
# parameters of the query methods themselves (used by the methods that have them, ignored by the others)
MPARAMS = dict(
    threshold=[{"v": "mean", "as": a} for a in ("float", "f8", "arr0d", "f4")] + [{"v": 0, "as": "int"}, {"v": 0, "as": "arr0d"}, {"v": "max", "as": "float"}],
    quantiles=[{"v": [0.37, 0.57, 0.9], "as": a} for a in ("list", "ndarray")] + [{"v": [0., 1., 0.5], "as": "tuple"}, {"v": [0.9, 0.1], "as": "list"}],
    statsdur=[3600, 10800., 1],
)
QMETHODS = METHODS + ["maxima_global", "minima_global", "maxima_thr0", "minima_thr0", "stats_minima", "filter", "resample",
                      "interpolate", "fit_weibull", "average_frequency"]
# other public entry points that reach the same code (TsDB methods, the functions behind the GUI, plots, positional calls)
EMETHODS = ["get_pos", "geta", "getda", "db.stats", "stats_dataframe", "to_dataframe", "create_common_time", "funcs.psd", "funcs.psd_norm",
            "funcs.rfc", "funcs.rfc_nobins", "funcs.trace", "funcs.stats", "funcs.stats_min", "funcs.gumbel", "funcs.gumbel_min",
            "funcs.export", "plot", "plot_psd", "plot_cycle_range", "plot_cycle_rangemean", "props", "iter", "psd_opts",
            "moments_opts", "fit_weibull_lse"]
SLOW = ("plot", "plot_psd", "plot_cycle_range", "plot_cycle_rangemean")
ALLMETHODS = QMETHODS + EMETHODS
TSPELL = ["f8", "i8", "i4", "f4", "view", "readonly", "shared"]     # "shared": time and data are views of one caller array
XKIND = ["plain", "const", "zeros", "ties"]


def spelled_array(a, how):
    """the values of the float array a as the caller's array of another kind"""
    if how in ("i8", "i4"):
        return np.rint(a).astype(np.int64 if how == "i8" else np.int32)
    if how == "f4":
        return a.astype(np.float32)
    if how == "view":
        base = np.zeros(2 * a.size + 1)
        base[1::2] = a
        return base[1::2]
    if how == "readonly":
        b = a.copy()
        b.setflags(write=False)
        return b
    return a.copy()


def build_qseries2(spec):
    """-> (series, (caller's time array, caller's data array)); the plain spec (uniform, n, seed) gives the series of `make_series`"""
    from qats import TimeSeries
    from datetime import datetime
    rng = random.Random(spec["seed"])
    n, uniform = spec["n"], spec["uniform"]
    if uniform:
        t = np.arange(n) * 0.5
    else:
        t = np.cumsum(np.array([rng.choice([0.25, 0.5, 0.75]) for _ in range(n)]))
    x = np.sin(0.3 * t) + 0.5 * np.sin(1.1 * t + 1) + np.array([rng.uniform(-0.2, 0.2) for _ in range(n)])
    ts_, xs_ = spec.get("tspell", "f8"), spec.get("xspell", "f8")
    xk = spec.get("xkind", "plain")
    if xk == "const":
        x = np.full(n, 2.5)
    elif xk == "zeros":
        x = np.zeros(n)
    elif xk == "ties":                  # few distinct levels: plateaus, equal peaks, samples on the mean
        x = np.rint(2. * x) / 2.
    if ts_ in ("i8", "i4"):
        t = t * 4.                      # all instants are whole numbers
    if xs_ in ("i8", "i4"):
        x = np.rint(8. * x)
    x = x * 2. ** spec.get("xpow", 0) + spec.get("xoff", 0.)
    t = t + spec.get("toff", 0.)
    if ts_ == "shared" or xs_ == "shared":      # one caller array holding both
        both = np.empty((2, n))
        both[0], both[1] = t, x
        tsrc, xsrc = both[0, :], both[1, :]
    else:
        tsrc, xsrc = spelled_array(t, ts_), spelled_array(x, xs_)
    ts = TimeSeries("s", tsrc, xsrc, parent="/some/file.ts", dtg_ref=datetime(2020, 1, 2, 3, 4, 5), kind="force", unit="kN")
    return ts, (tsrc, xsrc)


def build_qseries(spec):
    return build_qseries2(spec)[0]


OWN_ORACLE = "the stored time and data arrays are the series' own (the constructor copies the caller's arrays)"


def source_clauses(ts, src, src0, F):
    """the caller's arrays a series was built from: not aliased by the stored arrays, untouched by whatever was asked of the series"""
    for nm, a, a0 in (("time", src[0], src0[0]), ("data", src[1], src0[1])):
        if np.shares_memory(a, ts._t) or np.shares_memory(a, ts.x):
            F.append((OWN_ORACLE, "no shared memory", "the stored arrays share memory with the caller's %s array" % nm))
        if a.tobytes() != a0:
            F.append(("queries on a series leave the arrays it was built from unchanged", "unchanged", "the caller's %s array changed" % nm))


def _twin_of(ts, v):
    t = ts.t
    n = t.size
    t0, t1 = float(t[0]), float(t[-1])
    k = n // 3
    return {"whole": (t0 - 1., t1 + 1.), "beyond": (-1e12, 1e12), "exact-ends": (t0, t1),
            "inner": (float(t[n // 5]), float(t[-(n // 5) - 1])),
            "one-sample": (float(t[k]), float(t[k])), "two-samples": (float(t[k]), float(t[min(k + 1, n - 1)])),
            "between-samples": (float(t[k]) + 0.01, float(t[k]) + 0.02), "reversed": (t1, t0), "after-end": (t1 + 1., t1 + 2.)}[v]


def spell(ts, k, o):
    """value of the option k described by {"v":, "as":}"""
    v, how = o["v"], o["as"]
    if k == "twin":
        a, b = _twin_of(ts, v)
        if how == "int":                # whole seconds around the window
            a, b = int(np.floor(a)), int(np.ceil(b))
        return {"list": [a, b], "ndarray": np.array([a, b]), "npscalar": (np.float64(a), np.float64(b))}.get(how, (a, b))
    if k == "resample":
        if v in ("own-instants", "inner-grid", "beyond-grid"):
            if v == "own-instants":
                g = np.array(ts.t)
            elif v == "inner-grid":
                g = np.linspace(float(ts.t[ts.n // 5]), float(ts.t[-(ts.n // 5) - 1]), 37)
            else:
                g = np.linspace(float(ts.t[0]) - 1., float(ts.t[-1]), 20)
            if how == "list":
                return [float(_) for _ in g]
            if how == "tuple":
                return tuple(float(_) for _ in g)
            if how == "int-array":
                return np.unique(np.ceil(g[:-1])).astype(np.int64)
            return spelled_array(g, how)
        d = float(ts.dt) if v == "own-dt" else float(v)
        return {"f8": np.float64(d), "f4": np.float32(d), "int": int(max(1, round(d))) if np.isfinite(d) else 1, "str": "%r" % d}.get(how, d)
    if k == "filterargs":
        if how == "npscalar":
            return (v[0],) + tuple(np.float64(_) for _ in v[1:])
        return {"list": list(v), "ndarray": np.array(v, dtype=object)}.get(how, tuple(v))
    if k == "window_len":
        return {"np.int64": np.int64, "np.int32": np.int32, "bool": bool, "np.float64": np.float64}[how](v)
    if k == "taperfrac":
        return {"f8": np.float64, "f4": np.float32, "bool": bool}[how](v)
    if k == "threshold":
        th = {"mean": float(np.mean(ts.x)), "max": float(np.max(ts.x))}.get(v, v)
        return {"float": float, "int": int, "f8": np.float64, "f4": np.float32, "arr0d": np.array}[how](th)
    if k == "quantiles":
        return {"list": list, "tuple": tuple, "ndarray": np.array}[how](v)
    raise ValueError(k)


def resolve_opts(ts, opts):
    """JSON option description -> (keyword arguments of get() [+ parameters of the query method], the caller's resampling array or None)"""
    kw, arr = {}, None
    for k, v in opts.items():
        if isinstance(v, dict) and "as" in v:
            kw[k] = spell(ts, k, v)
            if k == "resample" and isinstance(kw[k], np.ndarray):
                arr = kw[k]
        elif k == "twin":
            kw[k] = _twin_of(ts, v)
        elif k == "resample":
            if v == "own-dt":
                kw[k] = float(ts.dt)
            elif v == "own-dt-float32":
                kw[k] = np.float32(0.5)
            elif v == "own-instants-list":
                kw[k] = [float(_) for _ in ts.t]
            elif v == "own-instants-array":
                arr = np.array(ts.t)
                kw[k] = arr
            else:
                kw[k] = float(v)
        elif k == "filterargs":
            kw[k] = tuple(v)
        else:
            kw[k] = v
    return kw, arr


def _getkw(kw):
    return {k: v for k, v in kw.items() if k not in MPARAMS}


def _db_of(ts, mate=False):
    from qats import TimeSeries, TsDB
    db = TsDB()
    db.add(ts)
    if mate:        # a second series on the same instants
        db.add(TimeSeries("zz_mate", ts.t, 2. * ts.x, dtg_ref=ts.dtg_ref))
    return db


def qcall(ts, method, kw):
    """the query `method` with the processing options kw"""
    mp = {k: v for k, v in kw.items() if k in MPARAMS}
    kw = _getkw(kw)
    thr = {"threshold": mp["threshold"]} if "threshold" in mp else {}
    if method in METHODS:
        if method in ("maxima", "minima") and thr:
            return getattr(ts, method)(rettime=True, local=True, **thr, **kw)
        if method == "stats" and mp:
            return ts.stats(include_sample=True, **{k: v for k, v in mp.items() if k != "threshold"}, **kw)
        return call(ts, method, kw)
    if method == "maxima_global":
        return ts.maxima(rettime=True, **thr, **kw)
    if method == "minima_global":
        return ts.minima(rettime=True, **thr, **kw)
    if method == "maxima_thr0":
        return ts.maxima(rettime=True, local=True, threshold=0., **kw)
    if method == "minima_thr0":
        return ts.minima(rettime=True, local=True, threshold=0., **kw)
    if method == "stats_minima":
        return ts.stats(is_minima=True, include_sample=True, **{k: v for k, v in mp.items() if k != "threshold"}, **kw)
    if method == "average_frequency":       # properties: no options
        return (ts.average_frequency, ts.average_period)
    if method in ("fit_weibull", "fit_weibull_lse"):
        w = ts.fit_weibull(twin=kw.get("twin"), **({} if method == "fit_weibull" else {"method": "lse"}))
        return (w.loc, w.scale, w.shape)
    if method == "filter":                  # filter(type, freq, twin, taperfrac)
        fa = kw.get("filterargs", ("lp", 0.2))
        return ts.filter(fa[0], fa[1] if len(fa) == 2 else tuple(fa[1:]), twin=kw.get("twin"), taperfrac=kw.get("taperfrac"))
    if method == "resample":
        r = kw.get("resample", float(ts.dt))
        if isinstance(r, (list, tuple, np.ndarray)):
            return ts.resample(t=np.asarray(r))
        return ts.resample(dt=r)
    if method == "interpolate":
        r = kw.get("resample")
        return ts.interpolate(np.asarray(r) if isinstance(r, (list, tuple, np.ndarray)) else ts.t)
    # ---- other entry points ---------------------------------------------------------------------------------------------------
    if method == "get_pos":                 # everything positional
        return ts.get(kw.get("twin"), kw.get("resample"), kw.get("window_len"), kw.get("filterargs"), kw.get("window", "rectangular"),
                      kw.get("taperfrac"))
    if method == "geta":
        return _db_of(ts).geta(name=ts.name, **kw)
    if method == "getda":
        return _db_of(ts, mate=True).getda(**kw)
    if method == "db.stats":
        return _db_of(ts, mate=True).stats(**{k: v for k, v in mp.items() if k == "statsdur"}, **kw)
    if method == "stats_dataframe":
        return _db_of(ts).stats_dataframe(**kw)
    if method == "to_dataframe":
        return _db_of(ts, mate=True).to_dataframe(**kw)
    if method == "create_common_time":
        return _db_of(ts, mate=True).create_common_time(twin=kw.get("twin"))
    if method.startswith("funcs."):
        from qats.app import funcs
        cont = {"first": ts, "again": ts}          # the GUI hands the workers a container of series
        tw, fa = kw.get("twin"), kw.get("filterargs")
        f = method[6:]
        if f in ("psd", "psd_norm"):
            return funcs.calculate_psd(cont, tw, fa, 64, f == "psd_norm")
        if f in ("rfc", "rfc_nobins"):
            return funcs.calculate_rfc(cont, tw, fa, 16 if f == "rfc" else None)
        if f == "trace":
            return funcs.calculate_trace(cont, tw, fa)
        if f in ("stats", "stats_min"):
            return funcs.calculate_stats(cont, tw, fa, f == "stats_min")
        if f in ("gumbel", "gumbel_min"):
            return funcs.calculate_gumbel_fit(cont, tw, fa, f == "gumbel_min")
        if f == "export":
            root = tempfile.mkdtemp(prefix="qv10e_")
            try:
                quiet(funcs.export_to_file, os.path.join(root, "out.ts"), _db_of(ts), [ts.name], tw, fa)
                return sorted(os.listdir(root))
            finally:
                shutil.rmtree(root, ignore_errors=True)
    if method in SLOW:
        import matplotlib.pyplot as plt
        k2 = {k: v for k, v in kw.items() if not (method == "plot_psd" and k == "window_len")}
        try:
            return getattr(ts, method)(show=False, **k2)
        finally:
            plt.close("all")
    if method == "props":
        return tuple(getattr(ts, p) for p in ("n", "start", "end", "dt", "duration", "is_constant_dt", "dtg_start", "dtg_end", "fullname"))
    if method == "iter":
        return list(ts)
    if method == "psd_opts":
        k2 = {k: v for k, v in kw.items() if k != "window_len"}
        return ts.psd(nperseg=32, noverlap=0, detrend=False, nfft=64, normalize=True, **k2)
    if method == "moments_opts":
        return (ts.kurtosis(fisher=True, bias=True, **kw), ts.skew(bias=True, **kw))
    raise ValueError(method)


def what_changed(before, after):
    return [k for k in ("t", "x", "tid", "xid") if after[k] != before[k]] + \
           [k for k in before["attrs"] if after["attrs"].get(k) != before["attrs"][k]] + \
           sorted(set(after["attrs"]) - set(before["attrs"]))


# ---- an observer *during* a query -------------------------------------------------------------------------------------------------
# Another thread can look at the series at any moment of a query. The moments at which a query hands its working arrays to the
# signal / statistics routines are observed deterministically: the functions qats.ts calls out to are wrapped (module attributes,
# restored afterwards) and the stored state is compared when they are entered.
OBS_NAMES = ["count_cycles", "average_frequency", "bandblock", "bandpass", "find_maxima", "highpass", "lowpass", "psd", "smooth", "taper",
             "thresholdpass", "pwm", "weibull2gumbel", "interp1d", "kurtosis", "skew", "tstd"]
OBS_ORACLE = ("queries give the same answer when run concurrently on the same series: the stored time, data and attributes are "
              "unchanged at every moment of a query (looked at whenever the query enters a signal / statistics routine)")


def light(s):
    return (id(s._t), id(s.x), s._t.tobytes(), s.x.tobytes(), s.name, repr(s.kind), repr(s.unit), s.parent, s._dtg_ref)


class Observer:
    def __init__(self, series):
        self.series, self.seen = list(series), None

    def __enter__(self):
        import qats.ts as m
        self.m, self.orig = m, {}
        self.ref = [light(s) for s in self.series]
        for nm in OBS_NAMES:
            f = getattr(m, nm, None)
            if f is not None:
                self.orig[nm] = f
                setattr(m, nm, self._wrap(nm, f))
        return self

    def _wrap(self, nm, f):
        def g(*a, **k):
            if self.seen is None:
                for s, r in zip(self.series, self.ref):
                    now = light(s)
                    if now != r:
                        what = [w for w, p, q in zip(("time array object", "data array object", "time", "data", "name", "kind", "unit",
                                                      "parent", "dtg_ref"), now, r) if p != q]
                        self.seen = "%s differ(s) from the stored state when `%s` is entered" % (", ".join(what), nm)
            return f(*a, **k)
        return g

    def __exit__(self, *exc):
        for nm, f in self.orig.items():
            setattr(self.m, nm, f)
        return False


def query_clauses(ts, method, opts, vs_copy=False):
    """-> list of failing clauses (oracle, expected, observed) of one query on the series object ts"""
    F = []
    kw, arr = resolve_opts(ts, opts)
    watch = [(k, v, pycopy.deepcopy(v)) for k, v in kw.items() if isinstance(v, (list, np.ndarray))]
    arr0 = None if arr is None else arr.copy()
    lst0 = list(kw["resample"]) if isinstance(kw.get("resample"), list) else None
    before = snap(ts)
    ob = Observer([ts])
    try:
        with ob:
            r1 = qcall(ts, method, kw)
        mid = snap(ts)          # (two in-place sign flips cancel: look after the first call as well)
        argmid = [(k, v0, pycopy.deepcopy(v)) for k, v, v0 in watch if not same(v, v0)]
        r2 = qcall(ts, method, kw)
    except Exception as e:      # a query may refuse its options; that is not a matter of this property - but it must not leave traces
        after = snap(ts)
        if after != before:
            F.append(("a query leaves the stored time, data and attributes bit-for-bit unchanged (also when it raises)", "unchanged",
                      "%s changed after %s" % (what_changed(before, after), type(e).__name__)))
        if ob.seen:
            F.append((OBS_ORACLE, "unchanged during the call", ob.seen))
        return F
    after = snap(ts)
    if ob.seen:
        F.append((OBS_ORACLE, "unchanged during the call", ob.seen))
    if mid != before:
        F.append(("a query leaves the stored time, data and attributes bit-for-bit unchanged", "unchanged", what_changed(before, mid)))
    elif after != before:
        F.append(("a query leaves the stored time, data and attributes bit-for-bit unchanged (second call)", "unchanged", what_changed(before, after)))
    if (arr is not None and not np.array_equal(arr, arr0)) or (lst0 is not None and kw["resample"] != lst0):
        F.append(("a query does not modify the caller's resampling array", "unchanged", "changed"))
    if not same(r1, r2):
        F.append(("a repeated query gives the same answer", "equal", "different"))
    for k, v0, v in (argmid or [(k, v0, v) for k, v, v0 in watch if not same(v, v0)]):
        F.append((ARG_ORACLE, "argument `%s` unchanged" % k, "changed from %.60r to %.60r" % (v0, v)))
    obs = readonly_probe_q(ts, method, kw, r1)
    if obs is not None:
        F.append((RO_ORACLE, "same answer, no write", obs))
    for a in arrays_in(r1):
        if np.shares_memory(a, ts._t) or np.shares_memory(a, ts.x):
            F.append(("returned arrays do not alias the stored ones", "no shared memory",
                      "a returned array shares memory with the stored %s" % ("data" if np.shares_memory(a, ts.x) else "time")))
            break
    try:
        r1c = pycopy.deepcopy(r1)
    except Exception:
        r1c = None
    # the caller may do anything with what a query returned
    mine = [v for _, v, _ in watch if isinstance(v, np.ndarray)]
    for a in arrays_in(r1):
        if not any(a is v or np.shares_memory(a, v) for v in mine) and a.flags.writeable and a.dtype.kind == "f" and a.size:
            a *= -1.
            a += 1.
    if snap(ts) != before and after == before:
        F.append(("returned arrays do not alias the stored ones (writing to a returned array leaves the series unchanged)",
                  "unchanged", what_changed(before, snap(ts))))
    if r1c is not None and not F:
        try:
            r4 = qcall(ts, method, kw)
            if not same(r4, r1c):
                F.append(("a repeated query gives the same answer (after the caller has written to the arrays the first one returned)",
                          "equal", "different"))
        except Exception as e:
            F.append(("a repeated query gives the same answer (after the caller has written to the arrays the first one returned)",
                      "equal", "raised %s: %s" % (type(e).__name__, str(e)[:120])))
    if vs_copy and r1c is not None and not F:
        try:
            c = ts.copy()
            if not same(qcall(c, method, kw), r1c):
                F.append(("a copy equals its source in every attribute and array (the same query gives the same answer on both)",
                          "equal answers", "the query answers differently on a copy taken now"))
        except Exception as e:
            F.append(("a copy equals its source in every attribute and array (the same query gives the same answer on both)",
                      "equal answers", "raised %s: %s" % (type(e).__name__, str(e)[:120])))
    return F


def readonly_probe_q(ts, method, kw, r1):
    fl = (ts._t.flags.writeable, ts.x.flags.writeable)
    ts._t.setflags(write=False)
    ts.x.setflags(write=False)
    try:
        r3 = qcall(ts, method, kw)
    except Exception as e:
        return "raised %s: %s" % (type(e).__name__, str(e)[:120])
    finally:
        ts._t.setflags(write=fl[0])
        ts.x.setflags(write=fl[1])
    if not same(r1, r3):
        return "different answer"
    return None


ARG_ORACLE = "a repeated query gives the same answer: a query does not modify the objects passed as its arguments"


def is_alias_common_time(f):
    """known-finding shape: TsDB.create_common_time() without a window hands out the stored time array of the first series"""
    i = f.get("input") or {}
    return i.get("kind") == "query" and i.get("method") == "create_common_time" and "twin" not in (i.get("opts") or {}) and \
        str(f.get("oracle", "")).startswith("returned arrays do not alias the stored ones")


def is_threshold_0d(f):
    """known-finding shape: minima(threshold=<0-d ndarray>) flips the sign of the caller's threshold array in place"""
    i = f.get("input") or {}
    th = (i.get("opts") or {}).get("threshold")
    return i.get("kind") == "query" and "minima" in str(i.get("method")) and isinstance(th, dict) and th.get("as") == "arr0d" and \
        str(f.get("oracle", "")).startswith(("a repeated query gives the same answer", "a copy equals its source", "queries give the same answer"))


MUTATIONS = ["x_inplace", "x_scale", "x_rebind", "set_dtg_ref", "set_dtg_ref_none", "attrs"]


def apply_mutation(ts, o):
    """what a user may do to a series between two queries (not a query: the stored state changes, and the answers with it)"""
    from datetime import datetime
    op = o["op"]
    if op == "x_inplace":
        ts.x[o.get("k", 0) % ts.n] += 1.5
    elif op == "x_scale":
        ts.x *= -2.
    elif op == "x_rebind":
        ts.x = np.array(ts.x[::-1])
    elif op == "set_dtg_ref":
        ts.set_dtg_ref(datetime(2020, 1, 2, 3, 0, 0, 250000))
    elif op == "set_dtg_ref_none":
        ts.set_dtg_ref()
    elif op == "attrs":
        ts.kind, ts.unit, ts.name = "moment", "kNm", "s2"
    else:
        raise ValueError(op)


def check_query_case(inp):
    """kind="query": a fresh series, the steps of the history (answers discarded), then the clauses for the last query"""
    ts, src = build_qseries2(inp["series"])
    src0 = (src[0].tobytes(), src[1].tobytes())
    for m, o in inp.get("history", []):
        try:
            if m == "!mutate":
                apply_mutation(ts, o)
            else:
                qcall(ts, m, resolve_opts(ts, o)[0])
        except Exception:
            pass
    F = query_clauses(ts, inp["method"], inp["opts"], vs_copy=inp.get("vs_copy", False))
    source_clauses(ts, src, src0, F)
    return F


def gen_query_cases(rng, quick, spelled=False):
    """-> list of (method, opts): every boundary value alone x every method, then random combinations; ("!mutate", {...}) is a change of
    the series between two queries. With spelled=True: the other spellings, the other entry points, the methods' own parameters."""
    out = []
    if not spelled:
        singles = [{k: v} for k, vs in BOUNDARY.items() if k != "window" for v in vs]
        singles += [dict(window_len=2, window="hanning"), dict(window_len=1, window="blackman"), dict(taperfrac=0., window_len=1),
                    dict(taperfrac=1., window_len=2), dict(taperfrac=0, window_len=0)]
        for o in singles:
            ms = QMETHODS if not quick else ["get", "minima"] + rng.sample(QMETHODS, 5)
            out += [(m, o) for m in ms]
        for _ in range(150 if quick else 3000):
            ks = rng.sample(sorted(BOUNDARY), rng.randint(2, 4))
            o = {k: rng.choice(BOUNDARY[k]) for k in sorted(ks)}
            if "twin" in o and o.get("resample") == "own-instants-array":
                del o["twin"]            # refused by get (assertion)
            out.append((rng.choice(QMETHODS), o))
        return out
    fast = [m for m in ALLMETHODS if m not in SLOW]
    singles = [{k: v} for k, vs in SPELLED.items() if k != "window" for v in vs]
    singles += [dict(window_len=5, window=w) for w in SPELLED["window"]]
    for o in singles:
        ms = ["get", "minima"] + rng.sample(fast, 2 if quick else 8)
        out += [(m, o) for m in ms]
    for k, vs in MPARAMS.items():
        for v in vs:
            ms = {"threshold": ["maxima", "minima", "maxima_global", "minima_global"], "quantiles": ["stats", "stats_minima"],
                  "statsdur": ["stats", "db.stats"]}[k]
            out += [(m, {k: v}) for m in ms]
    for m in EMETHODS:                                      # every entry point: plain, and with options
        out.append((m, {}))
        for _ in range(2 if quick else 10):
            pools = {k: BOUNDARY[k] + SPELLED[k] for k in BOUNDARY}
            ks = rng.sample(sorted(pools), rng.randint(1, 3))
            out.append((m, {k: rng.choice(pools[k]) for k in sorted(ks)}))
    for _ in range(120 if quick else 2500):
        pools = {k: BOUNDARY[k] + SPELLED[k] for k in BOUNDARY}
        pools.update(MPARAMS)
        ks = rng.sample(sorted(pools), rng.randint(1, 4))
        out.append((rng.choice(fast if rng.random() < 0.97 else list(SLOW)), {k: rng.choice(pools[k]) for k in sorted(ks)}))
    rng.shuffle(out)
    k = 0
    while k < len(out):                                     # the series changes now and then
        k += rng.randint(8, 40)
        out.insert(k, ("!mutate", dict(op=rng.choice(MUTATIONS), k=rng.randrange(1000))))
    return out


def gen_qspecs(rng, quick):
    """series descriptions: the two plain ones, then series built from other kinds of arrays / of other magnitudes / very short ones"""
    specs = [(dict(uniform=u, n=rng.choice([200, 301]), seed=rng.randrange(10 ** 6)), False) for u in (True, False)]
    specs += [(dict(uniform=u, n=rng.choice([200, 301]), seed=rng.randrange(10 ** 6)), True) for u in (True, False)]
    for i in range(4 if quick else 24):
        sp = dict(uniform=rng.random() < 0.6, n=rng.choice([1, 2, 3, 5, 64, 200]) if i % 2 else rng.choice([64, 200]),
                  seed=rng.randrange(10 ** 6), tspell=rng.choice(TSPELL), xspell=rng.choice(TSPELL), xkind=rng.choice(XKIND))
        if rng.random() < 0.5:
            sp["xpow"] = rng.choice([-200, 200, 40])
        if rng.random() < 0.3:
            sp["xoff"] = rng.choice([2. ** 40, -1e15, 1e6])
        if rng.random() < 0.3:
            sp["toff"] = rng.choice([2. ** 30, -1000., 86400. * 365])
        specs.append((sp, True))
    return specs


LONG_SIZES = (999, 1000, 1001, 1023, 1024, 1025, 4095, 4096, 4097, 9999, 10000, 10001, 65535, 65536, 65537, 70001, 131073)
LONG_QUICK = ((1023, 1024, 1025, 4095, 4096, 4097), (9999, 10000, 10001), (65536, 65537, 70001))
LONG_RULE = ("long-records: series of 999 .. 131073 samples (just below / at / above 1000, 1024, 4096, 10000, 65536; uniform / non-uniform; "
             "float64 / float32 / read-only / shared caller arrays) with a history of 12 (quick) .. 60 queries on the same object — get / maxima / "
             "minima / rfc / psd / stats / extremes with and without options first, then drawn from the boundary / spelled option pools and all "
             "entry points, in-place changes of the series in between — every one judged by the clauses of the query stream (stored arrays and "
             "attributes bit-for-bit unchanged, also observed during the call and with read-only stored arrays; no aliasing; repeated answers "
             "equal, also after writing to returned arrays; same answer on a copy taken now); copies (copy(), copy.copy, copy(newname), "
             "TsDB.copy, TsDB.update) of series of those lengths after short histories: equal in every array and attribute, independent")


def gen_long_qspecs(rng, quick):
    sizes = [rng.choice(g) for g in LONG_QUICK] if quick else list(LONG_SIZES) * 2
    specs = []
    for n in sizes:
        sp = dict(uniform=rng.random() < 0.6, n=n, seed=rng.randrange(10 ** 6))
        if rng.random() < 0.4:
            sp.update(tspell=rng.choice(["f8", "view", "readonly", "shared"]), xspell=rng.choice(["f8", "f4", "view", "readonly"]))
        if rng.random() < 0.25:
            sp["xkind"] = "ties"
        specs.append((sp, rng.random() < 0.5))
    return specs


def long_steps(rng, quick, spelled):
    """the history of a long series: the main queries first (plain and with a window / resampling), then steps of the ordinary generator"""
    first = [("get", {}), ("minima", {}), ("maxima", {}), ("rfc", {}), ("psd", {}), ("stats", {}), ("max", {}), ("get", {"twin": "inner"}),
             ("minima", {"twin": "inner"}), ("get", {"resample": "own-dt"})]
    rng.shuffle(first)
    pool = [st for st in gen_query_cases(rng, True, spelled) if st[0] not in SLOW and not (st[0].startswith("funcs.psd") and quick)]
    k = 12 if quick else 60
    rest = rng.sample(pool, min(len(pool), k))
    return first[:6 if quick else 10] + rest[:k - (6 if quick else 10)]


def run_query_cases(chk, long=False):
    rng = chk.rng
    if long and os.environ.get("VERIF_SKIP_LONG"):     # the check as it was before this stream (to compare what each one notices)
        return
    stream = "long-records" if long else "query-boundary"
    for si, (spec, spelled) in enumerate(gen_long_qspecs(rng, chk.quick) if long else gen_qspecs(rng, chk.quick)):
        try:
            ts, src = build_qseries2(spec)
        except Exception as e:
            chk.fail("building a series from the caller's arrays completes without an exception", dict(kind="query", series=spec, history=[],
                     method="get", opts={}), "no exception", repr(e)[:300])
            continue
        src0 = (src[0].tobytes(), src[1].tobytes())
        hist = []
        ref = snap(ts)
        if long:
            steps = long_steps(rng, chk.quick, spelled)
            chk.dist("long record: %d samples" % spec["n"])
        else:
            steps = gen_query_cases(rng, chk.quick, spelled)
            if si >= 4:                     # the special series: a part of the steps each
                steps = steps[:150 if chk.quick else 600]
            chk.dist("series:t=%s/x=%s/%s/n=%s" % (spec.get("tspell", "f8"), spec.get("xspell", "f8"), spec.get("xkind", "plain"),
                                                   "1-5" if spec["n"] <= 5 else "long"))
        fresh = True
        for m, o in steps:
            if m == "!mutate":
                try:
                    apply_mutation(ts, o)
                except Exception:
                    pass
                hist.append([m, o])
                ref, fresh = snap(ts), True
                chk.dist("mutation:" + o["op"])
                continue
            vs_copy = fresh or rng.random() < 0.1
            fresh = False
            chk.count(stream)
            chk.dist("method:" + m)
            for k in o:
                chk.dist("boundary-option:" + k)
            chk.nontriv(repr((spec, m, o)))
            F = []
            try:
                F = query_clauses(ts, m, o, vs_copy=vs_copy)
                if not F and snap(ts) != ref:
                    F = [("a query leaves the stored time, data and attributes bit-for-bit unchanged", "unchanged", what_changed(ref, snap(ts)))]
                source_clauses(ts, src, src0, F)
            except Exception as e:
                tb = traceback.extract_tb(e.__traceback__)
                F.append(("evaluating a query completes without an exception of the harness", "no exception",
                          dict(exception=repr(e)[:300], where=["%s:%d" % (os.path.basename(fr.filename), fr.lineno) for fr in tb[-3:]])))
            if F:
                inp = dict(kind="query", series=spec, history=[], method=m, opts=o, vs_copy=vs_copy)
                try:
                    alone = check_query_case(inp)
                except Exception:
                    alone = []
                if not alone:           # needs the steps made before on the same object
                    inp["history"] = list(hist)
                for oracle, expected, observed in F:
                    chk.fail(oracle, inp, expected, observed)
                ts, src = build_qseries2(spec)              # continue on an unspoilt series
                src0 = (src[0].tobytes(), src[1].tobytes())
                hist, ref, fresh = [], snap(ts), True
            else:
                hist.append([m, o])


# ======================================================================================================================
#  copy cases
# ======================================================================================================================
GRIDS = ["half", "nonuni", "third", "accum", "submicro", "random", "datetime"]
DTGS = ["none", "sec", "usec"]
HOWS = ["copy()", "copy.copy", "copy(newname)", "TsDB.copy", "TsDB.update"]
# further ways of obtaining a copy (same clauses): positional new name, the deep copy of the standard library, a copy of a copy,
# the database methods with the name given as a string / in a list / positionally, a series constructed from the source's arrays
HOWS2 = ["copy('other')", "copy.deepcopy", "copy().copy()", "TsDB.copy(names=str)", "TsDB.copy([name], False)", "TsDB.update(names=[name])",
         "TsDB.copy().copy()", "constructor"]
HIST_OPS = ["dtg_time", "dtg_start", "dtg_end", "get", "get_twin", "get_resample", "get_filter", "stats", "maxima", "minima",
            "psd", "rfc", "mean", "dt", "is_constant_dt", "data"]
# changes of the source before the copy is taken (not queries: the copy must equal the source as it is now)
HIST_MUT = ["!x_inplace", "!x_scale", "!x_rebind", "!set_dtg_ref", "!set_dtg_ref_none", "!attrs"]
TKINDS = ["f8", "i8", "f4", "view", "readonly", "dt64"]       # kind of array the time / data of the source was built from
ATTRS = ["plain", "none", "empty", "mutable", "dt64ref"]      # name / kind / unit / parent / dtg_ref of other sorts
FORMATS = [".ts", ".dat", ".pkl", ".h5"]
# public read-only views of a series; a copy must show the same values as its source
PROPS = ["name", "kind", "unit", "parent", "dtg_ref", "n", "start", "end", "dt", "duration", "dtg_start", "dtg_end", "fullname",
         "is_constant_dt", "dtg_time"]
CACHE = ("_dtg_time",)      # lazily filled cache of dtg_time: compared through the property, not as a raw attribute


def quiet(f, *a, **k):
    with contextlib.redirect_stdout(io.StringIO()):
        return f(*a, **k)


def build_series(spec):
    """deterministic series from its JSON description dict(name, grid, dtg, n, seed)"""
    from qats import TimeSeries
    from datetime import datetime, timedelta
    r = random.Random(spec["seed"])
    n, g = spec["n"], spec["grid"]
    ref = {"none": None, "sec": datetime(2020, 1, 2, 3, 4, 5), "usec": datetime(2021, 6, 7, 8, 9, 10, 123457)}[spec["dtg"]]
    if g == "half":
        t = np.arange(n) * 0.5
    elif g == "nonuni":
        t = np.cumsum(np.array([r.choice([0.25, 0.5, 0.75]) for _ in range(n)]))
    elif g == "third":          # 0.1 s sampling, instants neither dyadic nor whole microseconds
        t = np.linspace(0., 0.1 * (n - 1), n) + 1. / 3.
    elif g == "accum":          # accumulated decimal step (0.30000000000000004 ...)
        t = np.cumsum(np.full(n, 0.1))
    elif g == "submicro":       # offset below the resolution of datetime objects
        t = np.arange(n) * 0.05 + 4.e-7
    elif g == "random":
        t = np.cumsum(np.array([r.uniform(0.05, 0.4) for _ in range(n)])) + r.uniform(0., 100.)
    elif g == "datetime":       # time given as datetime objects
        base = (ref or datetime(2019, 5, 6, 7, 8, 9, 250000)) + timedelta(seconds=5)
        us = np.cumsum([r.randrange(200000, 300000) for _ in range(n)])
        t = np.array([base + timedelta(microseconds=int(u)) for u in us])
    else:
        raise ValueError(g)
    k = np.arange(n)
    x = np.sin(0.3 * k) + 0.5 * np.sin(1.1 * k + 1) + np.array([r.uniform(-0.2, 0.2) for _ in range(n)]) + 5.
    kind, unit, parent = "force", "kN", spec.get("parent", "/some/file.ts")
    # ---- optional: other magnitudes, other kinds of source arrays, other sorts of attribute values
    x = x * 2. ** spec.get("xpow", 0) + spec.get("xoff", 0.)
    tk, xk = spec.get("tkind", "f8"), spec.get("xkind", "f8")
    if g != "datetime":
        t = t + spec.get("toff", 0.)
        if tk == "dt64" and ref is not None:
            t = np.array([np.datetime64(ref) + np.timedelta64(int(round(v * 1e6)), "us") for v in t])
        elif tk in ("i8", "i4"):
            t = spelled_array(np.rint(t * 20.), tk)
        elif tk != "dt64":
            t = spelled_array(t, tk)
    elif tk == "dt64":
        t = t.astype("datetime64[us]")
    x = spelled_array(np.rint(x * 8.) if xk in ("i8", "i4") else x, xk if xk != "dt64" else "f8")
    a = spec.get("attrs", "plain")
    if a == "none":
        kind, unit, parent = None, None, None
    elif a == "empty":
        kind, unit, parent = "", "", ""
    elif a == "mutable":            # attribute values that are themselves mutable objects
        kind, unit = ["force", "axial"], {"symbol": "kN", "factor": 1000.}
    elif a == "dt64ref" and ref is not None:
        ref = np.datetime64(ref)
    return TimeSeries(spec.get("name", "s"), t, x, parent=parent, dtg_ref=ref, kind=kind, unit=unit)


def apply_hist(ts, op):
    """one pure query of the history; the answer is discarded"""
    t = ts.t
    n = t.size
    if op.startswith("!"):
        return apply_mutation(ts, dict(op=op[1:], k=3))
    if op in ("dtg_time", "dtg_start", "dtg_end", "dt", "is_constant_dt", "data"):
        return getattr(ts, op)
    if op == "get":
        return ts.get()
    if op == "get_twin":
        return ts.get(twin=(float(t[n // 5]), float(t[-(n // 5) - 1])))
    if op == "get_resample":
        return ts.get(resample=0.8 * float(np.mean(np.diff(t))))
    if op == "get_filter":
        dt = float(np.mean(np.diff(t)))
        return ts.get(filterargs=("lp", 0.2 / dt), taperfrac=0.1, resample=dt)
    if op == "stats":
        return ts.stats()
    if op == "maxima":
        return ts.maxima(rettime=True)
    if op == "minima":
        return ts.minima(rettime=True, local=True)
    if op == "psd":
        return ts.psd(resample=float(np.mean(np.diff(t))))
    if op == "rfc":
        return ts.rfc()
    if op == "mean":
        return ts.mean()
    raise ValueError(op)


def run_history(ts, ops, F, inp_note=""):
    """apply the queries; stored time / data / attributes (apart from the date-time cache) must stay bit-for-bit the same"""
    before = snap(ts, skip=CACHE)
    raised, changed = [], []
    for op in ops:
        if op.startswith("!"):      # a change made by the user: what follows is compared with the state after it
            after = snap(ts, skip=CACHE)
            if after != before:
                changed += what_changed(before, after)
        try:
            apply_hist(ts, op)
        except Exception as e:      # a query may refuse its options; that is not a matter of this property
            raised.append("%s: %s" % (op, type(e).__name__))
        if op.startswith("!"):
            before = snap(ts, skip=CACHE)
    after = snap(ts, skip=CACHE)
    if after != before:
        changed += what_changed(before, after)
    if changed:
        F.append(("a sequence of queries leaves the stored time, data and attributes bit-for-bit unchanged" + inp_note, "unchanged", changed))
    return raised


def prop_value(ts, p):
    v = getattr(ts, p)
    return v


COPY_QUERIES = [("get()", lambda s, ref: s.get()),
                ("get(twin=(start, end) of the source)", lambda s, ref: s.get(twin=(ref.start, ref.end))),
                ("get(twin=inner window)", lambda s, ref: s.get(twin=(float(ref.t[3]), float(ref.t[-4])))),
                ("stats()", lambda s, ref: s.stats()),
                ("max()", lambda s, ref: s.max())]


def compare_series(a, b, F, tag, newname=False, queries=True):
    """clauses `b (copy) equals a (source) in every attribute and array` and `shares no mutable state`, before any mutation"""
    va, vb = vars(a), vars(b)
    diff = [k for k in va if k not in CACHE and (k not in vb or not same(va[k], vb[k]))]
    diff = [k for k in diff if not (k == "name" and newname)]
    extra = sorted(set(vb) - set(va))
    if diff or extra:
        obs = {}
        for k in diff:
            if isinstance(va[k], np.ndarray) and isinstance(vb.get(k), np.ndarray) and va[k].shape == vb[k].shape and va[k].dtype.kind == "f":
                obs[k] = "max abs deviation %.3e" % float(np.max(np.abs(va[k] - vb[k])))
            else:
                obs[k] = "%.60r vs %.60r" % (va[k], vb.get(k))
        F.append(("a copy equals its source in every attribute and array" + tag, "equal", dict(differ=obs, extra=extra)))
    bad = {}
    for p in PROPS:
        if p == "name" and newname or p == "fullname" and newname:
            continue
        pa, pb = prop_value(a, p), prop_value(b, p)
        if not same(pa, pb):
            bad[p] = "%.50r vs %.50r" % (pa, pb)
    if bad:
        F.append(("a copy equals its source in every attribute and array (public properties)" + tag, "equal", bad))
    if queries:
        badq = []
        for nm, q in COPY_QUERIES:
            try:
                ra = q(a, a)
            except Exception:
                continue                # the query is refused on the source: nothing to compare
            rb = q(b, a)
            if not same(ra, rb):
                badq.append(nm)
        if badq:
            F.append(("a copy equals its source in every attribute and array (the same query gives the same answer on both)" + tag,
                      "equal answers", badq))
    if a is b:
        F.append(("a copy shares no mutable state with its source" + tag, "distinct objects", "the very same TimeSeries object"))
        return
    if np.shares_memory(a.t, b.t) or np.shares_memory(a.x, b.x):
        F.append(("a copy shares no mutable state with its source" + tag, "independent arrays", "shared memory"))
    shared = [k for k, v in vb.items() if isinstance(v, (np.ndarray, list, dict)) and v is va.get(k)]
    if shared:
        F.append(("a copy shares no mutable state with its source (mutable attribute objects are not shared)" + tag,
                  "distinct objects", shared))


def mutate_and_watch(a, b, F, tag):
    """modify the copy b in every way a user can; the source a must not notice"""
    from datetime import datetime
    if a is b:
        return
    before = snap(a)
    b.x[0] += 1.0
    b.x *= 10.
    b._t[0] -= 1.0
    b.kind = "changed"
    b.unit = "changed"
    if getattr(b, "_dtg_time", None) is not None:
        b._dtg_time[0] = datetime(1999, 1, 1)
    try:
        b.modify(twin=(float(b.t[2]), float(b.t[-3])))
    except Exception:
        pass
    after = snap(a)
    if after != before:
        what = [k for k in ("t", "x", "tid", "xid") if after[k] != before[k]] + \
               [k for k in before["attrs"] if after["attrs"].get(k) != before["attrs"][k]]
        F.append(("a copy shares no mutable state with its source (modifying the copy leaves the source unchanged)" + tag,
                  "source unchanged", what))


def check_copy_case(inp):
    """-> list of failing clauses (oracle, expected, observed) for a kind="copy" case"""
    from qats import TimeSeries, TsDB
    F = []
    how = inp["how"]
    ts = build_series(inp["series"])
    nm = inp["series"].get("name", "s")
    db = None
    if how.startswith("TsDB"):
        db = TsDB()
        db.add(ts)
        ts = db.get(name=nm)
    run_history(ts, inp["history"], F)
    nm = ts.name                    # (the history may have renamed the series object; the database key stays)
    key = None if db is None else db.register_keys[0]
    newname = False
    if how == "copy()":
        c = ts.copy()
    elif how == "copy.copy":
        c = pycopy.copy(ts)
    elif how == "copy(newname)":
        c, newname = ts.copy(newname="other"), True
    elif how == "copy('other')":
        c, newname = ts.copy("other"), True
    elif how == "copy.deepcopy":
        c = pycopy.deepcopy(ts)
    elif how == "copy().copy()":
        first = ts.copy()
        c = first.copy()
        mutate_and_watch(c, first, [], "")          # the intermediate copy is then modified: neither end may notice
    elif how == "constructor":      # the arrays of a series handed to the constructor
        c = TimeSeries(ts.name, ts.t, ts.x, parent=ts.parent, dtg_ref=ts.dtg_ref, kind=pycopy.copy(ts.kind), unit=pycopy.copy(ts.unit))
    elif how == "TsDB.copy":
        c = db.copy().register[key]
    elif how == "TsDB.update":
        u = TsDB()
        u.update(db)
        c = u.register[key]
    elif how == "TsDB.copy(names=str)":
        c = db.copy(names=inp["series"].get("name", "s")).register[key]
    elif how == "TsDB.copy([name], False)":
        c = db.copy([inp["series"].get("name", "s")], False).register[key]
    elif how == "TsDB.update(names=[name])":
        u = TsDB()
        u.add(TimeSeries("zz_already_there", np.arange(3.), np.arange(3.)))
        u.update(db, names=[inp["series"].get("name", "s")])
        c = u.register[key]
    elif how == "TsDB.copy().copy()":
        c = db.copy().copy().register[key]
    else:
        raise ValueError(how)
    compare_series(ts, c, F, "", newname=newname)
    if inp.get("twice"):            # a second copy of the same source: equal to it as well, independent of the first copy
        c2 = pycopy.copy(ts) if how == "copy.copy" else ts.copy()
        compare_series(ts, c2, F, " [second copy]", queries=False)
        if c2 is not c and (np.shares_memory(c2.t, c.t) or np.shares_memory(c2.x, c.x)):
            F.append(("a copy shares no mutable state with its source [two copies of one source]", "independent arrays", "shared memory"))
        mutate_and_watch(ts, c, F, "")
        compare_series(ts, c2, F, " [second copy, after the first was modified]", queries=False)
    else:
        mutate_and_watch(ts, c, F, "")
    if inp.get("reverse") and c is not ts:      # ... and the other way round: what is done to the source does not reach a copy
        c3 = ts.copy()
        mutate_and_watch(c3, ts, F, " [the source is modified, the copy watched]")
    return F


# ======================================================================================================================
#  database cases
# ======================================================================================================================
def build_db(inp, root):
    """file-backed database of the case: -> (db, {name: path or None})"""
    from qats import TimeSeries, TsDB
    paths, where = [], {}
    for i, f in enumerate(inp["files"]):
        r = random.Random(inp["seed"] * 100 + i)
        n = f["n"]
        t = {"half": np.arange(n) * 0.5, "third": np.linspace(0., 0.1 * (n - 1), n) + 1. / 3.}[f["grid"]]
        src = TsDB()
        for nm in f["names"]:
            src.add(TimeSeries(nm, t, np.sin(r.uniform(0.1, 0.5) * t) + r.uniform(1., 5.) + np.array([r.uniform(-.1, .1) for _ in range(n)])))
        path = os.path.join(root, "f%d%s" % (i, f["fmt"]))
        quiet(src.export, path, names="*")
        if inp.get("rel"):          # the files are named relative to the working directory (which is `root` during the case)
            path = os.path.basename(path) if inp["rel"] == "bare" else os.path.join(".", os.path.basename(path))
        paths.append(path)
        for nm in f["names"]:
            where[nm] = path
    db = TsDB()
    if paths:
        quiet(db.load, paths, read=False)
    for spec in inp["mem"]:
        db.add(build_series(spec))
        where[spec["name"]] = None
    return db, where


def key_of(db, nm):
    ks = [k for k in db.register_keys if k.replace("\\", "/").split("/")[-1] == nm]
    assert len(ks) == 1, (nm, db.register_keys)
    return ks[0]


def check_db_case(inp):
    """-> list of failing clauses for a kind="db" case"""
    root = tempfile.mkdtemp(prefix="qv10_")
    cwd = os.getcwd()
    try:
        if inp.get("rel"):
            os.chdir(root)
        return _check_db_case(inp, root)
    finally:
        os.chdir(cwd)
        shutil.rmtree(root, ignore_errors=True)


def _check_db_case(inp, root):
    from qats import TimeSeries, TsDB
    F = []
    db, where = build_db(inp, root)
    for nm in inp["preload"]:
        quiet(db.get, name=nm)
    for nm, ops in inp["history"].items():
        run_history(quiet(db.get, name=nm), ops, F, " (series %s)" % nm)
    changed = list(inp.get("mutate", []))
    for nm in list(changed):              # the user changes series held by the database (in place, and by assignment)
        s_ = quiet(db.get, name=nm)
        s_.x[0] += 1.
        s_.x *= 3.
        s_.kind, s_.unit = "changed-before", "cb"
    changed += [nm for nm, ops in inp["history"].items() if any(op.startswith("!") for op in ops)]
    unread = [nm for nm in where if db.register[key_of(db, nm)] is None]
    shallow, select = inp["shallow"], inp["select"]
    expected_keys = list(db.register_keys) if select is None else [key_of(db, nm) for nm in select]
    keys0 = list(db.register_keys)
    sel = select
    if select is not None:
        how_sel = inp.get("select_as", "list")
        sel = tuple(select) if how_sel == "tuple" else select[0] if (how_sel == "str" and len(select) == 1) else list(select)
    if inp["how"] == "copy":
        other = quiet(db.copy, sel, shallow) if inp.get("positional") else quiet(db.copy, names=sel, shallow=shallow)
    else:
        other = TsDB()
        if inp.get("positional"):
            quiet(other.update, db, sel, shallow)
        else:
            quiet(other.update, db, names=sel, shallow=shallow)
    if inp.get("gen2"):             # the copy is copied again (the first copy is then changed)
        first = other
        other = quiet(first.copy, shallow=shallow)
        if not shallow:
            for k in list(first.register):
                if first.register[k] is not None:
                    first.register[k].x *= 0.
            first.register.clear()
            del first.register_keys[:]
    word = "shallow" if shallow else "deep"
    if sorted(other.register_keys) != sorted(expected_keys) or sorted(other.register.keys()) != sorted(expected_keys) or \
            (select is None and list(other.register_keys) != expected_keys):
        F.append(("a database copy/update holds the selected keys", expected_keys, list(other.register_keys)))
        return F
    if list(db.register_keys) != keys0:
        F.append(("copying a database leaves the keys of the source unchanged", keys0, list(db.register_keys)))
    for cont in ("register", "register_keys", "register_parent", "register_indices"):
        if getattr(other, cont) is getattr(db, cont):
            F.append(("a %s database copy or update shares %s with its source" % (word, "exactly the series objects" if shallow else "no mutable state"),
                      "distinct containers", "the container `%s` is shared" % cont))
    pairs = []
    for k in expected_keys:
        nm = k.replace("\\", "/").split("/")[-1]
        tag = " [series %s, %s when copied]" % (nm, "in memory" if where[nm] is None else ("not yet read" if nm in unread else "preloaded"))
        b = other.register[k]
        if b is None:
            b = quiet(other.get, name=nm)
        a = quiet(db.get, name=nm)
        if shallow:
            if a is not b:
                F.append(("a shallow database copy or update shares exactly the series objects" + tag, "same object", "different object"))
            continue
        if a is b:
            F.append(("a deep database copy shares no mutable state with its source" + tag, "independent series objects",
                      "source.get(%r) is copy.get(%r)" % (nm, nm)))
            continue
        pairs.append((nm, a, b))
    # a deep copy shares no array with the source - neither with the series of the same name nor with any other one; the series of
    # one database do not share arrays among themselves either (each has its own: the constructor copies)
    objs = [("source." + nm, a) for nm, a, _ in pairs] + [("copy." + nm, b) for nm, _, b in pairs]
    for i, (na, a) in enumerate(objs):
        for nb, b in objs[i + 1:]:
            if a is not b and any(np.shares_memory(p, q) for p in (a._t, a.x) for q in (b._t, b.x)):
                if na.split(".")[0] != nb.split(".")[0]:
                    F.append(("a deep database copy shares no mutable state with its source", "no shared memory", "%s and %s share an array" % (na, nb)))
                else:
                    F.append((OWN_ORACLE, "no shared memory", "%s and %s share an array" % (na, nb)))
    for nm, a, b in pairs:
        tag = " [series %s, %s when copied]" % (nm, "in memory" if where[nm] is None else ("not yet read" if nm in unread else "preloaded"))
        compare_series(a, b, F, tag)
        mutate_and_watch(a, b, F, tag)
        if where[nm] is not None and nm not in changed:
            fresh = quiet(lambda: TsDB.fromfile(where[nm]).get(name=nm))
            if not (same(fresh.t, a.t) and same(fresh.x, a.x)):
                F.append(("a deep database copy shares no mutable state with its source (after modifying the copy the source still "
                          "equals the file)" + tag, "source equals file", "source differs from file"))
    # the containers are independent: a series added to the copy is not added to the source
    n0 = len(db.register_keys)
    other.add(TimeSeries("zz_added_to_copy", np.arange(4.), np.arange(4.)))
    if len(db.register_keys) != n0 or any(k.endswith("zz_added_to_copy") for k in db.register):
        F.append(("a %s database copy or update shares only series objects (adding to the copy leaves the source alone)" % word,
                  "%d keys in source" % n0, "%d keys" % len(db.register_keys)))
    return F


# ======================================================================================================================
#  the computations behind the GUI, sequentially and in real threads
# ======================================================================================================================
# (time window, filter arguments, nperseg, normalize, nbins, minima) as the GUI's settings may give them
GUI_CONFIGS = [dict(twin=(50.0, 700.0), fargs=("lp", 0.3), nperseg=256, normalize=False, nbins=32, minima=False),
               dict(twin=None, fargs=None, nperseg=100000, normalize=True, nbins=None, minima=True),
               dict(twin=(0, 1e12), fargs=["hp", 0.05], nperseg=64, normalize=False, nbins=8, minima=False)]


def check_gui_case(inp):
    """kind="gui": the computations of qats.app.funcs on one container of series: twice in a row, then together in threads"""
    from qats.app import funcs
    F = []
    cf = GUI_CONFIGS[inp["config"]]
    series = {"a": make_series(random.Random(inp["seeds"][0]), True, n=2000), "b": make_series(random.Random(inp["seeds"][1]), False, n=1500)}
    befores = {k: snap(v) for k, v in series.items()}           # before anything is computed
    twin, fargs = cf["twin"], cf["fargs"]
    jobs = [("psd", lambda: funcs.calculate_psd(series, twin, fargs, cf["nperseg"], cf["normalize"])),
            ("rfc", lambda: funcs.calculate_rfc(series, twin, fargs, cf["nbins"])),
            ("trace", lambda: funcs.calculate_trace(series, twin, fargs)),
            ("stats", lambda: funcs.calculate_stats(series, twin, fargs, cf["minima"])),
            ("gumbel", lambda: funcs.calculate_gumbel_fit(series, twin, fargs, cf["minima"]))]
    fargs0 = pycopy.deepcopy(fargs)

    def unchanged(when):
        bad = [k for k, v in series.items() if snap(v) != befores[k]]
        if bad:
            F.append(("the GUI computations leave the shared series unchanged", "unchanged", "series %s changed %s" % (bad, when)))
        return not bad
    seq = {}
    for nm, f in jobs:          # first use of the series objects, looked at while the computation runs
        ob = Observer(series.values())
        try:
            with ob:
                seq[nm] = f()
        except Exception as e:
            F.append(("the GUI computations run on the series without error", "no error", "%s: %r" % (nm, e)))
        if ob.seen:
            F.append((OBS_ORACLE, "unchanged during the computation `%s`" % nm, ob.seen))
        if not unchanged("by the computation `%s`" % nm):
            return F
    for nm, f in jobs:          # second use
        if nm in seq:
            try:
                if not same(f(), seq[nm]):
                    F.append(("a repeated GUI computation gives the same answer", "equal", "`%s` differs the second time" % nm))
            except Exception as e:
                F.append(("a repeated GUI computation gives the same answer", "equal", "%s: %r" % (nm, e)))
    if fargs != fargs0:
        F.append(("the GUI computations do not modify their arguments", fargs0, fargs))
    if not unchanged("by the second run") or F:
        return F
    for r in range(inp["rounds"]):
        out, errs = {}, []

        def work(nm, f):
            try:
                out[nm] = f()
            except Exception as e:
                errs.append((nm, repr(e)))
        order = jobs[:]
        random.Random(inp["seeds"][0] + r).shuffle(order)
        th = [threading.Thread(target=work, args=j) for j in order]
        for t_ in th:
            t_.start()
        for t_ in th:
            t_.join()
        if errs:
            F.append(("the four GUI computations run concurrently on the same series without error", "no error", "round %d: %s" % (r, errs)))
        for nm in seq:
            if nm in out and not same(out[nm], seq[nm]):
                F.append(("concurrent and sequential execution of the GUI computations give the same answer", "equal",
                          "round %d: `%s` differs" % (r, nm)))
        if not unchanged("in round %d of the threads" % r) or F:
            break
    return F


# ======================================================================================================================
#  retrieval histories on one database with rejected calls in between (kind="dbq"); every call runs under a time limit
# ======================================================================================================================
# A retrieval that is rejected (index out of range, names / index / name of a wrong type, unknown or ambiguous name, refused option,
# parent file missing when a series is to be read, ...) or a rejected change of the database (duplicate key, rename onto an existing
# key, export onto an existing file, ...) must leave the database as it was: the retrievals made before give the same answer when
# they are repeated afterwards on the same object - and they do give an answer. Every call on the database is made in a worker thread
# with a time limit (a call that never returns must not block the check).
TIME_LIMIT = (3., 6.)       # seconds: a call that is not back after the first gets the second on top before it is said to hang
RETURNS_ORACLE = ("a retrieval gives the same answer when repeated (also after an earlier call on the same database was rejected): "
                  "the repeated retrieval returns")
AGAIN_ORACLE = "a retrieval gives the same answer when repeated on the same database (also after an earlier call on it was rejected)"
TWIN_ORACLE = ("a retrieval gives the same answer when repeated: the same as on a second database loaded from the same files on which no "
               "call was rejected")
KEEP_ORACLE = "retrievals (also rejected ones) leave the stored series and the keys of the database unchanged"


def guarded(f, *a, limit=TIME_LIMIT, **k):
    """f(*a, **k) in a worker thread -> ("ok", value) | ("raised", exception) | ("hangs", None)"""
    out = {}

    def work():
        try:
            out["ok"] = f(*a, **k)
        except BaseException as e:      # noqa
            out["raised"] = e
    th = threading.Thread(target=work, daemon=True)
    th.start()
    th.join(limit[0])
    if th.is_alive():
        th.join(limit[1])
    if th.is_alive():
        return "hangs", None
    if "raised" in out:
        return "raised", out["raised"]
    return "ok", out.get("ok")


def canon(v):
    """answer of a retrieval as plain data (series by value), comparable with `same`"""
    if type(v).__name__ == "TimeSeries":
        return ["TimeSeries", v.name, np.array(v.t), np.array(v.x), v.parent, freeze(v.kind), freeze(v.unit), v.dtg_ref]
    if type(v).__name__ == "TsDB":
        return ["TsDB", list(v.register_keys), [canon(v.register[k_]) for k_ in v.register_keys]]
    if isinstance(v, dict):
        return [[k_, canon(x)] for k_, x in v.items()]
    if isinstance(v, (list, tuple)):
        return [canon(x) for x in v]
    if isinstance(v, np.ndarray):
        return np.array(v)
    return v


DBQ_MULTI = ["getm", "getd", "getl", "getda", "stats", "stats_dataframe", "list", "copy", "update-from"]
DBQ_SINGLE = ["get", "geta"]
DBQ_OPTS = [{}, {"twin": "inner"}, {"resample": "own-dt"}, {"resample": 0.4}, {"twin": "inner", "resample": 0.4}, {"taperfrac": 0.1},
            {"resample": {"v": "inner-grid", "as": "ndarray"}}, {"resample": {"v": "inner-grid", "as": "list"}},
            {"filterargs": ["lp", 0.2], "resample": "own-dt"}, {"window_len": 3}, {"twin": "whole"}, {"twin": {"v": "inner", "as": "list"}}]
DBQ_BADOPTS = [{"twin": "abc"}, {"resample": "x"}, {"resample": -1.0}, {"resample": 0}, {"filterargs": ["xx", 0.2]}, {"filterargs": ["lp"]},
               {"window_len": "a"}, {"nosuch": 1}, {"twin": [1e9, 2e9], "resample": 0.1}, {"window": "nosuch", "window_len": 5},
               {"taperfrac": "a"}, {"twin": [3]}, {"resample": [1e9, 2e9]}]
DBQ_BADVALS = {"float": 3.14, "int": 5, "bytes": b"a0", "set": None, "dict": {"a0": 1}, "object": None, "str-index": "0",
               "float-index": 1.5, "list-float": [0.5], "list-none": [None], "bool": True}
DBQ_FAULTS = ["ind-range", "ind-type", "names-type", "names-and-ind", "get-nothing", "get-name-type", "get-unknown", "get-ambiguous",
              "bad-option", "missing-file", "rename-existing", "rename-unknown", "add-duplicate", "add-type", "update-type",
              "update-duplicate", "load-missing", "load-type", "export-exists", "export-ext", "export-type", "dataframe-not-common",
              "contains-type"]


SKIPPED = "(not applicable to this database: call not made)"
DBQ_CHANGES = ("rename-existing", "rename-unknown", "add-duplicate", "add-type", "update-type", "update-duplicate", "load-missing", "load-type")


def _badval(kind):
    if kind == "set":
        return {"a0"}
    if kind == "object":
        return object()
    return DBQ_BADVALS[kind]


def _sel(a):
    """the `names` argument of a step: None / str / list / tuple"""
    s_ = a.get("names")
    if isinstance(s_, list) and a.get("names_as") == "tuple":
        return tuple(s_)
    return s_


def direct(f, *a, **k):
    """(the worker threads do not redirect the standard output themselves - that is not thread-safe; the whole case is run quietly)"""
    return f(*a, **k)


def _opts_for(ref, names, opts):
    """symbolic processing options -> keyword arguments, resolved against the first selected series of the reference database"""
    if not opts:
        return {}
    got = direct(ref.getl, names=names)
    if not got:
        return {}
    return resolve_opts(got[0], opts)[0]


def dbq_call(db, op, a, ref):
    """one retrieval on the database db"""
    from qats import TsDB
    kw = {}
    if "ind" in a:
        kw["ind"] = a["ind"]
    elif op in DBQ_SINGLE:
        kw["name"] = a["name"]
    elif op not in ("iter", "len", "common", "contains"):
        kw["names"] = _sel(a)
    if "store" in a and op not in ("list", "copy", "update-from", "is_common_time"):
        kw["store"] = a["store"]
    if a.get("fullkey") and op in ("getm", "getd", "getda", "stats", "stats_dataframe"):
        kw["fullkey"] = True
    if a.get("opts"):
        first = a["name"] if op in DBQ_SINGLE and "name" in a else (_sel(a) if "ind" not in a else None)
        if "ind" in a:
            i_ = a["ind"] if isinstance(a["ind"], int) else a["ind"][0]
            first = ref.register_keys[i_]
        kw.update(_opts_for(ref, first, a["opts"]))
    if op in ("getm", "getd", "getl", "getda", "get", "geta", "stats", "stats_dataframe"):
        return direct(getattr(db, op), **kw)
    if op == "list":
        return direct(db.list, names=kw["names"], display=False, relative=bool(a.get("relative")))
    if op == "copy":
        return direct(db.copy, names=kw["names"], shallow=bool(a.get("shallow")))
    if op == "update-from":
        other = TsDB()
        direct(other.update, db, names=kw["names"], shallow=bool(a.get("shallow")))
        return other
    if op == "is_common_time":
        return direct(db.is_common_time, names=kw["names"])
    if op == "iter":
        return list(db)
    if op == "len":
        return (len(db), db.n, db.common)
    if op == "contains":
        return a["name"] in db
    raise ValueError(op)


def dbq_fault(db, a, ctx):
    """one call that the database is expected to reject (the exception propagates; if the call is accepted, its value is returned)"""
    from qats import TimeSeries, TsDB
    what, via = a["what"], a.get("via", "getm")
    n = len(db.register_keys)
    nm = a.get("name")

    def multi(**kw):
        if via == "copy":
            return direct(db.copy, **{k: v for k, v in kw.items() if k == "names"})
        if via == "update-from":
            return direct(TsDB().update, db, **{k: v for k, v in kw.items() if k == "names"})
        if via == "list":
            return direct(db.list, display=False, **{k: v for k, v in kw.items() if k == "names"})
        if via in DBQ_SINGLE:
            kw = {("name" if k == "names" else k): v for k, v in kw.items()}
        return direct(getattr(db, via), **kw)
    if what == "ind-range":
        ind = {"n": n, "n+5": n + 5, "[0,n]": [0, n], "-n-1": -n - 1, "[n+1]": [n + 1]}[a["ind"]]
        if via in DBQ_SINGLE and isinstance(ind, list):
            ind = ind[-1]
        return multi(ind=ind)
    if what == "ind-type":
        return multi(ind=_badval(a["bad"]))
    if what == "names-type":
        return multi(names=_badval(a["bad"]))
    if what == "names-and-ind":
        return multi(names=nm, ind=0)
    if what == "get-nothing":
        return direct(getattr(db, via if via in DBQ_SINGLE else "get"))
    if what == "get-name-type":
        return direct(getattr(db, via if via in DBQ_SINGLE else "get"), name=_badval(a["bad"]))
    if what == "get-unknown":
        return direct(getattr(db, via if via in DBQ_SINGLE else "get"), name="no_such_series")
    if what == "get-ambiguous":
        return direct(getattr(db, via if via in DBQ_SINGLE else "get"), name="*")
    if what == "bad-option":
        bad = {k: (tuple(v) if k in ("filterargs", "twin") else v) for k, v in a["opts"].items()}
        if via == "geta":
            return direct(db.geta, name=nm, **bad)
        return direct(getattr(db, via if via in ("getda", "stats", "stats_dataframe", "to_dataframe") else "getda"), names=nm, **bad)
    if what == "missing-file":          # the parent file is away while the series is asked for
        unread = [n_ for n_, p_ in ctx["where"].items() if p_ is not None and db.register.get(key_of(db, n_)) is None]
        if ctx["where"].get(nm) is None or nm not in unread:        # (held in memory already: take one that is still to be read)
            if not unread:
                return SKIPPED
            nm = unread[0]
        path = ctx["where"][nm]
        shutil.move(path, path + ".away")
        try:
            return multi(names=nm)
        finally:
            shutil.move(path + ".away", path)
    if what == "rename-existing":
        if os.path.join(db._path_dirname(key_of(db, nm)), a["other"]) not in db.register_keys:
            return SKIPPED
        return direct(db.rename, nm, a["other"])
    if what == "rename-unknown":
        return direct(db.rename, "no_such_series", "x")
    if what == "add-duplicate":         # a series whose key exists already
        if os.path.join(db.common, nm) not in db.register:
            return SKIPPED
        return db.add(TimeSeries(nm, np.arange(3.), np.arange(3.)))
    if what == "add-type":
        return db.add((np.arange(3.), np.arange(3.)))
    if what == "update-type":
        return db.update({nm: None})
    if what == "update-duplicate":      # the database is updated from a copy of itself: every key exists already
        return direct(db.update, direct(db.copy, names=nm))
    if what == "load-missing":
        return direct(db.load, os.path.join(ctx["root"], "no_such_file.ts"))
    if what == "load-type":
        return direct(db.load, 3.14)
    if what == "export-exists":
        path = os.path.join(ctx["root"], "exists_already.ts")
        open(path, "w").close()
        return direct(db.export, path, names=nm, exist_ok=False)
    if what == "export-ext":
        return direct(db.export, os.path.join(ctx["root"], "out.no_such_format"), names=nm)
    if what == "export-type":
        return direct(db.export, 3.14, names=nm)
    if what == "dataframe-not-common":
        other = TimeSeries("zz_other_grid", np.arange(5.) * 0.37 + 0.11, np.arange(5.))
        tmp = direct(db.copy, names=nm, shallow=True)
        tmp.add(other)
        return direct(tmp.to_dataframe)
    if what == "contains-type":
        return 3.14 in db
    raise ValueError(what)


def _db_state(db):
    """keys and the series held in memory (by value)"""
    held = {k_: (light(v), v) for k_, v in db.register.items() if v is not None}
    return (list(db.register_keys), dict(db.register_parent), dict(db.register_indices)), held


def check_dbq_case(inp, info=None, limit=TIME_LIMIT):
    root = tempfile.mkdtemp(prefix="qv10q_")
    cwd = os.getcwd()
    try:
        if inp.get("rel"):
            os.chdir(root)
        with contextlib.redirect_stdout(io.StringIO()):
            return _check_dbq_case(inp, root, info if info is not None else {}, limit)
    finally:
        os.chdir(cwd)
        shutil.rmtree(root, ignore_errors=True)


def _check_dbq_case(inp, root, info, limit):
    from qats import TsDB
    F = []
    db, where = build_db(inp, root)
    paths = []
    for f in inp["files"]:
        if where[f["names"][0]] not in paths:
            paths.append(where[f["names"][0]])
    ref = TsDB()                                        # the same files and in-memory series; nothing is ever rejected on it
    if paths:
        quiet(ref.load, paths, read=False)
    for spec in inp["mem"]:
        ref.add(build_series(spec))
    ctx = dict(root=root, where={nm: (None if p is None else os.path.abspath(p)) for nm, p in where.items()})
    for nm in inp.get("preload", []):
        st, _ = guarded(db.get, name=nm, limit=limit)
        if st == "hangs":
            F.append((RETURNS_ORACLE, "get(name=%r) returns" % nm, "no answer within %.0f s" % sum(limit)))
            info["cut"] = -1
            return F
    keys0, held = _db_state(db)
    expected, first = {}, {}
    info["faults"] = []
    rejected = []               # the rejected calls so far (for the message)
    for k, (op, a) in enumerate(inp["steps"]):
        if op == "!fault":
            st, v = guarded(dbq_fault, db, a, ctx, limit=limit)
            info["faults"].append((a["what"], type(v).__name__ if st == "raised" else "not-applicable" if (isinstance(v, str) and v == SKIPPED) else st))
            if st == "hangs":
                F.append((RETURNS_ORACLE[:-len("the repeated retrieval returns")] + "the rejected call itself returns", "an exception or an answer",
                          "step %d %r: no answer within %.0f s" % (k, a, sum(limit))))
                info["cut"] = k
                return F
            if st == "raised":
                rejected.append("%s (%s)" % (a["what"], type(v).__name__))
            elif a["what"] in DBQ_CHANGES and not (isinstance(v, str) and v == SKIPPED):
                return F        # (the change was accepted: the database is another one now - not a matter of this property)
        elif op == "par":       # several retrievals at the same time
            subs = [(o2, a2, json_key(o2, a2)) for o2, a2 in a]
            for o2, a2, key in subs:
                if key not in expected:
                    st, v = guarded(dbq_call, ref, o2, a2, ref, limit=limit)
                    expected[key] = (st, canon(v) if st == "ok" else v)
            outs = {}

            def together():
                ths = [threading.Thread(target=lambda i=i, o2=o2, a2=a2: outs.__setitem__(i, guarded(dbq_call, db, o2, a2, ref, limit=limit)),
                                        daemon=True) for i, (o2, a2, _) in enumerate(subs)]
                for t_ in ths:
                    t_.start()
                for t_ in ths:
                    t_.join()
            together()
            for i, (o2, a2, key) in enumerate(subs):
                st, v = outs.get(i, ("hangs", None))
                if st == "hangs":
                    F.append((RETURNS_ORACLE, "%s(%s) returns (asked together with %d other retrievals)" % (o2, a2, len(subs) - 1),
                              "step %d: no answer within %.0f s; rejected before: %s" % (k, sum(limit), rejected or "nothing")))
                    info["cut"] = k
                    return F
                est, ev = expected[key]
                if est == "ok" and (st != "ok" or not same(canon(v), ev)):
                    F.append(("retrievals give the same answer when run concurrently on the same database", "as when asked alone",
                              "step %d: %s(%s) %s" % (k, o2, a2, "raised %r" % v if st != "ok" else "differs")))
        else:
            key = json_key(op, a)
            if key not in expected:
                st, v = guarded(dbq_call, ref, op, a, ref, limit=limit)
                if st == "hangs":
                    F.append((RETURNS_ORACLE, "%s(%s) returns" % (op, a), "step %d: no answer within %.0f s on the second database" % (k, sum(limit))))
                    info["cut"] = k
                    return F
                expected[key] = (st, canon(v) if st == "ok" else v)
            st, raw = guarded(dbq_call, db, op, a, ref, limit=limit)
            if st == "hangs":
                F.append((RETURNS_ORACLE, "%s(%s) returns" % (op, a),
                          "step %d: no answer within %.0f s; rejected before: %s" % (k, sum(limit), rejected or "nothing")))
                info["cut"] = k
                return F
            est, ev = expected[key]
            if st == "raised":
                if est == "ok":
                    F.append((TWIN_ORACLE, "an answer", "step %d: %s(%s) raised %s: %s; rejected before: %s" % (
                        k, op, a, type(raw).__name__, str(raw)[:100], rejected or "nothing")))
                if key in first and first[key][0] == "ok":
                    F.append((AGAIN_ORACLE, "an answer as the first time", "step %d: %s(%s) raised %s: %s; rejected before: %s" % (
                        k, op, a, type(raw).__name__, str(raw)[:100], rejected or "nothing")))
            else:
                c = canon(raw)
                if est == "ok" and not same(c, ev):
                    F.append((TWIN_ORACLE, "equal", "step %d: %s(%s) differs; rejected before: %s" % (k, op, a, rejected or "nothing")))
                if key in first and first[key][0] == "ok" and not same(c, first[key][1]):
                    F.append((AGAIN_ORACLE, "equal", "step %d: %s(%s) differs from its first answer; rejected before: %s" % (
                        k, op, a, rejected or "nothing")))
                if op in ("geta", "getda", "stats", "stats_dataframe"):
                    stored = [s_ for s_ in db.register.values() if s_ is not None]
                    if any(np.shares_memory(r_, q) for r_ in arrays_in(raw) for s_ in stored for q in (s_._t, s_.x)):
                        F.append(("returned arrays do not alias the stored ones", "no shared memory",
                                  "step %d: %s(%s) returned an array that shares memory with a stored series" % (k, op, a)))
            first.setdefault(key, (st, canon(raw) if st == "ok" else raw))
        # ---- the database after the step: same keys; the series held in memory are the same objects with the same content
        keys1, held1 = _db_state(db)
        if keys1 != keys0:
            F.append((KEEP_ORACLE, "keys, parents and indices as before", "step %d %s(%s): the registers changed" % (k, op, a)))
        for k_, (l0, obj) in held.items():
            if held1.get(k_, (None, None))[0] != l0:
                F.append((KEEP_ORACLE, "stored series as before", "step %d %s(%s): the series held for key %r changed" % (k, op, a, os.path.basename(k_))))
        for k_, v in held1.items():
            held.setdefault(k_, v)
        if F:
            info["cut"] = k
            return F
    return F


def json_key(op, a):
    import json
    return json.dumps([op, a], sort_keys=True, default=str)


def gen_dbq_cases(rng, quick):
    cases = []
    N = 26 if quick else 300
    for i in range(N):
        nfiles = 1 + (i % 2) if i < 8 else rng.choice([0, 1, 1, 1, 2])
        files, names = [], []
        for f in range(nfiles):
            nms = ["%s%d" % ("ab"[f], j) for j in range(rng.randint(2, 4))]
            files.append(dict(fmt=FORMATS[(i + f) % 4] if i < 8 else rng.choice(FORMATS), names=nms, grid=rng.choice(["half", "third"]),
                              n=rng.choice([30, 60])))
            names += nms
        mem = [dict(name="m%d" % j, grid=rng.choice(["half", "nonuni", "third", "random"]), dtg=rng.choice(DTGS), n=rng.choice([30, 60]),
                    seed=2000 + i * 10 + j, parent=None) for j in range(rng.choice([0, 1, 1, 2]) if nfiles else rng.randint(2, 3))]
        allnames = names + [m["name"] for m in mem]
        mode = i % 3 if i < 8 else rng.randrange(3)          # series read before the history starts: none / some / all
        pre = [] if mode == 0 else list(names) if mode == 2 else [nm for nm in names if rng.random() < 0.5]

        def selection():
            c = rng.random()
            if c < 0.2:
                return dict(names=None)
            if c < 0.4:
                return dict(names=rng.choice(allnames))
            if c < 0.55:
                return dict(names=rng.choice(["a*", "*0", "*1", "m*", "*"]))
            d = dict(names=rng.sample(allnames, rng.randint(1, len(allnames))))
            if rng.random() < 0.3:
                d["names_as"] = "tuple"
            return d

        def retrieval():
            op = rng.choice(DBQ_MULTI + DBQ_SINGLE + ["getm", "getda", "geta", "get", "iter", "len", "contains", "is_common_time"])
            if op in DBQ_SINGLE:
                a = dict(name=rng.choice(allnames)) if rng.random() < 0.7 else dict(ind=rng.randrange(len(allnames)))
            elif op in ("iter", "len"):
                a = {}
            elif op == "contains":
                a = dict(name=rng.choice(allnames + ["no_such_series", "a*"]))
            elif op not in ("list", "copy", "update-from", "is_common_time") and rng.random() < 0.25:
                a = dict(ind=rng.choice([rng.randrange(len(allnames)), sorted(rng.sample(range(len(allnames)), rng.randint(1, len(allnames))),
                                                                               reverse=rng.random() < 0.5), -1]))
            else:
                a = selection()
            if op in ("geta", "getda", "stats", "stats_dataframe") and rng.random() < 0.7:
                a["opts"] = rng.choice(DBQ_OPTS)
            if op in ("getm", "getd", "getl", "getda", "get", "geta", "stats") and rng.random() < 0.3:
                a["store"] = False
            if op in ("getm", "getd", "getda", "stats", "stats_dataframe") and rng.random() < 0.25:
                a["fullkey"] = True
            if op in ("copy", "update-from"):
                a["shallow"] = rng.random() < 0.4
            if op == "list":
                a["relative"] = rng.random() < 0.5
            return [op, a]

        def fault():
            what = DBQ_FAULTS[(i + len(steps)) % len(DBQ_FAULTS)] if rng.random() < 0.5 else rng.choice(DBQ_FAULTS[:10])
            a = dict(what=what, via=rng.choice(DBQ_MULTI[:6] + DBQ_SINGLE), name=rng.choice(allnames))
            if what == "ind-range":
                a["ind"] = rng.choice(["n", "n+5", "[0,n]", "-n-1", "[n+1]"])
            elif what == "ind-type":
                a["bad"] = rng.choice(["str-index", "float-index", "list-float", "list-none", "dict"])
            elif what in ("names-type", "get-name-type"):
                a["bad"] = rng.choice(["float", "int", "bytes", "set", "dict", "object"])
                if what == "names-type":
                    a["via"] = rng.choice(DBQ_MULTI)
            elif what == "bad-option":
                a["opts"] = rng.choice(DBQ_BADOPTS)
                a["via"] = rng.choice(["geta", "getda", "stats", "stats_dataframe", "to_dataframe"])
            elif what == "missing-file":
                unread = [nm for nm in names if nm not in pre]
                a["name"] = rng.choice(unread or names or allnames)
                a["via"] = rng.choice(DBQ_MULTI[:6] + DBQ_SINGLE + ["copy", "update-from"])
            elif what == "rename-existing":
                same_file = [nm for nm in allnames if nm != a["name"] and nm[0] == a["name"][0]]
                a["other"] = rng.choice(same_file) if same_file else a["name"]
            return ["!fault", a]
        pool = [retrieval() for _ in range(rng.randint(3, 6))]
        steps = []
        for _ in range(rng.randint(6, 14) if quick else rng.randint(6, 30)):
            c = rng.random()
            if c < 0.4:
                steps.append(fault())
                steps.append(rng.choice(pool))          # ... and a retrieval afterwards
            elif c < 0.5:
                steps.append(["par", [rng.choice(pool) for _ in range(rng.randint(2, 4))]])
            else:
                steps.append(rng.choice(pool))
        case = dict(kind="dbq", seed=500 + i, files=files, mem=mem, preload=pre, steps=steps)
        if files and rng.random() < 0.2:
            case["rel"] = rng.choice(["bare", "dot"])
        cases.append(case)
    return cases


def minimise_dbq(inp, info, F=None):
    """a failing history cut after the failing step; if one of the rejected calls and the failing step alone fail as well, only those
    (tried with a short time limit: the full history has failed with the long one already) -> (history, its failing clauses)"""
    cut = info.get("cut")
    if cut is None or cut < 0:
        return inp, F
    steps = inp["steps"][:cut + 1]
    small = dict(inp, steps=steps)
    fl = [j for j, s_ in enumerate(steps[:-1]) if s_[0] == "!fault"]
    tries = [[steps[j], steps[-1]] for j in reversed(fl)] if len(steps) > 2 else []
    for t_ in tries:
        cand = dict(inp, steps=t_)
        try:
            Fc = check_dbq_case(cand, limit=(2., 0.))
            if Fc:
                return cand, Fc
        except Exception:
            pass
    return small, F


def run_dbq_cases(chk):
    cases = [c for c in core.load_corpus("C10") if c.get("kind") == "dbq"] + gen_dbq_cases(chk.rng, chk.quick)
    hangs = 0
    for inp in cases:
        if hangs >= 1:          # (each call that does not return costs the whole time limit)
            break
        chk.count("dbq-case")
        chk.nontriv(repr(inp))
        for f in inp["files"]:
            chk.dist("dbq-format:" + f["fmt"])
        info = {}
        try:
            F = check_dbq_case(inp, info)
        except Exception as e:
            tb = traceback.extract_tb(e.__traceback__)
            F = [("evaluating the case (a history of retrievals on one database) completes without an exception of the harness", "no exception",
                  dict(exception=repr(e)[:300], where=["%s:%d %s" % (os.path.basename(fr.filename), fr.lineno, fr.name) for fr in tb[-3:]]))]
        for what, how in info.get("faults", []):
            chk.dist("dbq-rejected:%s:%s" % (what, how))
        for op, a in inp["steps"]:
            chk.dist("dbq-step:" + (op if op != "!fault" else "rejected-call"))
        if F:
            if any("no answer within" in str(obs) for _, _, obs in F):
                hangs += 1
            small, F = minimise_dbq(inp, info, F)
            for oracle, expected, observed in F:
                chk.fail(oracle, small, expected, observed)


# ======================================================================================================================
#  one caller's array handed to two series (kind="shared"), then in-place operations on the first one
# ======================================================================================================================
SHARED_VIA = ["modify", "modify", "get", "resample", "interpolate", "constructor"]
SHARED_AS = ["ndarray", "ndarray", "view", "list", "f4", "int-array", "tuple"]
SHARED_OPS = ["x_scale", "x_inplace", "t_inplace", "set_dtg_ref", "set_dtg_ref_none", "modify_twin", "write_returned", "attrs", "modify_again"]
SHARED_ORACLE = ("a series shares no mutable state with another series or with the caller's array it was resampled to / built from: "
                 "in-place operations on one series leave the other series and the caller's array unchanged")


def check_shared_case(inp):
    from qats import TimeSeries
    from datetime import datetime
    F = []
    objs = [build_qseries(sp) for sp in inp["series"]]
    lo = max(float(o.t[0]) for o in objs)
    hi = min(float(o.t[-1]) for o in objs)
    g = np.linspace(lo + 0.1 * (hi - lo), hi - 0.1 * (hi - lo), inp.get("m", 37))
    how = inp["as"]
    if how == "list":
        arr = [float(_) for _ in g]
    elif how == "tuple":
        arr = tuple(float(_) for _ in g)
    elif how == "int-array":
        arr = np.unique(np.ceil(g[:-1])).astype(np.int64)
    elif how == "ndarray":
        arr = np.array(g)
    else:
        arr = spelled_array(g, how)
    arr0 = pycopy.deepcopy(arr)
    returned = []
    for i, via in enumerate(inp["via"]):        # the same array goes to every series
        o = objs[i]
        try:
            if via == "modify":
                o.modify(resample=arr)
            elif via == "get":
                returned.append(o.get(resample=arr))
            elif via == "resample":
                returned.append(o.resample(t=np.asarray(arr)))
            elif via == "interpolate":
                returned.append(o.interpolate(np.asarray(arr)))
            elif via == "constructor":
                objs[i] = TimeSeries("c%d" % i, arr, np.cos(np.asarray(arr, dtype=float)), dtg_ref=datetime(2020, 1, 2, 3, 4, 5))
            else:
                raise ValueError(via)
        except ValueError:
            raise
        except Exception:       # refused (e.g. a tuple is not a time array for get): nothing was handed over
            pass
    a, others = objs[0], objs[1:]

    def own(when):
        ok = True
        for i, o in enumerate(objs):
            if isinstance(arr, np.ndarray) and (np.shares_memory(o._t, arr) or np.shares_memory(o.x, arr)):
                F.append((OWN_ORACLE[:-1] + " and modify does not keep them)", "no shared memory",
                          "series %d shares memory with the caller's array %s" % (i, when)))
                ok = False
            for j, q in enumerate(objs[i + 1:], i + 1):
                if any(np.shares_memory(u, v) for u in (o._t, o.x) for v in (q._t, q.x)):
                    F.append((SHARED_ORACLE, "no shared memory", "series %d and series %d share an array %s" % (i, j, when)))
                    ok = False
        return ok
    if not same(arr, arr0):
        F.append(("a query does not modify the caller's resampling array", "unchanged", "changed by " + "/".join(inp["via"])))
    own("after " + " / ".join("%s(%s)" % (v, how) for v in inp["via"]))
    before = [snap(o, skip=CACHE) for o in others]
    answers = []
    for o in others:
        try:
            answers.append(canon((o.get(), o.stats())))
        except Exception:
            answers.append(None)
    for op in inp["ops"]:
        try:
            if op == "t_inplace":
                a.t[:] = a.t + 100.
            elif op == "modify_twin":
                a.modify(twin=(float(a.t[2]), float(a.t[-3])))
            elif op == "modify_again":
                a.modify(resample=arr)
            elif op == "write_returned":
                for r_ in arrays_in(returned):
                    if r_.flags.writeable and r_.dtype.kind == "f":
                        r_ *= -1.
                        r_ += 7.
            else:
                apply_mutation(a, dict(op=op, k=3))
        except Exception:       # (e.g. a read-only array: the operation is refused)
            pass
        bad = []
        if op != "write_returned" and not same(arr, arr0):
            bad.append("the caller's array changed")
        for j, (o, b0) in enumerate(zip(others, before)):
            now = snap(o, skip=CACHE)
            if now != b0:
                bad.append("series %d changed: %s" % (j + 1, what_changed(b0, now)))
            elif answers[j] is not None:
                try:
                    if not same(canon((o.get(), o.stats())), answers[j]):
                        bad.append("series %d answers get() / stats() differently" % (j + 1))
                except Exception as e:
                    bad.append("series %d: get() / stats() raised %r" % (j + 1, e))
        if bad:
            F.append((SHARED_ORACLE, "unchanged", "after `%s` on series 0: %s" % (op, "; ".join(bad))))
            break
    return F


def gen_shared_cases(rng, quick):
    cases = [dict(kind="shared", series=[dict(uniform=True, n=200, seed=1), dict(uniform=False, n=200, seed=2)], via=["modify", "modify"],
                  **{"as": "ndarray"}, ops=list(SHARED_OPS))]
    for i in range(30 if quick else 400):
        k = 2 if rng.random() < 0.7 else 3
        cases.append(dict(kind="shared", series=[dict(uniform=rng.random() < 0.5, n=rng.choice([64, 200]), seed=rng.randrange(10 ** 6)) for _ in range(k)],
                          via=[rng.choice(SHARED_VIA) for _ in range(k)] if i % 3 else ["modify"] * k, m=rng.choice([5, 37, 100]),
                          **{"as": rng.choice(SHARED_AS) if i % 2 else "ndarray"},
                          ops=[rng.choice(SHARED_OPS) for _ in range(rng.randint(1, 5))]))
    return cases


def check_case(inp):
    """evaluate a copy / db case; an exception raised by the implementation is a failing clause"""
    try:
        if inp["kind"] == "copy":
            return check_copy_case(inp)
        if inp["kind"] == "db":
            return check_db_case(inp)
        if inp["kind"] == "query":
            return check_query_case(inp)
        if inp["kind"] == "gui":
            return check_gui_case(inp)
        if inp["kind"] == "dbq":
            return check_dbq_case(inp)
        if inp["kind"] == "shared":
            return check_shared_case(inp)
        raise ValueError(inp["kind"])
    except Exception as e:
        tb = traceback.extract_tb(e.__traceback__)
        loc = ["%s:%d %s" % (os.path.basename(fr.filename), fr.lineno, fr.name) for fr in tb[-3:]]
        return [("evaluating the case (queries / copying and comparing a series or database) completes without an exception", "no exception",
                 dict(exception=repr(e)[:300], where=loc))]


def noted(inp):
    """a failing case is evaluated once more; one that does not fail again depends on what ran before in the same process (state kept
    outside the objects of the case) and says so - replaying it alone will not reproduce it"""
    if "note" in inp or check_case(inp):
        return inp
    inp["note"] = "did not fail when evaluated again on its own: depends on what was run before in the same process (re-run the check)"
    return inp


def gen_copy_cases(rng, quick):
    cases = []
    sid = 0
    for g in GRIDS:
        for d in DTGS:
            hists = [[], ["dtg_time"]]
            for _ in range(1 if quick else 5):
                hists.append([rng.choice(HIST_OPS) for _ in range(rng.randint(1, 4))])
            if not quick:
                hists.append(list(HIST_OPS))
            for h in hists:
                hows = HOWS if (not quick or h == ["dtg_time"]) else rng.sample(HOWS, 2)
                for how in hows:
                    sid += 1
                    cases.append(dict(kind="copy", series=dict(name="s", grid=g, dtg=d, n=rng.choice([12, 40, 75]), seed=sid),
                                      history=h, how=how))
    # ---- the other ways of copying, sources built from other kinds of arrays / attribute values / magnitudes / lengths, sources that
    #      were changed (in place, re-assigned, re-referenced, renamed) before the copy is taken, second copies
    for how in HOWS + HOWS2:
        for j in range(3 if quick else 20):
            sid += 1
            sp = dict(name=rng.choice(["s", "S", "s [kN]", "a.b/c"]) if j else "s", grid=rng.choice(GRIDS), dtg=rng.choice(DTGS),
                      n=rng.choice([1, 2, 3, 12, 40]) if j != 1 else rng.choice([1, 2, 3]), seed=sid)
            if rng.random() < 0.7:
                sp["tkind"] = rng.choice(TKINDS)
            if rng.random() < 0.7:
                sp["xkind"] = rng.choice(TKINDS[:-1])
            if rng.random() < 0.6:
                sp["attrs"] = rng.choice(ATTRS)
            if rng.random() < 0.4:
                sp["xpow"] = rng.choice([-200, 200])
            if rng.random() < 0.3:
                sp["xoff"] = rng.choice([2. ** 40, -1e15])
            if rng.random() < 0.3:
                sp["toff"] = rng.choice([2. ** 30, -1000.])
            if "/" in sp["name"] and how.startswith("TsDB"):
                sp["name"] = "s [kN]"
            h = []
            for _ in range(rng.randint(0, 5)):
                h.append(rng.choice(HIST_MUT) if rng.random() < 0.45 else rng.choice(HIST_OPS))
            cases.append(dict(kind="copy", series=sp, history=h, how=how, twice=rng.random() < 0.5, reverse=rng.random() < 0.5))
    return cases


def gen_db_cases(rng, quick):
    cases = []
    N = 40 if quick else 400
    for i in range(N):
        nfiles = rng.choice([0, 1, 1, 1, 2]) if i >= 8 else 1 + (i % 2)
        files, names = [], []
        for f in range(nfiles):
            nms = ["%s%d" % ("ab"[f], j) for j in range(rng.randint(1, 4))]
            if i >= 8 and rng.random() < 0.4:       # names that differ only in letter case (how names select is the matter of C09)
                nms += rng.sample(["%s0" % "AB"[f], "%s1" % "AB"[f], "%s0_" % "ab"[f]], rng.randint(1, 3))
            files.append(dict(fmt=FORMATS[(i + f) % 4] if i < 8 else rng.choice(FORMATS), names=nms, grid=rng.choice(["half", "third"]),
                              n=rng.choice([8, 30])))
            names += nms
        mem = []
        for j in range(rng.choice([0, 0, 1, 2]) if nfiles else rng.randint(1, 3)):
            mem.append(dict(name="m%d" % j, grid=rng.choice(GRIDS), dtg=rng.choice(DTGS), n=rng.choice([8, 30]), seed=1000 + i * 10 + j,
                            parent=None))
        allnames = names + [m["name"] for m in mem]
        mode = i % 4 if i < 8 else rng.randrange(4)          # which file series have been read before: none / some / all / some
        if mode == 0:
            pre = []
        elif mode == 2:
            pre = list(names)
        else:
            pre = [nm for nm in names if rng.random() < 0.5]
        hist = {}
        for nm in allnames:
            if (nm in pre or nm.startswith("m")) and rng.random() < 0.4:
                hist[nm] = [rng.choice(HIST_OPS) for _ in range(rng.randint(1, 3))]
        select = None
        if rng.random() < 0.4:
            select = rng.sample(allnames, rng.randint(1, len(allnames)))
        case = dict(kind="db", seed=i + 1, files=files, mem=mem, preload=pre, history=hist, select=select,
                    how=("copy", "update")[(i // 4) % 2] if i < 8 else rng.choice(["copy", "update"]),
                    shallow=bool(i % 2) if i >= 8 else False if i < 6 else True)
        if i >= 8:      # series changed in memory before the copy, other spellings of the call, relative file names, copies of copies
            case["mutate"] = [nm for nm in allnames if (nm in pre or nm.startswith("m")) and rng.random() < 0.3]
            for nm in hist:
                if rng.random() < 0.3:
                    hist[nm].insert(rng.randrange(len(hist[nm]) + 1), rng.choice(HIST_MUT[:4]))
            if select is not None:
                case["select_as"] = rng.choice(["list", "tuple", "str"])
            case["positional"] = rng.random() < 0.3
            if files and rng.random() < 0.3:
                case["rel"] = rng.choice(["bare", "dot"])
            case["gen2"] = rng.random() < 0.25
        cases.append(case)
    return cases


def run(chk):
    chk.extra["rule"] = RULE
    chk.assumptions += ["aliasing is observed with np.shares_memory and object identity; the Lean step programs mirror TimeSeries.get / minima"]
    chk.partial += ["the ownership theorems are about the step model; CPython/numpy aliasing itself is observed, not proved"]
    rng = chk.rng
    drv = core.Driver()
    from .c10_dbcopy import run_dbcopy
    run_dbcopy(chk)             # copies / updates of several series selected by overlapping patterns that cover the whole database
    combos = list(itertools.product([False, True], ["none", "step", "array"], [False, True], [None, "lp", "hp", "bp", "bs"], [False, True]))
    lines, meta = [], []
    for uniform in (True, False):
        ts = make_series(rng, uniform)
        for (tw, rs, tp, flt, sm) in combos:
            if tw and rs == "array":
                continue        # refused by get (assertion)
            kw = {}
            if tw:
                kw["twin"] = (float(ts.t[20]), float(ts.t[-30]))
            arr = None
            if rs == "step":
                kw["resample"] = 0.4
            elif rs == "array":
                arr = np.linspace(ts.t[5], ts.t[-5], 300)
                kw["resample"] = arr
            if tp:
                kw["taperfrac"] = 0.1
            if flt:
                kw["filterargs"] = {"lp": ("lp", 0.2), "hp": ("hp", 0.05), "bp": ("bp", 0.05, 0.3), "bs": ("bs", 0.1, 0.2)}[flt]
            if sm:
                kw["window_len"] = 5
            methods = METHODS if not chk.quick else ["get", "minima"] + rng.sample(METHODS[1:], 3)
            for m in methods:
                unif = (not uniform)
                lines.append("own.%s %d %s %d %d %d %d" % ("minima" if m == "minima" else "get", tw, rs, unif, tp, flt is not None, sm))
                meta.append((uniform, ts, dict(kw), arr, m, (tw, rs, tp, flt, sm)))
    outs = drv.run(lines)
    for (uniform, ts, kw, arr, m, combo), o in zip(meta, outs):
        inp = dict(uniform=uniform, method=m, twin=combo[0], resample=combo[1], taper=combo[2], filter=combo[3], smooth=combo[4])
        chk.count("query")
        chk.nontriv(repr(inp))
        chk.dist("method:" + m)
        before = snap(ts)
        arr0 = None if arr is None else arr.copy()
        ob = Observer([ts])
        try:
            mid = None
            with ob:
                r1 = call(ts, m, kw)
            mid = snap(ts)
            r2 = call(ts, m, kw)
        except Exception as e:
            chk.dist("raised:" + type(e).__name__)
            after = snap(ts)
            if ob.seen:
                chk.fail(OBS_ORACLE, inp, "unchanged during the call", ob.seen)
            if after != before:
                chk.fail("a query leaves the stored time, data and attributes bit-for-bit unchanged (also when it raises)", inp,
                         "unchanged", "changed after " + type(e).__name__)
            continue
        after = snap(ts)
        if ob.seen:
            chk.fail(OBS_ORACLE, inp, "unchanged during the call", ob.seen)
        if mid != before:           # after the first call (two in-place sign flips would cancel)
            chk.fail("a query leaves the stored time, data and attributes bit-for-bit unchanged", inp, "unchanged", what_changed(before, mid))
        elif after != before:
            chk.fail("a query leaves the stored time, data and attributes bit-for-bit unchanged", inp, "unchanged", what_changed(before, after))
        if arr is not None and not np.array_equal(arr, arr0):
            chk.fail("a query does not modify the caller's resampling array", inp, "unchanged", "changed")
        if not same(r1, r2):
            chk.fail("a repeated query gives the same answer", inp, "equal", "different")
        obs = readonly_probe(ts, m, kw, r1)
        if obs is not None:
            chk.fail(RO_ORACLE, inp, "same answer, no write", obs)
        if snap(ts) != before:
            chk.fail("a query leaves the stored time, data and attributes bit-for-bit unchanged", inp, "unchanged", "changed (third call)")
        res = arrays_in(r1)
        for a in res:
            if np.shares_memory(a, ts.t) or np.shares_memory(a, ts.x):
                chk.fail("returned arrays do not alias the stored ones", inp, "no shared memory", "shares memory with stored array")
                break
        # model tags
        if not o.startswith("ok"):
            chk.disagree("own." + m, inp, o, "the model gives no prediction")
            continue
        tags = dict(kv.split("=") for kv in o.split()[1:])
        if m in ("get", "minima"):
            pred_arg = tags["t"] == "arg"
            t_ret = r1[0] if m == "get" else None
            if m == "get":
                is_arg = arr is not None and (t_ret is arr or np.shares_memory(t_ret, arr))
                if pred_arg != is_arg:
                    chk.disagree("own.get", inp, o, "returned time %s the caller's array" % ("is" if is_arg else "is not"))
            if tags["t"] == "stored" or tags["x"] == "stored" or "stored" in tags["writes"]:
                chk.disagree("own." + m, inp, o, "model predicts access to stored arrays")
    # ---- boundary values of the options, as a history on one series ---------------------------------------------------------------
    for inp in [c for c in core.load_corpus("C10") if c.get("kind") == "query"]:
        chk.count("query-boundary")
        for oracle, expected, observed in check_case(inp):
            chk.fail(oracle, inp, expected, observed)
    run_query_cases(chk)
    run_query_cases(chk, long=True)
    chk.extra["rule"] = str(chk.extra.get("rule", "")) + " " + LONG_RULE
    # ---- copies of series and databases (cases) ---------------------------------------------------------------------------------
    cases = [c for c in core.load_corpus("C10") if c.get("kind") in ("copy", "db")]
    cases += gen_copy_cases(rng, chk.quick) + gen_db_cases(rng, chk.quick)
    if not os.environ.get("VERIF_SKIP_LONG"):
        for n in ([rng.choice(g) for g in LONG_QUICK] if chk.quick else list(LONG_SIZES) * 2):
            h = [rng.choice(HIST_MUT) if rng.random() < 0.3 else rng.choice(HIST_OPS) for _ in range(rng.randint(0, 3))]
            cases.append(dict(kind="copy", series=dict(name="s", grid=rng.choice(["half", "nonuni", "third", "accum", "random"]), dtg=rng.choice(DTGS),
                                                       n=n, seed=rng.randrange(10 ** 6), **({"xkind": "f4"} if rng.random() < 0.2 else {})),
                              history=h, how=rng.choice(HOWS), twice=rng.random() < 0.5, reverse=rng.random() < 0.5))
    for inp in cases:
        chk.count(inp["kind"] + "-case")
        if inp["kind"] == "copy":
            chk.dist("copy:%s/%s/%s" % (inp["series"]["grid"], inp["series"]["dtg"], inp["how"]))
            if inp["history"]:
                chk.nontriv(repr(inp))
        else:
            fb = [nm for f in inp["files"] for nm in f["names"]]
            state = "no-file" if not fb else "none-read" if not inp["preload"] else "all-read" if len(inp["preload"]) == len(fb) else "some-read"
            chk.dist("db:%s/%s/%s/%s" % (inp["how"], "shallow" if inp["shallow"] else "deep", state, "selection" if inp["select"] else "all"))
            for f in inp["files"]:
                chk.dist("format:" + f["fmt"])
            if fb:
                chk.nontriv(repr(inp))
        for oracle, expected, observed in check_case(inp):
            chk.fail(oracle, noted(inp), expected, observed)
    # ---- one caller's array handed to two series; in-place operations on the first ----------------------------------------------
    for inp in [c for c in core.load_corpus("C10") if c.get("kind") == "shared"] + gen_shared_cases(rng, chk.quick):
        chk.count("shared-array-case")
        chk.nontriv(repr(inp))
        chk.dist("shared:%s/%s" % ("+".join(inp["via"]), inp["as"]))
        for oracle, expected, observed in check_case(inp):
            chk.fail(oracle, inp, expected, observed)
    # ---- histories of retrievals on one database with rejected calls in between, every call under a time limit ---------------------
    run_dbq_cases(chk)
    # ---- the GUI computations concurrently on the same series ----------------------------------------------------------------------
    for inp in [c for c in core.load_corpus("C10") if c.get("kind") == "gui"]:
        chk.count("threads", inp["rounds"])
        for oracle, expected, observed in check_case(inp):
            chk.fail(oracle, inp, expected, observed)
    for ci in range(len(GUI_CONFIGS)):
        inp = dict(kind="gui", seeds=[rng.randrange(10 ** 6), rng.randrange(10 ** 6)], config=ci, rounds=(3 if chk.quick else 70) if ci else (6 if chk.quick else 200))
        chk.count("threads", inp["rounds"])
        chk.nontriv(("threads", ci))
        chk.dist("gui-config:%d" % ci)
        for oracle, expected, observed in check_case(inp):
            chk.fail(oracle, noted(inp), expected, observed)
    chk.sample(dict(method="minima", options="twin + resample step + taper + lp + smooth", model=outs[1] if outs else ""))


def replay(rp):
    import random
    inp = rp["input"]
    if inp.get("kind") == "dbcopy":
        from .c10_dbcopy import replay_dbcopy
        return replay_dbcopy(inp)
    if inp.get("kind") in ("copy", "db", "query", "gui", "dbq", "shared"):
        F = check_case(inp)
        for oracle, expected, observed in F:
            print("FAILS: %s\n       expected %s, observed %s" % (oracle, expected, observed))
        print("replay: %d failing clause(s)" % len(F))
        return 1 if F else 0
    if "method" not in inp:
        print("re-run ./check C10 %s" % rp.get("tier", "quick"))
        return 1
    ts = make_series(random.Random(0), inp["uniform"])
    kw = {}
    if inp["twin"]:
        kw["twin"] = (float(ts.t[20]), float(ts.t[-30]))
    if inp["resample"] == "step":
        kw["resample"] = 0.4
    elif inp["resample"] == "array":
        kw["resample"] = np.linspace(ts.t[5], ts.t[-5], 300)
    if inp["taper"]:
        kw["taperfrac"] = 0.1
    if inp["filter"]:
        kw["filterargs"] = {"lp": ("lp", 0.2), "hp": ("hp", 0.05), "bp": ("bp", 0.05, 0.3), "bs": ("bs", 0.1, 0.2)}[inp["filter"]]
    if inp["smooth"]:
        kw["window_len"] = 5
    before = snap(ts)
    ob = Observer([ts])
    with ob:
        r = call(ts, inp["method"], kw)
    bad = 0
    if ob.seen:
        print("FAILS: %s\n       observed: %s" % (OBS_ORACLE, ob.seen))
        bad += 1
    if snap(ts) != before:
        print("FAILS: stored arrays / attributes changed")
        bad += 1
    if any(np.shares_memory(a, ts.t) or np.shares_memory(a, ts.x) for a in arrays_in(r)):
        print("FAILS: result aliases stored array")
        bad += 1
    if not same(r, call(ts, inp["method"], kw)):
        print("FAILS: repeated query gives a different answer")
        bad += 1
    obs = readonly_probe(ts, inp["method"], kw, r)
    if obs is not None:
        print("FAILS: %s\n       observed: %s" % (RO_ORACLE, obs))
        bad += 1
    print("replay: %d failing clause(s)" % bad)
    return 1 if bad else 0
