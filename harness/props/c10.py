"""
C10 — queries never modify a time series; copies are complete and independent.

Tie (dynamic correspondence, DESIGN.md section 4/C10): for every combination of processing options x query method the
stored arrays and attributes are snapshotted bit-for-bit before / after the call, `np.shares_memory` of every returned
array with the stored arrays (and with the caller's resampling array) is compared with the provenance tag the Lean
ownership model predicts (`own.get`, `own.minima`), results of a repeated call are compared, the four GUI computations
are run in real threads against their sequential results, and `vars(copy)` is compared with `vars(original)` over *all*
instance attributes (so that a new, uncopied attribute is noticed).

Queries with *boundary option values* are examined as kind="query" cases: options that are given but turn out to do nothing
(taper fraction 0 / 1 / an integer / outside (0, 1), smoothing window of 0 / 1 / 2 points or not an integer, a time window that
covers the whole series, resampling to the series' own step or own instants, given as list, pass-everything filters) alone and
combined, x every query method (also filter / resample / interpolate / fit_weibull / extremes with threshold 0 / statistics of
minima), as one long history on the same series object; a failing case carries the history needed to reproduce it.

Copies are examined as *cases* described by a JSON dictionary (so that every failing one can be replayed):
  kind="copy"  a series on one of several time grids (dyadic, non-uniform, decimal + 1/3, accumulated 0.1, sub-microsecond
               offset, random, given as datetime objects) x date-time reference (none / whole second / with microseconds) x
               a *history* of queries made on the source before the copy is taken (the lazily filled date-time cache, get with
               options, statistics, extremes, spectrum ...) x the way of copying (copy(), copy.copy, copy(newname), deep
               TsDB.copy, deep TsDB.update);
  kind="db"    a database backed by one or more files (.ts .dat .pkl .h5) of which an arbitrary subset of the series has
               been read (preloaded) when the copy is taken, plus series added in memory, copied / updated deep or shallow,
               whole or for a selection of names given in non-file order.
Each case is evaluated by `check_copy_case` / `check_db_case`, which return the clauses of the property that fail; an
exception raised by the implementation inside a case is a failing clause, not a crash of the harness.
"""
import contextlib
import copy as pycopy
import io
import itertools
import os
import random
import shutil
import tempfile
import threading
import traceback

import numpy as np

from .. import core

RULE = ("all 72 combinations of (window, resample none/step/array, taper, filter kind incl. none, smoothing) x uniform / non-uniform "
        "series x 12 query methods (each also with the stored arrays made read-only); boundary option values (no-op taper / "
        "smoothing / window / resampling / filter values, alone and combined) x 22 query methods as a history on one series; "
        "4 GUI computations x real threads; "
        "series copies: 7 time grids x 3 date-time references x query histories ([], [dtg_time], random) x 5 ways of copying; "
        "database copies: file-backed (.ts .dat .pkl .h5, 1-2 files) with every kind of preloaded subset (none / some / all) "
        "+ in-memory series x copy / update x deep / shallow x all names / selection in non-file order; "
        "non-trivial = any option set, threaded run, non-empty history or file-backed database; distinct by the case dictionary")


def freeze(v):
    """hashable, comparable image of an attribute value (arrays by content)"""
    if isinstance(v, np.ndarray):
        return ("nd", v.dtype.str, v.shape, v.tobytes() if v.dtype != object else repr(v.tolist()))
    if isinstance(v, (list, tuple)):
        return (type(v).__name__,) + tuple(freeze(x) for x in v)
    if isinstance(v, dict):
        return ("dict",) + tuple((repr(k), freeze(x)) for k, x in v.items())
    try:
        hash(v)
        return v
    except TypeError:
        return repr(v)


def snap(ts, skip=()):
    return dict(t=ts.t.tobytes(), x=ts.x.tobytes(), tid=id(ts._t), xid=id(ts.x),
                attrs={k: freeze(v) for k, v in vars(ts).items() if k not in ("_t", "x") and k not in skip})


def arrays_in(res):
    if isinstance(res, np.ndarray):
        return [res]
    if isinstance(res, (tuple, list)):
        return [a for r in res for a in arrays_in(r)]
    if isinstance(res, dict):
        return [a for r in res.values() for a in arrays_in(r)]
    return []


def same(a, b):
    if isinstance(a, np.ndarray) or isinstance(b, np.ndarray):
        if not (isinstance(a, np.ndarray) and isinstance(b, np.ndarray) and a.shape == b.shape):
            return False
        if a.dtype.kind in "fc" and b.dtype.kind in "fc":
            return bool(np.array_equal(a, b, equal_nan=True))
        if a.dtype == object or b.dtype == object:      # e.g. arrays of datetime objects (np.isnan is not defined for those)
            return same(a.tolist(), b.tolist())
        return bool(np.array_equal(a, b))
    if isinstance(a, (tuple, list)):
        return isinstance(b, (tuple, list)) and len(a) == len(b) and all(same(x, y) for x, y in zip(a, b))
    if isinstance(a, dict):
        return isinstance(b, dict) and list(a.keys()) == list(b.keys()) and all(same(a[k], b[k]) for k in a)
    if isinstance(a, float) and isinstance(b, float) and np.isnan(a) and np.isnan(b):
        return True
    return a == b


def make_series(rng, uniform, n=400):
    from qats import TimeSeries
    from datetime import datetime
    if uniform:
        t = np.arange(n) * 0.5
    else:
        t = np.cumsum(np.array([rng.choice([0.25, 0.5, 0.75]) for _ in range(n)]))
    x = np.sin(0.3 * t) + 0.5 * np.sin(1.1 * t + 1) + np.array([rng.uniform(-0.2, 0.2) for _ in range(n)])
    return TimeSeries("s", t, x, parent="/some/file.ts", dtg_ref=datetime(2020, 1, 2, 3, 4, 5), kind="force", unit="kN")


METHODS = ["get", "maxima", "minima", "max", "min", "mean", "std", "skew", "kurtosis", "psd", "rfc", "stats"]


def call(ts, method, kw):
    if method == "get":
        return ts.get(**kw)
    if method == "maxima":
        return ts.maxima(rettime=True, **kw)
    if method == "minima":
        return ts.minima(rettime=True, local=True, **kw)
    if method == "psd":
        k2 = {k: v for k, v in kw.items() if k != "window_len"}
        return ts.psd(**k2)
    if method == "stats":
        return ts.stats(include_sample=True, **kw)
    return getattr(ts, method)(**kw)


RO_ORACLE = ("queries give the same answer when run concurrently on the same series: no query writes to the stored arrays while it "
             "runs (observed by making the stored arrays read-only: the query must still succeed and give the same answer)")


def readonly_probe(ts, method, kw, r1):
    """-> None or the observation that the query wrote (tried to write) to the stored arrays during the call"""
    fl = (ts._t.flags.writeable, ts.x.flags.writeable)
    ts._t.setflags(write=False)
    ts.x.setflags(write=False)
    try:
        r3 = call(ts, method, kw)
    except Exception as e:
        return "raised %s: %s" % (type(e).__name__, str(e)[:120])
    finally:
        ts._t.setflags(write=fl[0])
        ts.x.setflags(write=fl[1])
    if not same(r1, r3):
        return "different answer"
    return None


# ======================================================================================================================
#  query cases: boundary values of the processing options (given, but possibly doing nothing)
# ======================================================================================================================
# option values as JSON; symbolic values are resolved against the series by `resolve_opts`
BOUNDARY = dict(
    taperfrac=[0., 1., 0, 1, 1.5, -0.25, 1e-300, 0.5],
    window_len=[0, 1, 2, 3, -1, 4.0, 5],
    window=["hanning", "blackman"],
    twin=["whole", "beyond", "exact-ends", "inner"],
    resample=["own-dt", "own-instants-list", "own-instants-array", "own-dt-float32", 0.4],
    filterargs=[["tp", [-1., 1.]], ["tp", [0., 1.]], ["tp", [0.1, 0.9]], ["lp", 0.95], ["hp", 1e-6], ["bp", 1e-6, 0.95], ["bs", 0.4, 0.41], ["lp", 0.2]],
)
QMETHODS = METHODS + ["maxima_global", "minima_global", "maxima_thr0", "minima_thr0", "stats_minima", "filter", "resample",
                      "interpolate", "fit_weibull", "average_frequency"]


def build_qseries(spec):
    return make_series(random.Random(spec["seed"]), spec["uniform"], n=spec["n"])


def resolve_opts(ts, opts):
    """JSON option description -> (keyword arguments of get(), the caller's resampling array or None)"""
    kw, arr = {}, None
    for k, v in opts.items():
        if k == "twin":
            t0, t1 = float(ts.t[0]), float(ts.t[-1])
            kw[k] = {"whole": (t0 - 1., t1 + 1.), "beyond": (-1e12, 1e12), "exact-ends": (t0, t1),
                     "inner": (float(ts.t[ts.n // 5]), float(ts.t[-(ts.n // 5) - 1]))}[v]
        elif k == "resample":
            if v == "own-dt":
                kw[k] = float(ts.dt)
            elif v == "own-dt-float32":
                kw[k] = np.float32(0.5)
            elif v == "own-instants-list":
                kw[k] = [float(_) for _ in ts.t]
            elif v == "own-instants-array":
                arr = np.array(ts.t)
                kw[k] = arr
            else:
                kw[k] = float(v)
        elif k == "filterargs":
            kw[k] = tuple(v)
        else:
            kw[k] = v
    return kw, arr


def qcall(ts, method, kw):
    """the query `method` with the processing options kw"""
    if method in METHODS:
        return call(ts, method, kw)
    if method == "maxima_global":
        return ts.maxima(rettime=True, **kw)
    if method == "minima_global":
        return ts.minima(rettime=True, **kw)
    if method == "maxima_thr0":
        return ts.maxima(rettime=True, local=True, threshold=0., **kw)
    if method == "minima_thr0":
        return ts.minima(rettime=True, local=True, threshold=0., **kw)
    if method == "stats_minima":
        return ts.stats(is_minima=True, include_sample=True, **kw)
    if method == "average_frequency":       # properties: no options
        return (ts.average_frequency, ts.average_period)
    if method == "fit_weibull":
        w = ts.fit_weibull(twin=kw.get("twin"))
        return (w.loc, w.scale, w.shape)
    if method == "filter":                  # filter(type, freq, twin, taperfrac)
        fa = kw.get("filterargs", ("lp", 0.2))
        return ts.filter(fa[0], fa[1] if len(fa) == 2 else tuple(fa[1:]), twin=kw.get("twin"), taperfrac=kw.get("taperfrac"))
    if method == "resample":
        r = kw.get("resample", float(ts.dt))
        if isinstance(r, (list, np.ndarray)):
            return ts.resample(t=np.asarray(r))
        return ts.resample(dt=r)
    if method == "interpolate":
        r = kw.get("resample")
        return ts.interpolate(np.asarray(r) if isinstance(r, (list, np.ndarray)) else ts.t)
    raise ValueError(method)


def what_changed(before, after):
    return [k for k in ("t", "x", "tid", "xid") if after[k] != before[k]] + \
           [k for k in before["attrs"] if after["attrs"].get(k) != before["attrs"][k]] + \
           sorted(set(after["attrs"]) - set(before["attrs"]))


def query_clauses(ts, method, opts):
    """-> list of failing clauses (oracle, expected, observed) of one query on the series object ts"""
    F = []
    kw, arr = resolve_opts(ts, opts)
    arr0 = None if arr is None else arr.copy()
    lst0 = list(kw["resample"]) if isinstance(kw.get("resample"), list) else None
    before = snap(ts)
    try:
        r1 = qcall(ts, method, kw)
        mid = snap(ts)          # (two in-place sign flips cancel: look after the first call as well)
        r2 = qcall(ts, method, kw)
    except Exception as e:      # a query may refuse its options; that is not a matter of this property - but it must not leave traces
        after = snap(ts)
        if after != before:
            F.append(("a query leaves the stored time, data and attributes bit-for-bit unchanged (also when it raises)", "unchanged",
                      "%s changed after %s" % (what_changed(before, after), type(e).__name__)))
        return F
    after = snap(ts)
    if mid != before:
        F.append(("a query leaves the stored time, data and attributes bit-for-bit unchanged", "unchanged", what_changed(before, mid)))
    elif after != before:
        F.append(("a query leaves the stored time, data and attributes bit-for-bit unchanged (second call)", "unchanged", what_changed(before, after)))
    if (arr is not None and not np.array_equal(arr, arr0)) or (lst0 is not None and kw["resample"] != lst0):
        F.append(("a query does not modify the caller's resampling array", "unchanged", "changed"))
    if not same(r1, r2):
        F.append(("a repeated query gives the same answer", "equal", "different"))
    obs = readonly_probe_q(ts, method, kw, r1)
    if obs is not None:
        F.append((RO_ORACLE, "same answer, no write", obs))
    for a in arrays_in(r1):
        if np.shares_memory(a, ts._t) or np.shares_memory(a, ts.x):
            F.append(("returned arrays do not alias the stored ones", "no shared memory",
                      "a returned array shares memory with the stored %s" % ("data" if np.shares_memory(a, ts.x) else "time")))
            break
    # the caller may do anything with what a query returned
    for a in arrays_in(r1):
        if a is not arr and a.flags.writeable and a.dtype.kind == "f" and a.size:
            a *= -1.
            a += 1.
    if snap(ts) != before and after == before:
        F.append(("returned arrays do not alias the stored ones (writing to a returned array leaves the series unchanged)",
                  "unchanged", what_changed(before, snap(ts))))
    return F


def readonly_probe_q(ts, method, kw, r1):
    fl = (ts._t.flags.writeable, ts.x.flags.writeable)
    ts._t.setflags(write=False)
    ts.x.setflags(write=False)
    try:
        r3 = qcall(ts, method, kw)
    except Exception as e:
        return "raised %s: %s" % (type(e).__name__, str(e)[:120])
    finally:
        ts._t.setflags(write=fl[0])
        ts.x.setflags(write=fl[1])
    if not same(r1, r3):
        return "different answer"
    return None


def check_query_case(inp):
    """kind="query": a fresh series, the queries of the history (answers discarded), then the clauses for the last query"""
    ts = build_qseries(inp["series"])
    for m, o in inp.get("history", []):
        try:
            qcall(ts, m, resolve_opts(ts, o)[0])
        except Exception:
            pass
    return query_clauses(ts, inp["method"], inp["opts"])


def gen_query_cases(rng, quick):
    """-> list of (method, opts): every boundary value alone x every method, then random combinations"""
    singles = [{k: v} for k, vs in BOUNDARY.items() if k != "window" for v in vs]
    singles += [dict(window_len=2, window="hanning"), dict(window_len=1, window="blackman"), dict(taperfrac=0., window_len=1),
                dict(taperfrac=1., window_len=2), dict(taperfrac=0, window_len=0)]
    out = []
    for o in singles:
        ms = QMETHODS if not quick else ["get", "minima"] + rng.sample(QMETHODS, 5)
        out += [(m, o) for m in ms]
    for _ in range(150 if quick else 3000):
        ks = rng.sample(sorted(BOUNDARY), rng.randint(2, 4))
        o = {k: rng.choice(BOUNDARY[k]) for k in sorted(ks)}
        if "twin" in o and o.get("resample") == "own-instants-array":
            del o["twin"]            # refused by get (assertion)
        out.append((rng.choice(QMETHODS), o))
    return out


def run_query_cases(chk):
    rng = chk.rng
    for uniform in (True, False):
        spec = dict(uniform=uniform, n=rng.choice([200, 301]), seed=rng.randrange(10 ** 6))
        ts, hist = build_qseries(spec), []
        ref = snap(ts)
        for m, o in gen_query_cases(rng, chk.quick):
            chk.count("query-boundary")
            chk.dist("method:" + m)
            for k in o:
                chk.dist("boundary-option:" + k)
            chk.nontriv(repr((uniform, m, o)))
            try:
                F = query_clauses(ts, m, o)
                if not F and snap(ts) != ref:
                    F = [("a query leaves the stored time, data and attributes bit-for-bit unchanged", "unchanged", what_changed(ref, snap(ts)))]
            except Exception as e:
                F = [("evaluating a query completes without an exception of the harness", "no exception", repr(e)[:300])]
            if F:
                inp = dict(kind="query", series=spec, history=[], method=m, opts=o)
                try:
                    alone = check_query_case(inp)
                except Exception:
                    alone = []
                if not alone:           # needs the queries made before on the same object
                    inp["history"] = list(hist)
                for oracle, expected, observed in F:
                    chk.fail(oracle, inp, expected, observed)
                ts, hist = build_qseries(spec), []         # continue on an unspoilt series
            else:
                hist.append([m, o])


# ======================================================================================================================
#  copy cases
# ======================================================================================================================
GRIDS = ["half", "nonuni", "third", "accum", "submicro", "random", "datetime"]
DTGS = ["none", "sec", "usec"]
HOWS = ["copy()", "copy.copy", "copy(newname)", "TsDB.copy", "TsDB.update"]
HIST_OPS = ["dtg_time", "dtg_start", "dtg_end", "get", "get_twin", "get_resample", "get_filter", "stats", "maxima", "minima",
            "psd", "rfc", "mean", "dt", "is_constant_dt", "data"]
FORMATS = [".ts", ".dat", ".pkl", ".h5"]
# public read-only views of a series; a copy must show the same values as its source
PROPS = ["name", "kind", "unit", "parent", "dtg_ref", "n", "start", "end", "dt", "duration", "dtg_start", "dtg_end", "fullname",
         "is_constant_dt", "dtg_time"]
CACHE = ("_dtg_time",)      # lazily filled cache of dtg_time: compared through the property, not as a raw attribute


def quiet(f, *a, **k):
    with contextlib.redirect_stdout(io.StringIO()):
        return f(*a, **k)


def build_series(spec):
    """deterministic series from its JSON description dict(name, grid, dtg, n, seed)"""
    from qats import TimeSeries
    from datetime import datetime, timedelta
    r = random.Random(spec["seed"])
    n, g = spec["n"], spec["grid"]
    ref = {"none": None, "sec": datetime(2020, 1, 2, 3, 4, 5), "usec": datetime(2021, 6, 7, 8, 9, 10, 123457)}[spec["dtg"]]
    if g == "half":
        t = np.arange(n) * 0.5
    elif g == "nonuni":
        t = np.cumsum(np.array([r.choice([0.25, 0.5, 0.75]) for _ in range(n)]))
    elif g == "third":          # 0.1 s sampling, instants neither dyadic nor whole microseconds
        t = np.linspace(0., 0.1 * (n - 1), n) + 1. / 3.
    elif g == "accum":          # accumulated decimal step (0.30000000000000004 ...)
        t = np.cumsum(np.full(n, 0.1))
    elif g == "submicro":       # offset below the resolution of datetime objects
        t = np.arange(n) * 0.05 + 4.e-7
    elif g == "random":
        t = np.cumsum(np.array([r.uniform(0.05, 0.4) for _ in range(n)])) + r.uniform(0., 100.)
    elif g == "datetime":       # time given as datetime objects
        base = (ref or datetime(2019, 5, 6, 7, 8, 9, 250000)) + timedelta(seconds=5)
        us = np.cumsum([r.randrange(200000, 300000) for _ in range(n)])
        t = np.array([base + timedelta(microseconds=int(u)) for u in us])
    else:
        raise ValueError(g)
    k = np.arange(n)
    x = np.sin(0.3 * k) + 0.5 * np.sin(1.1 * k + 1) + np.array([r.uniform(-0.2, 0.2) for _ in range(n)]) + 5.
    return TimeSeries(spec.get("name", "s"), t, x, parent=spec.get("parent", "/some/file.ts"), dtg_ref=ref, kind="force", unit="kN")


def apply_hist(ts, op):
    """one pure query of the history; the answer is discarded"""
    t = ts.t
    n = t.size
    if op in ("dtg_time", "dtg_start", "dtg_end", "dt", "is_constant_dt", "data"):
        return getattr(ts, op)
    if op == "get":
        return ts.get()
    if op == "get_twin":
        return ts.get(twin=(float(t[n // 5]), float(t[-(n // 5) - 1])))
    if op == "get_resample":
        return ts.get(resample=0.8 * float(np.mean(np.diff(t))))
    if op == "get_filter":
        dt = float(np.mean(np.diff(t)))
        return ts.get(filterargs=("lp", 0.2 / dt), taperfrac=0.1, resample=dt)
    if op == "stats":
        return ts.stats()
    if op == "maxima":
        return ts.maxima(rettime=True)
    if op == "minima":
        return ts.minima(rettime=True, local=True)
    if op == "psd":
        return ts.psd(resample=float(np.mean(np.diff(t))))
    if op == "rfc":
        return ts.rfc()
    if op == "mean":
        return ts.mean()
    raise ValueError(op)


def run_history(ts, ops, F, inp_note=""):
    """apply the queries; stored time / data / attributes (apart from the date-time cache) must stay bit-for-bit the same"""
    before = snap(ts, skip=CACHE)
    raised = []
    for op in ops:
        try:
            apply_hist(ts, op)
        except Exception as e:      # a query may refuse its options; that is not a matter of this property
            raised.append("%s: %s" % (op, type(e).__name__))
    after = snap(ts, skip=CACHE)
    if after != before:
        what = [k for k in ("t", "x", "tid", "xid") if after[k] != before[k]] + \
               [k for k in before["attrs"] if after["attrs"].get(k) != before["attrs"][k]]
        F.append(("a sequence of queries leaves the stored time, data and attributes bit-for-bit unchanged" + inp_note, "unchanged", what))
    return raised


def prop_value(ts, p):
    v = getattr(ts, p)
    return v


COPY_QUERIES = [("get()", lambda s, ref: s.get()),
                ("get(twin=(start, end) of the source)", lambda s, ref: s.get(twin=(ref.start, ref.end))),
                ("get(twin=inner window)", lambda s, ref: s.get(twin=(float(ref.t[3]), float(ref.t[-4])))),
                ("stats()", lambda s, ref: s.stats()),
                ("max()", lambda s, ref: s.max())]


def compare_series(a, b, F, tag, newname=False, queries=True):
    """clauses `b (copy) equals a (source) in every attribute and array` and `shares no mutable state`, before any mutation"""
    va, vb = vars(a), vars(b)
    diff = [k for k in va if k not in CACHE and (k not in vb or not same(va[k], vb[k]))]
    diff = [k for k in diff if not (k == "name" and newname)]
    extra = sorted(set(vb) - set(va))
    if diff or extra:
        obs = {}
        for k in diff:
            if isinstance(va[k], np.ndarray) and isinstance(vb.get(k), np.ndarray) and va[k].shape == vb[k].shape and va[k].dtype.kind == "f":
                obs[k] = "max abs deviation %.3e" % float(np.max(np.abs(va[k] - vb[k])))
            else:
                obs[k] = "%.60r vs %.60r" % (va[k], vb.get(k))
        F.append(("a copy equals its source in every attribute and array" + tag, "equal", dict(differ=obs, extra=extra)))
    bad = {}
    for p in PROPS:
        if p == "name" and newname or p == "fullname" and newname:
            continue
        pa, pb = prop_value(a, p), prop_value(b, p)
        if not same(pa, pb):
            bad[p] = "%.50r vs %.50r" % (pa, pb)
    if bad:
        F.append(("a copy equals its source in every attribute and array (public properties)" + tag, "equal", bad))
    if queries:
        badq = []
        for nm, q in COPY_QUERIES:
            try:
                ra = q(a, a)
            except Exception:
                continue                # the query is refused on the source: nothing to compare
            rb = q(b, a)
            if not same(ra, rb):
                badq.append(nm)
        if badq:
            F.append(("a copy equals its source in every attribute and array (the same query gives the same answer on both)" + tag,
                      "equal answers", badq))
    if a is b:
        F.append(("a copy shares no mutable state with its source" + tag, "distinct objects", "the very same TimeSeries object"))
        return
    if np.shares_memory(a.t, b.t) or np.shares_memory(a.x, b.x):
        F.append(("a copy shares no mutable state with its source" + tag, "independent arrays", "shared memory"))
    shared = [k for k, v in vb.items() if isinstance(v, (np.ndarray, list, dict)) and v is va.get(k)]
    if shared:
        F.append(("a copy shares no mutable state with its source (mutable attribute objects are not shared)" + tag,
                  "distinct objects", shared))


def mutate_and_watch(a, b, F, tag):
    """modify the copy b in every way a user can; the source a must not notice"""
    from datetime import datetime
    if a is b:
        return
    before = snap(a)
    b.x[0] += 1.0
    b.x *= 10.
    b._t[0] -= 1.0
    b.kind = "changed"
    b.unit = "changed"
    if getattr(b, "_dtg_time", None) is not None:
        b._dtg_time[0] = datetime(1999, 1, 1)
    try:
        b.modify(twin=(float(b.t[2]), float(b.t[-3])))
    except Exception:
        pass
    after = snap(a)
    if after != before:
        what = [k for k in ("t", "x", "tid", "xid") if after[k] != before[k]] + \
               [k for k in before["attrs"] if after["attrs"].get(k) != before["attrs"][k]]
        F.append(("a copy shares no mutable state with its source (modifying the copy leaves the source unchanged)" + tag,
                  "source unchanged", what))


def check_copy_case(inp):
    """-> list of failing clauses (oracle, expected, observed) for a kind="copy" case"""
    from qats import TsDB
    F = []
    how = inp["how"]
    ts = build_series(inp["series"])
    db = None
    if how.startswith("TsDB"):
        db = TsDB()
        db.add(ts)
        ts = db.get(name=inp["series"].get("name", "s"))
    run_history(ts, inp["history"], F)
    if how == "copy()":
        c = ts.copy()
    elif how == "copy.copy":
        c = pycopy.copy(ts)
    elif how == "copy(newname)":
        c = ts.copy(newname="other")
    elif how == "TsDB.copy":
        c = db.copy().get(name=ts.name)
    elif how == "TsDB.update":
        u = TsDB()
        u.update(db)
        c = u.get(name=ts.name)
    else:
        raise ValueError(how)
    compare_series(ts, c, F, "", newname=(how == "copy(newname)"))
    mutate_and_watch(ts, c, F, "")
    return F


# ======================================================================================================================
#  database cases
# ======================================================================================================================
def build_db(inp, root):
    """file-backed database of the case: -> (db, {name: path or None})"""
    from qats import TimeSeries, TsDB
    paths, where = [], {}
    for i, f in enumerate(inp["files"]):
        r = random.Random(inp["seed"] * 100 + i)
        n = f["n"]
        t = {"half": np.arange(n) * 0.5, "third": np.linspace(0., 0.1 * (n - 1), n) + 1. / 3.}[f["grid"]]
        src = TsDB()
        for nm in f["names"]:
            src.add(TimeSeries(nm, t, np.sin(r.uniform(0.1, 0.5) * t) + r.uniform(1., 5.) + np.array([r.uniform(-.1, .1) for _ in range(n)])))
        path = os.path.join(root, "f%d%s" % (i, f["fmt"]))
        quiet(src.export, path, names="*")
        paths.append(path)
        for nm in f["names"]:
            where[nm] = path
    db = TsDB()
    if paths:
        quiet(db.load, paths, read=False)
    for spec in inp["mem"]:
        db.add(build_series(spec))
        where[spec["name"]] = None
    return db, where


def key_of(db, nm):
    ks = [k for k in db.register_keys if k.replace("\\", "/").split("/")[-1] == nm]
    assert len(ks) == 1, (nm, db.register_keys)
    return ks[0]


def check_db_case(inp):
    """-> list of failing clauses for a kind="db" case"""
    root = tempfile.mkdtemp(prefix="qv10_")
    try:
        return _check_db_case(inp, root)
    finally:
        shutil.rmtree(root, ignore_errors=True)


def _check_db_case(inp, root):
    from qats import TimeSeries, TsDB
    F = []
    db, where = build_db(inp, root)
    for nm in inp["preload"]:
        quiet(db.get, name=nm)
    for nm, ops in inp["history"].items():
        run_history(quiet(db.get, name=nm), ops, F, " (series %s)" % nm)
    unread = [nm for nm in where if db.register[key_of(db, nm)] is None]
    shallow, select = inp["shallow"], inp["select"]
    expected_keys = list(db.register_keys) if select is None else [key_of(db, nm) for nm in select]
    keys0 = list(db.register_keys)
    if inp["how"] == "copy":
        other = quiet(db.copy, names=select, shallow=shallow)
    else:
        other = TsDB()
        quiet(other.update, db, names=select, shallow=shallow)
    word = "shallow" if shallow else "deep"
    if sorted(other.register_keys) != sorted(expected_keys) or sorted(other.register.keys()) != sorted(expected_keys) or \
            (select is None and list(other.register_keys) != expected_keys):
        F.append(("a database copy/update holds the selected keys", expected_keys, list(other.register_keys)))
        return F
    if list(db.register_keys) != keys0:
        F.append(("copying a database leaves the keys of the source unchanged", keys0, list(db.register_keys)))
    for cont in ("register", "register_keys", "register_parent", "register_indices"):
        if getattr(other, cont) is getattr(db, cont):
            F.append(("a %s database copy or update shares %s with its source" % (word, "exactly the series objects" if shallow else "no mutable state"),
                      "distinct containers", "the container `%s` is shared" % cont))
    for k in expected_keys:
        nm = k.replace("\\", "/").split("/")[-1]
        tag = " [series %s, %s when copied]" % (nm, "in memory" if where[nm] is None else ("not yet read" if nm in unread else "preloaded"))
        b = other.register[k]
        if b is None:
            b = quiet(other.get, name=nm)
        a = quiet(db.get, name=nm)
        if shallow:
            if a is not b:
                F.append(("a shallow database copy or update shares exactly the series objects" + tag, "same object", "different object"))
            continue
        if a is b:
            F.append(("a deep database copy shares no mutable state with its source" + tag, "independent series objects",
                      "source.get(%r) is copy.get(%r)" % (nm, nm)))
            continue
        compare_series(a, b, F, tag)
        mutate_and_watch(a, b, F, tag)
        if where[nm] is not None:
            fresh = quiet(lambda: TsDB.fromfile(where[nm]).get(name=nm))
            if not (same(fresh.t, a.t) and same(fresh.x, a.x)):
                F.append(("a deep database copy shares no mutable state with its source (after modifying the copy the source still "
                          "equals the file)" + tag, "source equals file", "source differs from file"))
    # the containers are independent: a series added to the copy is not added to the source
    n0 = len(db.register_keys)
    other.add(TimeSeries("zz_added_to_copy", np.arange(4.), np.arange(4.)))
    if len(db.register_keys) != n0 or any(k.endswith("zz_added_to_copy") for k in db.register):
        F.append(("a %s database copy or update shares only series objects (adding to the copy leaves the source alone)" % word,
                  "%d keys in source" % n0, "%d keys" % len(db.register_keys)))
    return F


def check_case(inp):
    """evaluate a copy / db case; an exception raised by the implementation is a failing clause"""
    try:
        if inp["kind"] == "copy":
            return check_copy_case(inp)
        if inp["kind"] == "db":
            return check_db_case(inp)
        if inp["kind"] == "query":
            return check_query_case(inp)
        raise ValueError(inp["kind"])
    except Exception as e:
        tb = traceback.extract_tb(e.__traceback__)
        loc = ["%s:%d %s" % (os.path.basename(fr.filename), fr.lineno, fr.name) for fr in tb[-3:]]
        return [("evaluating the case (queries / copying and comparing a series or database) completes without an exception", "no exception",
                 dict(exception=repr(e)[:300], where=loc))]


def gen_copy_cases(rng, quick):
    cases = []
    sid = 0
    for g in GRIDS:
        for d in DTGS:
            hists = [[], ["dtg_time"]]
            for _ in range(1 if quick else 5):
                hists.append([rng.choice(HIST_OPS) for _ in range(rng.randint(1, 4))])
            if not quick:
                hists.append(list(HIST_OPS))
            for h in hists:
                hows = HOWS if (not quick or h == ["dtg_time"]) else rng.sample(HOWS, 2)
                for how in hows:
                    sid += 1
                    cases.append(dict(kind="copy", series=dict(name="s", grid=g, dtg=d, n=rng.choice([12, 40, 75]), seed=sid),
                                      history=h, how=how))
    return cases


def gen_db_cases(rng, quick):
    cases = []
    N = 40 if quick else 400
    for i in range(N):
        nfiles = rng.choice([0, 1, 1, 1, 2]) if i >= 8 else 1 + (i % 2)
        files, names = [], []
        for f in range(nfiles):
            nms = ["%s%d" % ("ab"[f], j) for j in range(rng.randint(1, 4))]
            files.append(dict(fmt=FORMATS[(i + f) % 4] if i < 8 else rng.choice(FORMATS), names=nms, grid=rng.choice(["half", "third"]),
                              n=rng.choice([8, 30])))
            names += nms
        mem = []
        for j in range(rng.choice([0, 0, 1, 2]) if nfiles else rng.randint(1, 3)):
            mem.append(dict(name="m%d" % j, grid=rng.choice(GRIDS), dtg=rng.choice(DTGS), n=rng.choice([8, 30]), seed=1000 + i * 10 + j,
                            parent=None))
        allnames = names + [m["name"] for m in mem]
        mode = i % 4 if i < 8 else rng.randrange(4)          # which file series have been read before: none / some / all / some
        if mode == 0:
            pre = []
        elif mode == 2:
            pre = list(names)
        else:
            pre = [nm for nm in names if rng.random() < 0.5]
        hist = {}
        for nm in allnames:
            if (nm in pre or nm.startswith("m")) and rng.random() < 0.4:
                hist[nm] = [rng.choice(HIST_OPS) for _ in range(rng.randint(1, 3))]
        select = None
        if rng.random() < 0.4:
            select = rng.sample(allnames, rng.randint(1, len(allnames)))
        cases.append(dict(kind="db", seed=i + 1, files=files, mem=mem, preload=pre, history=hist, select=select,
                          how=("copy", "update")[(i // 4) % 2] if i < 8 else rng.choice(["copy", "update"]),
                          shallow=bool(i % 2) if i >= 8 else False if i < 6 else True))
    return cases


def run(chk):
    from qats.app import funcs
    chk.extra["rule"] = RULE
    chk.assumptions += ["aliasing is observed with np.shares_memory and object identity; the Lean step programs mirror TimeSeries.get / minima"]
    chk.partial += ["the ownership theorems are about the step model; CPython/numpy aliasing itself is observed, not proved"]
    rng = chk.rng
    drv = core.Driver()
    combos = list(itertools.product([False, True], ["none", "step", "array"], [False, True], [None, "lp", "hp", "bp", "bs"], [False, True]))
    lines, meta = [], []
    for uniform in (True, False):
        ts = make_series(rng, uniform)
        for (tw, rs, tp, flt, sm) in combos:
            if tw and rs == "array":
                continue        # refused by get (assertion)
            kw = {}
            if tw:
                kw["twin"] = (float(ts.t[20]), float(ts.t[-30]))
            arr = None
            if rs == "step":
                kw["resample"] = 0.4
            elif rs == "array":
                arr = np.linspace(ts.t[5], ts.t[-5], 300)
                kw["resample"] = arr
            if tp:
                kw["taperfrac"] = 0.1
            if flt:
                kw["filterargs"] = {"lp": ("lp", 0.2), "hp": ("hp", 0.05), "bp": ("bp", 0.05, 0.3), "bs": ("bs", 0.1, 0.2)}[flt]
            if sm:
                kw["window_len"] = 5
            methods = METHODS if not chk.quick else ["get", "minima"] + rng.sample(METHODS[1:], 3)
            for m in methods:
                unif = (not uniform)
                lines.append("own.%s %d %s %d %d %d %d" % ("minima" if m == "minima" else "get", tw, rs, unif, tp, flt is not None, sm))
                meta.append((uniform, ts, dict(kw), arr, m, (tw, rs, tp, flt, sm)))
    outs = drv.run(lines)
    for (uniform, ts, kw, arr, m, combo), o in zip(meta, outs):
        inp = dict(uniform=uniform, method=m, twin=combo[0], resample=combo[1], taper=combo[2], filter=combo[3], smooth=combo[4])
        chk.count("query")
        chk.nontriv(repr(inp))
        chk.dist("method:" + m)
        before = snap(ts)
        arr0 = None if arr is None else arr.copy()
        try:
            mid = None
            r1 = call(ts, m, kw)
            mid = snap(ts)
            r2 = call(ts, m, kw)
        except Exception as e:
            chk.dist("raised:" + type(e).__name__)
            after = snap(ts)
            if after != before:
                chk.fail("a query leaves the stored time, data and attributes bit-for-bit unchanged (also when it raises)", inp,
                         "unchanged", "changed after " + type(e).__name__)
            continue
        after = snap(ts)
        if mid != before:           # after the first call (two in-place sign flips would cancel)
            chk.fail("a query leaves the stored time, data and attributes bit-for-bit unchanged", inp, "unchanged", what_changed(before, mid))
        elif after != before:
            chk.fail("a query leaves the stored time, data and attributes bit-for-bit unchanged", inp, "unchanged", what_changed(before, after))
        if arr is not None and not np.array_equal(arr, arr0):
            chk.fail("a query does not modify the caller's resampling array", inp, "unchanged", "changed")
        if not same(r1, r2):
            chk.fail("a repeated query gives the same answer", inp, "equal", "different")
        obs = readonly_probe(ts, m, kw, r1)
        if obs is not None:
            chk.fail(RO_ORACLE, inp, "same answer, no write", obs)
        if snap(ts) != before:
            chk.fail("a query leaves the stored time, data and attributes bit-for-bit unchanged", inp, "unchanged", "changed (third call)")
        res = arrays_in(r1)
        for a in res:
            if np.shares_memory(a, ts.t) or np.shares_memory(a, ts.x):
                chk.fail("returned arrays do not alias the stored ones", inp, "no shared memory", "shares memory with stored array")
                break
        # model tags
        tags = dict(kv.split("=") for kv in o.split()[1:])
        if m in ("get", "minima"):
            pred_arg = tags["t"] == "arg"
            t_ret = r1[0] if m == "get" else None
            if m == "get":
                is_arg = arr is not None and (t_ret is arr or np.shares_memory(t_ret, arr))
                if pred_arg != is_arg:
                    chk.disagree("own.get", inp, o, "returned time %s the caller's array" % ("is" if is_arg else "is not"))
            if tags["t"] == "stored" or tags["x"] == "stored" or "stored" in tags["writes"]:
                chk.disagree("own." + m, inp, o, "model predicts access to stored arrays")
    # ---- boundary values of the options, as a history on one series ---------------------------------------------------------------
    for inp in [c for c in core.load_corpus("C10") if c.get("kind") == "query"]:
        chk.count("query-boundary")
        for oracle, expected, observed in check_case(inp):
            chk.fail(oracle, inp, expected, observed)
    run_query_cases(chk)
    # ---- copies of series and databases (cases) ---------------------------------------------------------------------------------
    cases = [c for c in core.load_corpus("C10") if c.get("kind") in ("copy", "db")]
    cases += gen_copy_cases(rng, chk.quick) + gen_db_cases(rng, chk.quick)
    for inp in cases:
        chk.count(inp["kind"] + "-case")
        if inp["kind"] == "copy":
            chk.dist("copy:%s/%s/%s" % (inp["series"]["grid"], inp["series"]["dtg"], inp["how"]))
            if inp["history"]:
                chk.nontriv(repr(inp))
        else:
            fb = [nm for f in inp["files"] for nm in f["names"]]
            state = "no-file" if not fb else "none-read" if not inp["preload"] else "all-read" if len(inp["preload"]) == len(fb) else "some-read"
            chk.dist("db:%s/%s/%s/%s" % (inp["how"], "shallow" if inp["shallow"] else "deep", state, "selection" if inp["select"] else "all"))
            for f in inp["files"]:
                chk.dist("format:" + f["fmt"])
            if fb:
                chk.nontriv(repr(inp))
        for oracle, expected, observed in check_case(inp):
            chk.fail(oracle, inp, expected, observed)
    # ---- the four GUI computations concurrently on the same series ------------------------------------------------------------------
    rounds = 6 if chk.quick else 200
    series = {"a": make_series(rng, True, n=2000), "b": make_series(rng, False, n=1500)}
    twin, fargs = (50.0, 700.0), ("lp", 0.3)
    jobs = [("psd", lambda: funcs.calculate_psd(series, twin, fargs, 256, False)),
            ("rfc", lambda: funcs.calculate_rfc(series, twin, fargs, 32)),
            ("trace", lambda: funcs.calculate_trace(series, twin, fargs)),
            ("stats", lambda: funcs.calculate_stats(series, twin, fargs, False))]
    seq = {nm: f() for nm, f in jobs}
    befores = {k: snap(v) for k, v in series.items()}
    for r in range(rounds):
        out, errs = {}, []

        def work(nm, f):
            try:
                out[nm] = f()
            except Exception as e:
                errs.append((nm, repr(e)))
        order = jobs[:]
        rng.shuffle(order)
        th = [threading.Thread(target=work, args=j) for j in order]
        for t_ in th:
            t_.start()
        for t_ in th:
            t_.join()
        chk.count("threads")
        chk.nontriv(("threads", r))
        if errs:
            chk.fail("the four GUI computations run concurrently on the same series without error", dict(round=r), "no error", errs)
        for nm in seq:
            if nm in out and not same(out[nm], seq[nm]):
                chk.fail("concurrent and sequential execution of the GUI computations give the same answer", dict(round=r, computation=nm),
                         "equal", "different")
        for k, v in series.items():
            if snap(v) != befores[k]:
                chk.fail("the GUI computations leave the shared series unchanged", dict(round=r, series=k), "unchanged", "changed")
    chk.sample(dict(method="minima", options="twin + resample step + taper + lp + smooth", model=outs[1] if outs else ""))


def replay(rp):
    import random
    inp = rp["input"]
    if inp.get("kind") in ("copy", "db", "query"):
        F = check_case(inp)
        for oracle, expected, observed in F:
            print("FAILS: %s\n       expected %s, observed %s" % (oracle, expected, observed))
        print("replay: %d failing clause(s)" % len(F))
        return 1 if F else 0
    if "method" not in inp:
        print("re-run ./check C10 %s" % rp.get("tier", "quick"))
        return 1
    ts = make_series(random.Random(0), inp["uniform"])
    kw = {}
    if inp["twin"]:
        kw["twin"] = (float(ts.t[20]), float(ts.t[-30]))
    if inp["resample"] == "step":
        kw["resample"] = 0.4
    elif inp["resample"] == "array":
        kw["resample"] = np.linspace(ts.t[5], ts.t[-5], 300)
    if inp["taper"]:
        kw["taperfrac"] = 0.1
    if inp["filter"]:
        kw["filterargs"] = {"lp": ("lp", 0.2), "hp": ("hp", 0.05), "bp": ("bp", 0.05, 0.3), "bs": ("bs", 0.1, 0.2)}[inp["filter"]]
    if inp["smooth"]:
        kw["window_len"] = 5
    before = snap(ts)
    r = call(ts, inp["method"], kw)
    bad = 0
    if snap(ts) != before:
        print("FAILS: stored arrays / attributes changed")
        bad += 1
    if any(np.shares_memory(a, ts.t) or np.shares_memory(a, ts.x) for a in arrays_in(r)):
        print("FAILS: result aliases stored array")
        bad += 1
    if not same(r, call(ts, inp["method"], kw)):
        print("FAILS: repeated query gives a different answer")
        bad += 1
    obs = readonly_probe(ts, inp["method"], kw, r)
    if obs is not None:
        print("FAILS: %s\n       observed: %s" % (RO_ORACLE, obs))
        bad += 1
    print("replay: %d failing clause(s)" % bad)
    return 1 if bad else 0
