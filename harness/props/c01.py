"""
C01 — a series read from a file is the series stored under that name.

Tie: real files of all ten readable formats (.ts .tda .bin .asc .dat .csv .h5 .pkl .mat .tdms) are synthesised with pairwise
distinct, recognisable values; seeded retrieval histories (load lazily / eagerly, get / geta / getm / getd / getl / getda by name,
wildcard or index, store on/off, one to three files per database) are run on the real `TsDB` and on the Lean model
`Qats.ReadBind.step` (`rb.run`); after every operation the outcome (error kind / keys, names, time and data arrays in container
order) and the set of cached keys are compared.
Search (independent of the model): "the value at (name, sample i) is what the generator wrote" for every returned series whose
identity is known by construction (full container key, exact unique name, register index), "every name stored in a file is
registered, in file order" after each load (names include ones that begin with / contain a word special elsewhere in the format;
.h5 data sets and .tdms waveform channels of one file agree in start only / step only / both / neither), completeness and order of simple
requests, and all non-empty ordered subsets of the names of a file under three cache states.  Files also hold names that differ
only in letter case (each must resolve to itself: every name of a file is asked for on its own, uncached and cached, then all of them
in reverse order), and files are re-written at the same path between sessions of the same process (same names with other values, or
other names / length), each version being opened in a new database: what is returned is what the file holds now.
"""
import itertools
import os
import shutil
import struct
import tempfile
from fractions import Fraction

import numpy as np

from .. import core
from ..dbutil import err_enum, hx, hxlist, unhx, unhxlist

FORMATS = ["ts", "tda", "bin", "asc", "dat", "csv", "h5", "pkl", "mat", "tdms"]
STYLE = dict(ts="direct", tda="direct", bin="fancy", asc="fancy", dat="fancy", pkl="fancy", csv="csv", h5="byName", mat="byName",
             tdms="byName")
FLOAT32 = ("ts", "tda", "bin")          # formats that store 4-byte reals
F15 = "asc-first-row-missing"

RULE = ("files: per format 4 (quick) / 6 (thorough) synthesised files with 1-5 series x 2-6 samples, names in non-alphabetical file "
        "order (incl. prefixes of each other, a space, unit brackets where the format allows; one fixed file per format and a third "
        "of the random ones with names that begin with / contain a word special elsewhere in the format: End1, ENDURANCE, Time, "
        "uptime, fs2, Timer ...; one fixed file per format and a fifth of the random ones with 2-3 names that differ only in letter "
        "case: Fx/FX/fx, .bin/.asc via key-file line ids ML01/ml01/Ml01), value = 1000*file + 10*column + sample/4, per-series time arrays for .h5 (series of a file agreeing "
        "in start only, in step only, in both, in neither) and .tdms (time channel per group, or waveform channels with their own "
        "zero / positive / negative start offset and increment); histories: 1-3 files per database, first op a load (30% read=True), then <= 5 ops drawn "
        "from further loads and get/geta/getm/getd/getl/getda with exact names, full keys, '*', prefix wildcards, '<file>/*', lists of "
        "1-4 patterns in random order with repeats, index lists with repeats, store on/off; plus per file ordered subsets of the names "
        "(all 64 for <= 4 names in thorough, 14 corner subsets in quick) by name and by index on a fresh, an eagerly read and a partly "
        "cached database; per file with keyword-like / case-variant names a sweep (each name alone by get/geta, all names reversed, "
        "every second name, each name again cached); per format 2 (quick) / 10 (thorough) chains of 3 sessions in which the 1-2 files "
        "of the database are re-written at the same path (same names and length with other values / other names and length / "
        "unchanged) and opened in a new database of the same process; non-trivial = request that is a proper subset, out of file order, repeats a key or mixes cached and "
        "uncached keys, or any request of a later session; distinct by (file contents, history)")

SIMA_KEY = """
   R I F L E X  -  KEY FILE
   ------------------------


   This key-file describes the contents of : %(fn)s
   The format of %(fn)s is %(kind)s
   The file %(fn)s contains a time series of element-forces
   The element-forces are stored in columns on %(fn)s

   Column no. 1 contains FORTRAN specific data (please ignore)

   Column no. 2 contains the time.


   For each bar element the following applies :

   DOF 1 = Axial force


   The response is stored as follows

   Line   Local     Local      No. of         Stored in
    Id    segment   element    responses      column(s)
   ------------------------------------------------------
%(rows)s
   Column no.          %(last)d contains FORTRAN specific data (please ignore)
"""

TDA_KEY_HEAD = """** Info about series written by SIMO-S2XMOD
** 26-NOV-2016 20:59
** Number of samples :     %d
** --------------------------------------------------
** Series number at file :     1
** Channel name          : Info_arr
Info_arr
** --------------------------------------------------
** Series number at file :     2
** Channel name          : Time_arr
Time_arr
"""


# ----------------------------------------------------------------------------------------------------------
# file synthesis
# ----------------------------------------------------------------------------------------------------------
def sima_rows(k):
    """default key-file rows (line id, segment, element), one response per row"""
    return [["ML%02d" % (j + 1), 1 + j % 2, 1 + j // 2] for j in range(k)]


def sima_names(k, rows=None):
    """the names `read_sima_names` derives from the key-file rows written by `sima_keyfile` (one response per row)"""
    return ["%s_Seg%03d_El%03d_Te" % (ln, sg, el) for ln, sg, el in (rows or sima_rows(k))]


def sima_keyfile(path, datafile, k, kind, rows=None):
    rows = "".join(" %-4s      %8d  %8d  %8d  %16d\n" % (ln, sg, el, 1, j + 3) for j, (ln, sg, el) in enumerate(rows or sima_rows(k)))
    with open(path, "w") as f:
        f.write(SIMA_KEY % dict(fn=datafile, kind=kind, rows=rows, last=k + 3))


def num(v):
    return repr(float(v))


def write_file(root, spec):
    """spec: dict(fmt, base, names, time, cols, own, tdms_wf); returns the path of the data file"""
    fmt, names = spec["fmt"], spec["names"]
    t = np.array(spec["time"], dtype=float)
    cols = [np.array(c, dtype=float) for c in spec["cols"]]
    n, k = len(t), len(names)
    root = os.path.join(root, spec.get("dir", ""))
    os.makedirs(root, exist_ok=True)
    path = os.path.join(root, spec["base"] + "." + fmt)
    if fmt == "ts":
        from qats.io.direct_access import write_ts_data
        write_ts_data(path, t, {nm: (t, c) for nm, c in zip(names, cols)})
    elif fmt == "tda":
        with open(path, "wb") as f:
            f.write(struct.pack("<%df" % n, *([float(n), float(k + 2)] + [0.0] * (n - 2))))
            f.write(struct.pack("<%df" % n, *t))
            for c in cols:
                f.write(struct.pack("<%df" % n, *c))
        with open(os.path.join(root, spec["base"] + ".txt"), "w") as f:
            f.write(TDA_KEY_HEAD % n)
            for j, nm in enumerate(names):
                f.write("** --------------------------------------------------\n** Series number at file : %5d\n%s\n" % (j + 3, nm))
            f.write("END\n")
    elif fmt == "bin":
        with open(path, "wb") as f:
            for i in range(n):
                f.write(struct.pack("<i", 4 * (k + 1)))
                f.write(struct.pack("<%df" % (k + 1), t[i], *[c[i] for c in cols]))
                f.write(struct.pack("<i", 4 * (k + 1)))
        sima_keyfile(os.path.join(root, "key_" + spec["base"] + ".txt"), spec["base"] + ".bin", k, "BINARY", spec.get("sima_rows"))
    elif fmt == "asc":
        with open(path, "w") as f:
            f.write("# exported\n# time and responses column-wise\n")
            for i in range(n):
                f.write("  ".join(num(v) for v in [t[i]] + [c[i] for c in cols]) + "\n")
        sima_keyfile(os.path.join(root, "key_" + spec["base"] + ".txt"), spec["base"] + ".asc", k, "ASCII", spec.get("sima_rows"))
    elif fmt == "dat":
        with open(path, "w") as f:
            f.write("# generated\n")
            f.write("  ".join(["time"] + names) + "\n")
            for i in range(n):
                f.write("  ".join(num(v) for v in [t[i]] + [c[i] for c in cols]) + "\n")
    elif fmt == "csv":
        with open(path, "w") as f:
            f.write(",".join(["time"] + names) + "\n")
            for i in range(n):
                f.write(",".join(num(v) for v in [t[i]] + [c[i] for c in cols]) + "\n")
    elif fmt == "pkl":
        import pandas as pd
        df = pd.DataFrame({nm: c for nm, c in zip(names, cols)})
        df.index = t
        df.to_pickle(path)
    elif fmt == "h5":
        import h5py
        with h5py.File(path, "w") as f:
            for nm, c, own in zip(names, cols, spec["own"]):
                d = f.create_dataset(nm.replace("\\", "/"), data=c)
                d.attrs["start"] = np.array([own[0]])
                d.attrs["delta"] = np.array([own[1] - own[0]])
                d.attrs["name"] = np.array([nm.split("\\")[-1].encode()])
            f.create_dataset("zz_not_a_series", data=np.array([1.0]))   # no start/delta attribute: must be ignored
    elif fmt == "mat":
        from scipy.io import savemat
        d = {"Time": t}
        for nm, c in zip(names, cols):
            d[nm] = c
        d["fs"] = 2.0
        d["comment"] = "generated"
        savemat(path, d)
    elif fmt == "tdms":
        from nptdms import ChannelObject, TdmsWriter
        groups = []
        for nm in names:
            g = nm.split("\\")[0]
            if g not in groups:
                groups.append(g)
        with TdmsWriter(path) as w:
            objs = []
            for g in groups:
                members = [(nm, c, own) for nm, c, own in zip(names, cols, spec["own"]) if nm.split("\\")[0] == g]
                if spec["tdms_wf"].get(g):
                    for nm, c, own in members:
                        objs.append(ChannelObject(g, nm.split("\\")[1], c, properties={
                            "wf_start_offset": float(own[0]), "wf_increment": float(own[1] - own[0])}))
                else:
                    objs.append(ChannelObject(g, "Time", np.array(members[0][2], dtype=float)))
                    for nm, c, own in members:
                        objs.append(ChannelObject(g, nm.split("\\")[1], c))
            w.write_segment(objs)
    else:
        raise ValueError(fmt)
    return path


POOL_PLAIN = ["b", "a", "ab", "c", "a1", "x", "Tn", "yy"]
POOL_RICH = ["b", "a", "ab", "x y", "T [kN]", "c", "a1", "yy"]
# legitimate series names that begin with / contain a word the format's reader treats specially elsewhere (key-file terminator
# END, the time column / time channel, the ignored .mat fields).  Names the format itself reserves are NOT generated: a line
# equal to END or starting with ** or ' in a key file, a second [Tt]ime* column in .dat/.mat, a channel called time in .tdms.
POOL_KEYWORD = dict(ts=["End1", "end_b", "ENDURANCE", "Bend", "a END"], tda=["End1", "end_b", "ENDURANCE", "Bend", "a END"],
                    dat=["uptime", "Endtime", "x#1"], csv=["Time", "time2", "uptime", "End1"], pkl=["Time", "time", "End1", "uptime"],
                    h5=["Timer", "start", "delta", "End1"], mat=["fs2", "comment2", "uptime", "test_num2"],
                    tdms=["Timer", "time2", "wf_increment", "End1"])


# names that differ only in the case of their letters are different names (e.g. local force Fx / global force FX)
POOL_CASE = [["Fx", "FX", "fx"], ["ab", "Ab", "AB"], ["Tn", "tn", "TN"], ["yy", "YY", "yY"]]


def gen_spec(rng, fi, fmt, k=None, n=None, variant=None):
    """contents of file number `fi`: names in file order, common time, columns, per-series time (h5/tdms).
    Variants 0, 1 and 2 have a fixed structure, later ones are random:
      0, 1: 3 series; h5: data sets at top level and in a group, two of them with the same start but a different step and two with
            the same step but a different start; tdms: two groups, variant 0 both with a time channel (different time arrays),
            variant 1 the first with waveform properties (per channel: a positive and a negative start offset, different steps);
      2:    4 series of which the 1st and 3rd carry a name from POOL_KEYWORD (begins with / contains a word that is special
            elsewhere in the format); tdms: both groups with waveform properties, offsets 0 and non-zero side by side;
      3:    4 series of which the 1st, 3rd and 4th have names that differ only in letter case (POOL_CASE; .bin/.asc: key-file line
            ids ML01 / ml01 / Ml01 with the same segment and element); h5: all at top level; tdms: all three in the same group."""
    fixed = variant in (0, 1, 2, 3)
    k = k or (4 if variant in (2, 3) else 3 if fixed else rng.choice([1, 2, 3, 3, 4, 5]))
    n = n or rng.randint(2, 6)
    if fmt == "asc":
        n = max(n, 3)       # with 2 samples the row lost to F15 leaves one row, which np.loadtxt returns 1-D (IndexError; same root cause)
    t0, dt = rng.choice([0.0, 0.5, 2.0, -1.0]), rng.choice([0.25, 0.5, 1.0, 2.0])
    time = [t0 + dt * i for i in range(n)]
    cols = [[1000.0 * (fi + 1) + 10.0 * (j + 1) + 0.25 * i for i in range(n)] for j in range(k)]
    own, wf = None, {}

    casefile = variant == 3 or (not fixed and rng.random() < 0.2)
    casepos = [p for p in dict.fromkeys([0, 2, k - 1]) if 0 <= p < k]

    def pick(pool):
        """k names of the pool; variant 2 (and a third of the random files): keyword-like names at positions 0 and 2;
        variant 3 (and a fifth of the random files): names differing only in case at positions 0, 2 and k-1"""
        kw = POOL_KEYWORD.get(fmt, [])
        if casefile:
            grp = rng.choice(POOL_CASE)
            cs = rng.sample(grp, min(len(grp), len(casepos)))
            out = rng.sample([nm for nm in pool if nm.lower() != grp[0].lower()], k)
            for pos, nm in zip(casepos, cs):
                out[pos] = nm
            return out
        if not kw or not (variant == 2 or (not fixed and rng.random() < 0.35)):
            return rng.sample(pool, k)
        kws = rng.sample(kw, min(2, len(kw)))
        out = rng.sample([nm for nm in pool if nm not in kws], k)
        for pos, nm in zip((0, 2), kws):
            if pos < k:
                out[pos] = nm
        return out

    rows = None
    if fmt in ("bin", "asc"):
        if casefile:
            # the line id of a key-file row is free text: rows that differ only in its case
            rows = sima_rows(k)
            for pos, f in zip(casepos[1:], rng.sample([str.lower, str.capitalize], 2)):
                rows[pos] = [f(rows[casepos[0]][0])] + rows[casepos[0]][1:]
        names = sima_names(k, rows)
    elif fmt == "h5":
        chosen = pick(POOL_RICH)
        grp = set(nm for nm in chosen if rng.random() < 0.4)
        if variant in (0, 1) and k >= 2:
            grp = set(chosen[:1])
        if variant == 3:
            grp = set()
        names = sorted(nm for nm in chosen if nm not in grp) + ["g1\\" + nm for nm in sorted(grp)]   # h5py lists links by name
    elif fmt == "tdms":
        chosen = pick(POOL_RICH)
        cut = rng.randint(1, k)
        wf = {"g1": rng.random() < 0.5, "g2": rng.random() < 0.5}
        if variant in (0, 1) and k >= 2:
            cut, wf = k - 1, {"g1": variant == 1, "g2": False}
        if variant == 2:
            cut, wf = k - 2, {"g1": True, "g2": True}
        if variant == 3:
            chosen = [chosen[i] for i in (0, 2, 3, 1)]        # the case variants share group g1
            cut = 3
        names = ["g1\\" + nm for nm in chosen[:cut]] + ["g2\\" + nm for nm in chosen[cut:]]
    elif fmt in ("csv", "pkl"):
        names = pick(POOL_RICH + ["T [kN/m]"])        # unit brackets with a '/' (not for h5/tdms: group separator)
    elif fmt in ("ts", "tda", "dat"):
        names = pick(POOL_PLAIN + ["Vel[m/s]"])
    else:
        names = pick(POOL_PLAIN)
    if fmt == "h5":
        # every data set has its own (start, delta): series of one file may agree in the start, in the step, in both or in neither
        d0, d1 = rng.sample([0.25, 0.5, 1.0], 2)
        if variant == 0:
            par = [(t0, d0), (t0, d1), (t0 + 0.5, d0)]
        elif variant == 1:
            par = [(t0, d0), (t0 + 0.5, d0), (t0, d1)]
        else:
            par = []
        while len(par) < k:
            par.append((t0 + rng.choice([0.0, 0.0, 0.5, 1.5]), rng.choice([d0, d0, d1, 2.0])))
        own = [[s + d * i for i in range(n)] for s, d in par[:k]]
    if fmt == "tdms":
        # a group with a time channel has one time array (never the one of the other group); waveform channels carry their own
        # start offset (zero, positive, negative) and increment
        own = []
        s0 = rng.choice([0.0, 1.0, 2.5])
        offs = {"g1": [1.5, -0.5, 0.0, 2.5], "g2": [0.0, -1.0, 3.0, 0.5]}
        seen = {"g1": 0, "g2": 0}
        pergroup = {}
        for g, s in (("g1", s0), ("g2", s0 + 0.5)):
            d = rng.choice([0.25, 0.5, 1.0])
            pergroup[g] = [s + d * i for i in range(n)]
        for nm in names:
            g = nm.split("\\")[0]
            if wf.get(g):
                o = offs[g][seen[g] % 4] if fixed else rng.choice(offs[g])
                d = rng.choice([0.25, 0.5, 1.0])
                seen[g] += 1
                own.append([o + d * i for i in range(n)])
            else:
                own.append(pergroup[g])
    return dict(fmt=fmt, base="f%d_elmfor" % fi, dir="d%d" % (fi % 2), names=names, time=time, cols=cols, own=own, tdms_wf=wf, fi=fi,
                sima_rows=rows)


def stored(spec, j):
    """what the generator wrote under the j-th name: (name, time, data)"""
    return spec["names"][j], (spec["own"][j] if spec["own"] else spec["time"]), spec["cols"][j]


# ----------------------------------------------------------------------------------------------------------
# histories (symbolic: files by position in the history's file list, patterns resolved against the actual paths)
# ----------------------------------------------------------------------------------------------------------
def resolve(pat, specs, paths):
    kind = pat[0]
    if kind == "lit":
        return pat[1]
    if kind == "key":
        return paths[pat[1]] + os.path.sep + specs[pat[1]]["names"][pat[2]]
    if kind == "file":
        return os.path.basename(paths[pat[1]]) + os.path.sep + "*"
    raise ValueError(pat)


def gen_pattern(rng, specs, loaded):
    fi = rng.choice(loaded) if loaded else 0
    names = specs[fi]["names"]
    r = rng.random()
    if r < 0.55:
        return ["lit", rng.choice(names)]
    if r < 0.65:
        return ["key", fi, rng.randrange(len(names))]
    if r < 0.75:
        return ["lit", "*"]
    if r < 0.83:
        return ["file", fi]
    if r < 0.93:
        nm = rng.choice(names)
        return ["lit", nm[:max(1, len(nm) // 2)] + "*"]
    return ["lit", rng.choice(["nomatch", "?", "*a*"])]


def gen_history(rng, specs, maxops=6):
    """specs: the files of this database (1-3); ops are lists (JSON friendly)"""
    order = list(range(len(specs)))
    rng.shuffle(order)
    ops = [["load", order[0], rng.random() < 0.3]]
    loaded, todo = [order[0]], order[1:]
    nkeys = len(specs[order[0]]["names"])
    for _ in range(rng.randint(1, maxops - 1)):
        if todo and rng.random() < 0.35:
            fi = todo.pop(0)
            ops.append(["load", fi, rng.random() < 0.3])
            loaded.append(fi)
            nkeys += len(specs[fi]["names"])
            continue
        if rng.random() < 0.04:
            ops.append(["load", rng.choice(loaded), False])      # refused: already registered
            continue
        store = rng.random() < 0.6
        api = rng.choice(["getm", "getm", "getd", "getl", "getda", "get", "geta"])
        if api in ("get", "geta"):
            if rng.random() < 0.6:
                sel = ["name", gen_pattern(rng, specs, loaded)]
            else:
                sel = ["ind", rng.randrange(nkeys + (1 if rng.random() < 0.1 else 0))]
            ops.append([api, sel, store])
        else:
            r = rng.random()
            if r < 0.08:
                sel = ["names", None]
            elif r < 0.65:
                sel = ["names", [gen_pattern(rng, specs, loaded) for _ in range(rng.choice([1, 1, 2, 2, 3, 4]))]]
            else:
                sel = ["ind", [rng.randrange(nkeys + (1 if rng.random() < 0.03 else 0)) for _ in range(rng.choice([1, 2, 2, 3, 4]))]]
            ops.append([api, sel, store, rng.random() < 0.6])
    return ops


def subset_histories(spec, quick, rng):
    """ordered subsets of the names of one file, by name and by index, under three cache states"""
    k = len(spec["names"])
    subs = [list(p) for r in range(1, k + 1) for p in itertools.permutations(range(k), r)]
    if quick or k > 4:
        corner = [list(range(k))[::-1], [k - 1], [k - 1, 0] if k > 1 else [0], list(range(1, k)) or [0], [0, k - 1, 0],
                  [k // 2, k - 1, k // 2, 0][:k + 1], list(range(k))]
        rest = [s for s in subs if s not in corner]
        rng.shuffle(rest)
        subs = corner + rest[:7]
    out = []
    for s in subs:
        for state in ("fresh", "eager", "partial"):
            pre = [["load", 0, state == "eager"]]
            if state == "partial":
                pre.append(["getm", ["ind", [rng.randrange(k)]], True, True])
            byname = rng.random() < 0.5
            sel = ["names", [["lit", spec["names"][j]] for j in s]] if byname else ["ind", list(s)]
            store = rng.random() < 0.5
            out.append(pre + [[rng.choice(["getm", "getda", "getl"]), sel, store, True],
                              ["getm", ["ind", list(s)] if byname else ["names", [["key", 0, j] for j in s]], not store, True]])
    return out


def sweep_history(spec, rng):
    """every name of a file asked for on its own (uncached / cached), then all of them and every second one in reverse file order"""
    names = spec["names"]
    rev = list(range(len(names)))[::-1]
    ops = [["load", 0, rng.random() < 0.3]]
    for j in rev:
        ops.append([rng.choice(["get", "geta"]), ["name", ["lit", names[j]]], rng.random() < 0.5])
    ops.append([rng.choice(["getm", "getd", "getda"]), ["names", [["lit", names[j]] for j in rev]], False, True])
    ops.append(["getl", ["names", [["lit", names[j]] for j in rev[::2]]], True, True])
    for j in range(len(names)):
        ops.append(["get", ["name", ["lit", names[j]]], True])
    return ops


def rewritten(rng, sp, fi, mode):
    """contents for a later version of the file of `sp` at the SAME path: mode 'keep' = unchanged, 'values' = same names and length,
    other time and data values, 'new' = other names / number of series / length"""
    if mode == "keep":
        return sp
    if mode == "values":
        new = dict(sp, fi=fi)
        new["cols"] = [[1000.0 * (fi + 1) + 10.0 * (j + 1) + 0.25 * i for i in range(len(c))] for j, c in enumerate(sp["cols"])]
        new["time"] = [v + 64.0 for v in sp["time"]]
        if sp["own"]:
            new["own"] = [[v + 64.0 for v in o] for o in sp["own"]]
        return new
    new = gen_spec(rng, fi, sp["fmt"])
    return dict(new, base=sp["base"], dir=sp["dir"])


def session_histories(rng, first, fi0):
    """the files of `first` (1-2 specs) exist in 3 successive versions at the same paths; every version is opened in a new database
    (same process) and queried.  Returns [(specs, ops)] per session."""
    out = [(list(first), None)]
    for s, modes in enumerate((["values", "keep"], ["new", "values"])):
        if rng.random() < 0.5:
            modes = modes[::-1]
        out.append(([rewritten(rng, sp, fi0 + 2 * s + i, modes[i]) for i, sp in enumerate(out[-1][0])], None))
    res = []
    for sps, _ in out:
        ops = gen_history(rng, sps, maxops=5)
        pending = [i for i in range(len(sps)) if not any(op[0] == "load" and op[1] == i for op in ops)]
        ops += [["load", i, rng.random() < 0.3] for i in pending]
        ops.append(["getm", ["names", None], rng.random() < 0.5, True])
        res.append((sps, ops))
    return res


def encode(specs, paths, ops):
    toks = []
    for sp, p in zip(specs, paths):
        vals = list(sp["time"]) + [v for c in sp["cols"] for v in c]
        if sp["own"]:
            vals += [v for c in sp["own"] for v in c]
        toks.append("F %s %s %s %d %d %d %s" % (sp["fmt"], hx(p), hxlist(sp["names"]), len(sp["time"]), len(sp["names"]),
                                                1 if sp["own"] else 0, " ".join(core.rat(v) for v in vals)))
    for op in ops:
        if op[0] == "load":
            toks.append("load %s %d" % (hx(paths[op[1]]), op[2]))
            continue
        sel, store = op[1], op[2]
        if op[0] in ("get", "geta"):
            if sel[0] == "name":
                toks.append("get %d n %s" % (store, hx(resolve(sel[1], specs, paths))))
            else:
                toks.append("get %d i %d" % (store, sel[1]))
        else:
            if sel[0] == "names":
                toks.append("getm %d n %s" % (store, "none" if sel[1] is None else hxlist([resolve(p, specs, paths) for p in sel[1]])))
            else:
                toks.append("getm %d i %s" % (store, ",".join(str(i) for i in sel[1]) or "="))
    return "rb.run " + " ; ".join(toks)


def parse_reply(reply):
    """model reply -> list of (out, cached keys); out = 'done' | 'err kind' | [(key, name, t, x)]"""
    assert reply.startswith("ok "), reply
    recs = []
    for rec in reply[3:].split(" ; "):
        out, cached = rec.split(" # ")
        if out.startswith("series "):
            items = []
            body = out[7:]
            if body != "=":
                for it in body.split("&"):
                    kn, t, x = it.split("|")
                    k, nm = kn.split("=")
                    items.append((unhx(k), unhx(nm), [] if t == "=" else [Fraction(v) for v in t.split(",")],
                                  [] if x == "=" else [Fraction(v) for v in x.split(",")]))
            out = items
        recs.append((out, unhxlist(cached)))
    return recs


# ----------------------------------------------------------------------------------------------------------
# running the implementation
# ----------------------------------------------------------------------------------------------------------
def tol_of(fmt):
    return 1e-6 if fmt in FLOAT32 else 1e-12


def close(a, b, tol):
    a, b = np.asarray(a, dtype=float), np.asarray([float(v) for v in b], dtype=float)
    return a.shape == b.shape and bool(np.all(np.abs(a - b) <= tol * np.maximum(1.0, np.abs(b))))


def call(db, op, specs, paths):
    """one operation on the real database -> 'done' | 'err kind' | list of (container key | None, name | None, t, x)"""
    try:
        if op[0] == "load":
            db.load(paths[op[1]], read=op[2])
            return "done"
        sel, store = op[1], op[2]
        if op[0] in ("get", "geta"):
            kw = dict(name=resolve(sel[1], specs, paths)) if sel[0] == "name" else dict(ind=sel[1])
            if op[0] == "get":
                ts = db.get(store=store, **kw)
                return [(None, ts.name, np.array(ts.t), np.array(ts.x))]
            t, x = db.geta(store=store, **kw)
            return [(None, None, t, x)]
        if sel[0] == "names":
            kw = dict(names=None if sel[1] is None else [resolve(p, specs, paths) for p in sel[1]])
        else:
            kw = dict(ind=list(sel[1]))
        fullkey = op[3]
        if op[0] in ("getm", "getd"):
            c = getattr(db, op[0])(store=store, fullkey=fullkey, **kw)
            return [(k if fullkey else None, ts.name, np.array(ts.t), np.array(ts.x)) for k, ts in c.items()]
        if op[0] == "getl":
            return [(None, ts.name, np.array(ts.t), np.array(ts.x)) for ts in db.getl(store=store, **kw)]
        if op[0] == "getda":
            c = db.getda(store=store, fullkey=fullkey, **kw)
            return [(k if fullkey else None, None, np.array(t), np.array(x)) for k, (t, x) in c.items()]
        raise ValueError(op[0])
    except Exception as e:
        return err_enum(e)


def simple_expectation(op, specs, paths, loaded):
    """keys a request selects BY CONSTRUCTION (no wildcard semantics needed): exact names that occur in exactly one loaded file,
    full keys, '*' alone / names=None, register indices.  None when the request is not of that simple kind."""
    allkeys = [(fi, j) for fi in loaded for j in range(len(specs[fi]["names"]))]
    sel = op[1]
    if sel[0] == "ind":
        idx = [sel[1]] if isinstance(sel[1], int) else list(sel[1])
        if any(i >= len(allkeys) for i in idx):
            return None
        want = [allkeys[i] for i in idx]
    elif sel[0] == "name" or sel[0] == "names":
        pats = [sel[1]] if sel[0] == "name" else sel[1]
        if pats is None or pats == [["lit", "*"]]:
            want = list(allkeys)
        else:
            want = []
            for p in pats:
                if p[0] == "key":
                    if p[1] not in loaded:
                        return None
                    want.append((p[1], p[2]))
                elif p[0] == "lit" and not any(ch in p[1] for ch in "*?[]()^"):
                    hits = [(fi, j) for (fi, j) in allkeys if specs[fi]["names"][j] == p[1]]
                    if len(hits) != 1:       # absent, or present in several loaded files: not a simple request
                        return None
                    want += hits
                else:
                    return None
    else:
        return None
    out = []
    for w in want:
        if w not in out:
            out.append(w)
    return out


def execute(specs, paths, ops, model=None, chk=None, inp=None, verbose=False):
    """runs a history on the real TsDB; compares with the parsed model reply (if given) and evaluates the oracles.
    Returns (disagreements, failures) as lists of dicts; when `chk` is given they are recorded there as well."""
    from qats import TsDB
    db = TsDB()
    dis, fails = [], []
    keymap = {paths[fi] + os.path.sep + nm: (fi, j) for fi, sp in enumerate(specs) for j, nm in enumerate(sp["names"])}
    loaded = []

    def fail(text, upto, expected, observed, **kw):
        i2 = dict(inp or {}, upto=upto)
        if "diff" in kw:
            i2["diff"] = kw.pop("diff")
        d = dict(oracle=text, input=i2, expected=expected, observed=observed, **kw)
        fails.append(d)
        if chk is not None:
            chk.fail(d["oracle"], d["input"], expected, observed, **kw)
        if verbose:
            print("FAILS:", text, "| expected", expected, "| observed", observed)

    def check_series(upto, ident, item, how):
        """oracle: the series identified as (file, column) carries what the generator wrote"""
        fi, j = ident
        k, nm, t, x = item
        sp = specs[fi]
        wn, wt, wx = stored(sp, j)
        tol = tol_of(sp["fmt"])
        if chk is not None:
            chk.count("oracle:values")
        if nm is not None and nm != wn:
            fail("a series obtained from a file-backed database carries the name it is registered under", upto, wn, nm, clause="name",
                 fmt=sp["fmt"], how=how)
        if close(t, wt, tol) and close(x, wx, tol):
            return
        if sp["fmt"] == "asc" and close(t, wt[1:], tol) and close(x, wx[1:], tol):
            fail("a series read from a file carries exactly the time and data arrays stored in the file under that name", upto,
                 dict(name=wn, t=wt, x=wx), dict(t=list(map(float, t)), x=list(map(float, x))), clause="values", fmt="asc", how=how,
                 diff=F15)
            return
        fail("a series read from a file carries exactly the time and data arrays stored in the file under that name", upto,
             dict(name=wn, t=wt, x=wx), dict(t=list(map(float, t)), x=list(map(float, x))), clause="values", fmt=sp["fmt"], how=how)

    for n, op in enumerate(ops):
        res = call(db, op, specs, paths)
        if op[0] == "load" and res == "done":
            loaded.append(op[1])
            # the names a file is asked for are the names stored in it: all of them registered, in file order, nothing else
            pre = paths[op[1]] + os.path.sep
            regs = [k[len(pre):] for k in db.register_keys if k.startswith(pre)]
            if chk is not None:
                chk.count("oracle:register")
            if regs != list(specs[op[1]]["names"]):
                fail("every series stored in a file is registered under its name when the file is loaded (all names, file order)",
                     n + 1, list(specs[op[1]]["names"]), regs, clause="register", fmt=specs[op[1]]["fmt"])
            if op[2]:
                # eager load: everything on the file is cached now; check it against the generator directly
                for j in range(len(specs[op[1]]["names"])):
                    ts = db.register.get(pre + specs[op[1]]["names"][j])
                    if ts is None:
                        fail("load(read=True) reads and stores every series of the file", n + 1, "cached", "None", clause="eager")
                    else:
                        check_series(n + 1, (op[1], j), (None, ts.name, np.array(ts.t), np.array(ts.x)), "eager load")
        cached = [k for k in db.register_keys if db.register.get(k) is not None]
        # ---- oracles (model independent)
        if isinstance(res, list):
            exp = simple_expectation(op, specs, paths, loaded)
            if exp is not None:
                if chk is not None:
                    chk.count("oracle:selection")
                if len(exp) != len(res):
                    fail("a request by exact names / full keys / indices returns exactly the requested series, in request order", n + 1,
                         [specs[fi]["names"][j] for fi, j in exp], [it[1] or it[0] for it in res], clause="selection")
                else:
                    for ident, it in zip(exp, res):
                        check_series(n + 1, ident, it, "by construction")
            for it in res:
                if it[0] is not None:
                    if it[0] in keymap:
                        check_series(n + 1, keymap[it[0]], it, "container key")
                    else:
                        fail("container keys are registered keys", n + 1, "one of the registered keys", it[0], clause="key")
        elif res != "done" and op[0] != "load":
            exp = simple_expectation(op, specs, paths, loaded)
            if exp is not None and (op[0] not in ("get", "geta") or len(exp) == 1):
                fail("a request for registered series succeeds", n + 1, [specs[fi]["names"][j] for fi, j in exp], res, clause="error")
        # ---- correspondence with the model
        if model is not None:
            mout, mcached = model[n]
            same = True
            f15 = False
            if isinstance(mout, str) or isinstance(res, str):
                same = (mout == res)
            elif len(mout) != len(res):
                same = False
            else:
                for (mk, mn, mt, mx), (k, nm, t, x) in zip(mout, res):
                    fi, j = keymap[mk]
                    tol = tol_of(specs[fi]["fmt"])
                    if (k is not None and k != mk) or (nm is not None and nm != mn):
                        same = False
                    elif not (close(t, mt, tol) and close(x, mx, tol)):
                        if specs[fi]["fmt"] == "asc" and close(t, mt[1:], tol) and close(x, mx[1:], tol):
                            f15 = True          # known finding F15, reported by the value oracle; the tie is evaluated modulo it
                        else:
                            same = False
            if mcached != cached:
                same = False
            if not same:
                d = dict(stream="rb.run", input=dict(inp or {}, first_difference_at_op=n),
                         model=str((mout, mcached))[:600], impl=str((res if isinstance(res, str) else
                                                                    [(k, nm, list(map(float, t)), list(map(float, x))) for k, nm, t, x in res], cached))[:600])
                dis.append(d)
                if chk is not None:
                    chk.disagree(d["stream"], d["input"], d["model"], d["impl"])
                if verbose:
                    print("model and implementation differ at op", n, op, "\n  model:", d["model"], "\n  impl :", d["impl"])
                break
            if f15 and chk is not None:
                chk.dist("asc series compared modulo F15")
    return dis, fails


def nontrivial(op, specs):
    if op[0] == "load":
        return False
    sel = op[1]
    if sel[0] == "ind" and isinstance(sel[1], list):
        return len(sel[1]) > 1 and sel[1] != sorted(set(sel[1]))
    if sel[0] == "names" and sel[1]:
        return len(sel[1]) > 1 or sel[1][0][0] != "lit" or sel[1][0][1] != "*"
    return sel[0] in ("name",)


def is_f15(f):
    """known finding F15: a series of an `.asc` file that lacks exactly its first sample and is otherwise what was stored"""
    return isinstance(f.get("input"), dict) and f["input"].get("diff") == F15 and f.get("fmt", "asc") == "asc"


def run(chk):
    chk.extra["rule"] = RULE
    chk.matchers["F15"] = is_f15
    chk.assumptions += [
        "numpy fancy indexing arr[ind,:] and np.loadtxt(usecols=ind) return the rows/columns in the order of ind (repeats allowed)",
        "pd.read_csv(usecols=ind) returns the columns sorted(set(ind)) in file order",
        "h5py / nptdms / pymatreader look a data set up by its name; byte and text decoding (struct, float32, number parsing) is "
        "exercised on real files, not modelled",
        "series names do not contain the path of their file and do not start with the path separator",
        "register indices are non-negative (Python's negative indices are not modelled)"]
    chk.partial += ["byte/text decoding and the third-party readers are tied by correspondence on synthesised files only",
                    ".asc: every read lacks the first sample (known finding F15); the tie for .asc is evaluated modulo that shift"]
    rng = chk.rng
    drv = core.Driver()
    root = tempfile.mkdtemp(prefix="qv01_")
    try:
        # ---- files
        nvar = 4 if chk.quick else 6
        specs, paths = [], []
        for v in range(nvar):
            for fmt in FORMATS:
                fi = len(specs)
                sp = gen_spec(rng, fi, fmt, k=(3 if v < 2 else None), variant=v)
                specs.append(sp)
                paths.append(write_file(root, sp))
                chk.dist("file:%s k=%d" % (fmt, len(sp["names"])))
        byfmt = {fmt: [i for i, sp in enumerate(specs) if sp["fmt"] == fmt] for fmt in FORMATS}
        # ---- histories: (file ids, ops)
        hist = []
        chains = []
        for ci, c in enumerate(core.load_corpus("C01")):
            if c.get("prior"):
                # a chain of sessions on files re-written at the same paths
                croot, prior = os.path.join(root, "corpus_chain%d" % ci), []
                for ses in list(c["prior"]) + [dict(specs=c["specs"], ops=c["ops"])]:
                    pths = [os.path.join(croot, sp.get("dir", ""), sp["base"] + "." + sp["fmt"]) for sp in ses["specs"]]
                    chains.append(("corpus", ses["specs"], pths, ses["ops"], dict(root=croot, prior=list(prior))))
                    prior.append(dict(specs=ses["specs"], ops=ses["ops"]))
            else:
                hist.append(("corpus", c["specs"], None, c["ops"]))
        nh = 40 if chk.quick else 500
        for fmt in FORMATS:
            for _ in range(nh):
                ids = [rng.choice(byfmt[fmt])]
                for _ in range(rng.choice([0, 0, 1, 2])):
                    o = rng.randrange(len(specs))
                    if o not in ids:
                        ids.append(o)
                hist.append(("random", [specs[i] for i in ids], [paths[i] for i in ids], gen_history(rng, [specs[i] for i in ids])))
        for fmt in FORMATS:
            for i in (byfmt[fmt][:1] if chk.quick else byfmt[fmt]):
                for ops in subset_histories(specs[i], chk.quick, rng):
                    hist.append(("subsets", [specs[i]], [paths[i]], ops))
        # every name of a file on its own, then together in reverse order (files with keyword-like / case-variant names first)
        for fmt in FORMATS:
            for i in (byfmt[fmt][2:4] if chk.quick else byfmt[fmt]):
                hist.append(("sweep", [specs[i]], [paths[i]], sweep_history(specs[i], rng)))
        # corpus entries bring their own file contents: write them
        for n, (kind, sps, pths, ops) in enumerate(hist):
            if pths is None:
                croot = os.path.join(root, "corpus%d" % n)
                hist[n] = (kind, sps, [write_file(croot, sp) for sp in sps], ops)
        hist = [h + (None,) for h in hist] + chains
        # files that are re-written at the same path between sessions (a new database per session, same process): the files of a
        # session are written immediately before it is executed; `prior` = the earlier sessions, which are part of the input
        nsess = 2 if chk.quick else 10
        fi_next = len(specs)
        for fmt in FORMATS:
            for r in range(nsess):
                sroot = os.path.join(root, "sess_%s_%d" % (fmt, r))
                first = [gen_spec(rng, fi_next, fmt, variant=None)]
                if r % 2:
                    first.append(gen_spec(rng, fi_next + 1, rng.choice(FORMATS), variant=None))
                prior = []
                for sps, ops in session_histories(rng, first, fi_next + 2):
                    pths = [os.path.join(sroot, sp["dir"], sp["base"] + "." + sp["fmt"]) for sp in sps]
                    hist.append(("session%d" % len(prior), sps, pths, ops, dict(root=sroot, prior=list(prior))))
                    prior.append(dict(specs=sps, ops=ops))
                fi_next += 6
        lines = [encode(sps, pths, ops) for (_, sps, pths, ops, _) in hist]
        outs = drv.run(lines)
        for (kind, sps, pths, ops, sess), reply in zip(hist, outs):
            inp = dict(specs=sps, ops=ops)
            if sess is not None:
                inp["prior"] = sess["prior"]
                assert [write_file(sess["root"], sp) for sp in sps] == pths
            chk.count("rb.run:" + kind)
            if not reply.startswith("ok "):
                chk.disagree("rb.run", inp, reply, "(model did not accept the request)")
                continue
            model = parse_reply(reply)
            execute(sps, pths, ops, model=model, chk=chk, inp=inp)
            for sp in sps:
                chk.dist("history with " + STYLE[sp["fmt"]])
            for op, (mout, _) in zip(ops, model):
                chk.dist("op:" + op[0])
                chk.dist("out:" + (mout if isinstance(mout, str) else "series"))
                if isinstance(mout, list) and (nontrivial(op, sps) or (sess is not None and sess["prior"])):
                    chk.nontriv((tuple(sp["fi"] for sp in sps), repr(ops)))
            if kind == "random" and 3 <= len(ops) <= 4 and len(chk.samples) < 4:
                chk.sample(dict(files=[(sp["fmt"], sp["names"]) for sp in sps], ops=ops,
                                model_reply=reply[:300]))
    finally:
        shutil.rmtree(root, ignore_errors=True)


def replay(rp):
    inp = rp["input"]
    root = tempfile.mkdtemp(prefix="qv01r_")
    try:
        specs, ops = inp["specs"], inp["ops"]
        for n, pr in enumerate(inp.get("prior") or []):
            # earlier sessions of the same process: other versions of the files at the same paths, each opened in its own database
            ppaths = [write_file(root, sp) for sp in pr["specs"]]
            _, pf = execute(pr["specs"], ppaths, pr["ops"], inp=dict(specs=pr["specs"], ops=pr["ops"]))
            print("(earlier session %d on the same paths: %d failing clause(s))" % (n, len(pf)))
        paths = [write_file(root, sp) for sp in specs]
        model = None
        try:
            reply = core.Driver().run([encode(specs, paths, ops)])[0]
            model = parse_reply(reply) if reply.startswith("ok ") else None
        except Exception as e:                     # the oracles do not need the model
            print("(model not available: %s)" % e)
        dis, fails = execute(specs, paths, ops, model=model, inp=dict(specs=specs, ops=ops), verbose=True)
        known = [f for f in fails if is_f15(f)]
        print("replay: %d failing clause(s) (%d of them the known .asc first-row finding), %d model disagreement(s)" % (
            len(fails), len(known), len(dis)))
        return 1 if fails else 0
    finally:
        shutil.rmtree(root, ignore_errors=True)
