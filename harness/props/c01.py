"""
C01 — a series read from a file is the series stored under that name.

Tie: real files of all ten readable formats (.ts .tda .bin .asc .dat .csv .h5 .pkl .mat .tdms) are synthesised with pairwise
distinct, recognisable values; seeded retrieval histories (load lazily / eagerly, get / geta / getm / getd / getl / getda by name,
wildcard or index, store on/off, one to three files per database) are run on the real `TsDB` and on the Lean model
`Qats.ReadBind.step` (`rb.run`); after every operation the outcome (error kind / keys, names, time and data arrays in container
order) and the set of cached keys are compared.
Search (independent of the model): "the value at (name, sample i) is what the generator wrote" for every returned series whose
identity is known by construction (full container key, exact unique name, register index), "every name stored in a file is
registered, in file order" after each load (names include ones that begin with / contain a word special elsewhere in the format;
.h5 data sets and .tdms waveform channels of one file agree in start only / step only / both / neither), completeness and order of simple
requests, and all non-empty ordered subsets of the names of a file under three cache states.  Files also hold names that differ
only in letter case (each must resolve to itself: every name of a file is asked for on its own, uncached and cached, then all of them
in reverse order), and files are re-written at the same path between sessions of the same process (same names with other values, or
other names / length), each version being opened in a new database: what is returned is what the file holds now.

Classes of inputs added by the audit after the third round of seeded changes (every one evaluated by the same clauses):
* other spellings of the FILE: extensions .hdf5 / .pickle; SIMA key files with several responses per row (beam elements, two
  `following applies` blocks, numeric line ids, the elmtra naming) and the wind-turbine key files (witurb / blresp, both layouts);
  .h5 nested groups and scalar attributes; multi-level column labels in .pkl; integer / float32 data in .h5 .pkl .mat .tdms and whole
  numbers / exponent notation / tab / semicolon / 0 or 2 comment lines / other names of the time column in the text formats; the time
  array of a .mat file called time / Time_s, extra non-series fields; the .tdms time channel called time or Time, first or last
  in its group; a .ts file written byte by byte here (the reference must not share the library's writer);
* boundary values: one sample (where format and library support it), a column of zeros, negative values, magnitudes 2^+-200
  (2^+-100 in the float32 formats), irregular time steps, time stored as integers; the relative tolerance scales with the column;
* other spellings of the CALL: TsDB.fromfile, qats.app.funcs.import_from_file / read_timeseries, db.copy, other.update(db),
  iteration over the database, to_dataframe; file names as list / tuple / relative to the working directory / with a wildcard /
  several in one call; names as tuple or bare string, indices as tuple / ndarray / bare integer / counted from the end;
  positional arguments and omitted defaults; `<file name>/<series name>` as a request;
* histories: a second database of the same process working on the same files in between; the caller overwriting the arrays of
  series it got with store=False; refused loads (missing file, file already registered, alone or inside a list) followed by
  valid calls; several files in one database that share a base name (other directory) or a format (other layout, other name
  of the .mat time array);
* aliasing between the series of one read (fourth round): the caller CHANGES a series it was handed, also one the database holds
  (op `touch`: `set_dtg_ref` given and moved / moved to the first sample, which shifts the time array of that series; time or data
  arrays changed in place); immediately afterwards every OTHER series the database holds, and in later requests every other series
  (cached, uncached, never read), must be what the file holds.  The changed object itself is exempt from the value clause (not
  from the name clause) for as long as the database hands out that very object; the model sees a `touch` as the `get` it starts with;
* the registry changes between retrievals (fifth round): ops `rename` (a series gets another registered name: a new one, the name
  another series had on the file, a name of the other file, a case variant; two series exchange their names) and `clear` (series
  are removed, later ones move up) on one or two files under three cache states; after every change each registered series is asked
  for by index (from the start / the end, get / geta / getm / getl / getda / getd, stored or not), by its current name / full key and
  by '*', and everything the database holds is audited: the series at index i is the one registered at position i of
  `register_keys`, carries the name it is registered under NOW and the arrays the file holds for the column it was registered from.
  The harness follows the registry itself (a disagreement about the registered keys is reported as a broken tie, not as a violation);
  these histories are outside the model `rb.run` and are decided by the clauses alone;
* FAULT POINTS (sixth round): calls that the database or a series REFUSES (op `refuse`, REFUSE_KINDS: a rename to a name that is taken
  / to something that is not a string / of an unknown or ambiguous name; get / geta / getm / getd / getl / getda with an unknown or
  ambiguous name, an index out of range, both or neither of name and index, ill-typed names or indices (also numpy integers);
  geta with processing options that are rejected AFTER the series has been read and stored; load of a missing / unreadable /
  already registered file, of a directory, of a non-string, of a list whose first file is fine and whose second is not; clear / add /
  update / copy / export with ill-typed arguments, update with keys that exist, export to an unknown format, to_dataframe without a
  common time array; a multi-file request while the data file of one file is gone from disk (it is put back afterwards); on a
  series handed out: set_dtg_ref with a non-datetime / without a reference / mixing time-zone-aware and naive references, modify /
  resample / filter / interpolate with rejected options) are inserted between the retrievals and the accepted renames of the
  registry histories, on the SAME database object.  After every refused call everything the database holds is audited (name it is
  registered under, arrays of the file), the registered keys must be the ones registered before, and the retrievals that follow (by
  index, name, full key, '*', cached and not) are evaluated by the same clauses as always;
* a call that does not return: every call on a database is made by a worker thread and awaited for a few seconds; a call that does
  not come back (e.g. a lock that a refused call left behind) is a failing clause ("the call returns"), the history is abandoned and
  the histories with refused calls evaluated before it in the same process are made part of the failing input (`before`);
* crashes: a load of a readable file or a request for registered series that raises is a failing clause; an exception anywhere in
  the evaluation of a history is reported with the history as failing input.
"""
import itertools
import os
import queue
import shutil
import struct
import tempfile
import threading
from fractions import Fraction

import numpy as np

from .. import core
from ..dbutil import err_enum, hx, hxlist, unhx, unhxlist

FORMATS = ["ts", "tda", "bin", "asc", "dat", "csv", "h5", "pkl", "mat", "tdms"]
STYLE = dict(ts="direct", tda="direct", bin="fancy", asc="fancy", dat="fancy", pkl="fancy", csv="csv", h5="byName", mat="byName",
             tdms="byName")
FLOAT32 = ("ts", "tda", "bin")          # formats that store 4-byte reals
F15 = "asc-first-row-missing"

RULE = ("files: per format 4 (quick) / 6 (thorough) synthesised files with 1-5 series x 2-6 samples, names in non-alphabetical file "
        "order (incl. prefixes of each other, a space, unit brackets where the format allows; one fixed file per format and a third "
        "of the random ones with names that begin with / contain a word special elsewhere in the format: End1, ENDURANCE, Time, "
        "uptime, fs2, Timer ...; one fixed file per format and a fifth of the random ones with 2-3 names that differ only in letter "
        "case: Fx/FX/fx, .bin/.asc via key-file line ids ML01/ml01/Ml01), value = 1000*file + 10*column + sample/4, per-series time arrays for .h5 (series of a file agreeing "
        "in start only, in step only, in both, in neither) and .tdms (time channel per group, or waveform channels with their own "
        "zero / positive / negative start offset and increment); histories: 1-3 files per database, first op a load (30% read=True), then <= 5 ops drawn "
        "from further loads and get/geta/getm/getd/getl/getda with exact names, full keys, '*', prefix wildcards, '<file>/*', lists of "
        "1-4 patterns in random order with repeats, index lists with repeats, store on/off; plus per file ordered subsets of the names "
        "(all 64 for <= 4 names in thorough, 14 corner subsets in quick) by name and by index on a fresh, an eagerly read and a partly "
        "cached database; per file with keyword-like / case-variant names a sweep (each name alone by get/geta, all names reversed, "
        "every second name, each name again cached); per format 2 (quick) / 10 (thorough) chains of 3 sessions in which the 1-2 files "
        "of the database are re-written at the same path (same names and length with other values / other names and length / "
        "unchanged) and opened in a new database of the same process; non-trivial = request that is a proper subset, out of file order, repeats a key or mixes cached and "
        "uncached keys, or any request of a later session; distinct by (file contents, history); "
        "audit additions: 25 (quick) / 65 (thorough) files in another spelling of the format (FEATURE_FILES / FEATS: extensions hdf5 / "
        "pickle, multi-response and wind-turbine SIMA key files, nested h5 groups, multi-level pkl labels, integer / float32 / whole-number "
        "/ exponent data, delimiters, comment lines, names of the time array, one sample, zeros, negatives, 2^+-200, irregular time) each "
        "with 7 corner subsets, the sweep and a history through every entry point (fromfile / import_from_file / read_timeseries / copy / "
        "update / iteration / to_dataframe / indices from the end); one file per format with the base name of another file in another "
        "directory; 3 multi-file histories per format (loaded in one call or one by one, keys of the files requested alternately); three "
        "quarters of the random histories and a third of the subset histories with calls in another spelling (positional, defaults "
        "omitted, tuple / bare string / bare integer / ndarray / negative index, file names as list / tuple / relative / wildcard, "
        "<file>/<name> requests, refused loads of missing files), one in eight with a second database on the same files in between, "
        "uncached results overwritten by the caller; fourth round: op `touch` = get one series and change it as a caller may "
        "(set_dtg_ref set+moved / set+moved to the first sample, t += 64 in place, both arrays overwritten, x negated), then audit every "
        "other series held by the database: 14% of the ops of the random histories, one in every multi-file history, and per format "
        "8 (quick) histories + one per feature file in which >= 2 series are read in ONE call (getm/getl/getda/getd by names, indices or "
        "'*', or eager load), one is touched, the others are asked for one by one / by '*' / by index, a second one is touched; "
        "fifth round: per format 4 (quick) / 16 (thorough) histories + one per feature file in which the registry changes between "
        "retrievals: 2-3 rounds of (rename of 1-2 series, mostly not the last registered / two series exchanging names / clear of 1-2 "
        "series) each followed by get/geta(ind=i) for every i (ascending, descending or shuffled, 20% counted from the end, store 60%), "
        "one getm/getl/getda/getd over a permutation of all indices, three requests by current name or full key, '*' and a second pass "
        "over the indices; half of them on two files (the other of any format); cache state fresh / eager / partly read; "
        "sixth round: per format 2 (quick) / 8 (thorough) histories + one per second feature file in which one call of every kind the "
        "entry points refuse (REFUSE_KINDS, 38 draws of 32 kinds: rename taken / ill-typed / unknown / ambiguous, get* unknown / ambiguous / "
        "out of range / conflicting / ill-typed, geta with rejected options, load missing / again / unreadable / directory / ill-typed / "
        "list failing part-way, clear / add / update / copy / export / to_dataframe rejected, data file gone from disk, rejected "
        "set_dtg_ref / modify / resample / filter on a series handed out) is made on the same database in random order, each followed by "
        "2-3 retrievals (index / current name / '*', stored 40%), an accepted rename after every ninth, then the registry rounds with "
        "1-2 refused calls after every change; every call on a database runs in a worker thread with a time limit; "
        "eighth round (stream `long`, c01_long.py, oracles only): per format 2-4 (quick) / 16 (thorough) LONG files of 2-4 series with "
        "999 / 1000 / 1001 / 1023 / 1024 / 1025 / 4095 / 4096 / 4097 / 9999 / 10000 / 10001 / 65535 / 65536 / 65537 / 70001 samples "
        "(quick: one size around 1000 / 1024 per format, one of each of the bands around 4096 / 10000 / 65536 for ts tda h5 pkl mat tdms, one of one of them for bin asc dat csv), column-specific sequences with full double mantissas (integers in the float32 formats) "
        "and spikes in the first / last samples and around every multiple of 1000 / 1024 / 4096 / 10000 / 65536, and per format one "
        "(quick) / 7 (thorough) WIDE files with 33 / 65 / 129 / 300 (31 / 64 / 257) series in non-alphabetical order (s1, s10, s100 "
        "...); requests: last name alone, all reversed, first / last index, random subsets by name / key / index, the series at "
        "positions 31-33 / 63-65 / 127-129 / 255-257 / first / last, '*', a cached repeat; every sample of every returned series "
        "is compared with what was written")

TDA_KEY_HEAD = """** Info about series written by SIMO-S2XMOD
** 26-NOV-2016 20:59
** Number of samples :     %d
** --------------------------------------------------
** Series number at file :     1
** Channel name          : Info_arr
Info_arr
** --------------------------------------------------
** Series number at file :     2
** Channel name          : Time_arr
Time_arr
"""


# ----------------------------------------------------------------------------------------------------------
# file synthesis
# ----------------------------------------------------------------------------------------------------------
BEAM_DOFS = [("Axial force", "Te"), ("Torsional moment", "Mx"), ("Mom. about local y-axis, end 1", "My1"),
             ("Mom. about local y-axis, end 2", "My2"), ("Mom. about local z-axis, end 1", "Mz1"),
             ("Mom. about local z-axis, end 2", "Mz2"), ("Shear force in local y-direction, end 1", "Sy1"),
             ("Shear force in local y-direction, end 2", "Sy2"), ("Shear force in local z-direction, end 1", "Sz1"),
             ("Shear force in local z-direction, end 2", "Sz2")]

SIMA_KEY_HEAD = """
   R I F L E X  -  KEY FILE
   ------------------------


   This key-file describes the contents of : %(fn)s
   The format of %(fn)s is %(kind)s
   The file %(fn)s contains a time series of element-forces
   The element-forces are stored in columns on %(fn)s

   Column no. 1 contains FORTRAN specific data (please ignore)

   Column no. 2 contains the time.

%(blocks)s

   The response is stored as follows

   Line   Local     Local      No. of         Stored in
    Id    segment   element    responses      column(s)
   ------------------------------------------------------
%(rows)s
   Column no.          %(last)d contains FORTRAN specific data (please ignore)
"""

WITURB_HEAD = """'
'   R I F L E X  -  KEY FILE
'   ------------------------
'
'   This key-file describes the contents of : %(fn)s
'   The format of %(fn)s is BINARY
'   with numbers stored as real single precision (4 bytes)
'
"""


def sima_rows(k):
    """default key-file rows (line id, segment, element), one response per row"""
    return [["ML%02d" % (j + 1), 1 + j % 2, 1 + j // 2] for j in range(k)]


def sima_names(k, rows=None):
    """the names `read_sima_names` derives from the key-file rows written by `sima_keyfile` (one response per row)"""
    return ["%s_Seg%03d_El%03d_Te" % (ln, sg, el) for ln, sg, el in (rows or sima_rows(k))]


def sima_names2(sima, rows):
    """names of a key file with several responses per row / another element kind (the documented SIMA naming: line id (`Lin<nn>` for
    a number), `Seg<nnn>`, `El<nnn>` (elmfor) or `<nnn>` (elmtra), suffix of the degree of freedom in the LAST `following applies`
    block: Te Mx My1 My2 Mz1 Mz2 Sy1 ... for beam elements, DOF<nn> for descriptions that are not recognised)"""
    if sima["kind"] == "witurb":
        return [(sima["turbine"] + "_" + c) if sima["new"] else c for c in sima["chans"]]
    suff = [sf for _, sf in BEAM_DOFS] if sima["block"] in ("beam", "both") else ["Te"] if sima["block"] == "bar" else \
        ["DOF%02d" % (i + 1) for i in range(9)]
    el = "El" if sima["kind"] in ("elmfor", "elmsfo") else ""
    out = []
    for row in rows:
        ln, sg, el_no = row[0], row[1], row[2]
        nresp = row[3] if len(row) > 3 else 1
        a = ("Lin" + str(ln).zfill(2)) if str(ln).isdigit() else str(ln)
        for sf in suff[:nresp]:
            out.append("%s_Seg%s_%s%s_%s" % (a, str(sg).zfill(3), el, str(el_no).zfill(3), sf))
    return out


def sima_keyfile(path, datafile, k, kind, rows=None, sima=None):
    if sima is not None and sima["kind"] == "witurb":
        with open(path, "w") as f:
            f.write(WITURB_HEAD % dict(fn=datafile))
            if sima["new"]:
                f.write("'  column   wind     contents     unit      contents\n'    no    turbine  abbrivated              descriptive text\n")
                f.write("       1     -      FORTRAN       -         FORTRAN specific data - IGNORE\n")
                f.write("       2     -      Time          s         Time\n")
                for j, c in enumerate(sima["chans"]):
                    f.write("  %6d  %s   %-12s  kN        Result no %d of the turbine\n" % (j + 3, sima["turbine"], c, j + 1))
            else:
                f.write("'  column   contents     unit      contents\n'    no    abbrivated              descriptive text\n")
                f.write("       1  FORTRAN specific data - IGNORE\n")
                f.write("       2   Time          s         Time\n")
                for j, c in enumerate(sima["chans"]):
                    f.write("  %6d   %-12s  kN        Result no %d\n" % (j + 3, c, j + 1))
        return
    rows = rows or sima_rows(k)
    block = sima["block"] if sima else "bar"
    blocks = ""
    if block in ("bar", "both"):
        blocks += "\n   For each bar element the following applies :\n\n   DOF 1 = Axial force\n\n"
    if block in ("beam", "both"):
        blocks += "\n   For each beam element the following applies :\n\n" + "".join(
            "   DOF%2d = %s\n" % (i + 1, d) for i, (d, _) in enumerate(BEAM_DOFS)) + "\n"
    if block == "tracon":
        blocks += "\n   For each element the following applies :\n" + "".join(
            "   DOF %d = TRACON(%d,%d,IEL)\n" % (i + 1, i % 3 + 1, i // 3 + 1) for i in range(9)) + \
            "   i.e. TRACON is printed column-wise\n   for the selected elements\n"
    txt, col = "", 3
    for row in rows:
        ln, sg, el = row[0], row[1], row[2]
        nresp = row[3] if len(row) > 3 else 1
        stored = "%16d" % col if nresp == 1 else "%8d   -  %5d" % (col, col + nresp - 1)
        txt += " %-4s      %8d  %8d  %8d  %s\n" % (ln, sg, el, nresp, stored)
        col += nresp
    with open(path, "w") as f:
        f.write(SIMA_KEY_HEAD % dict(fn=datafile, kind=kind, rows=txt, last=col, blocks=blocks))


def num(v, style="repr"):
    v = float(v)
    if style == "int" and v == int(v) and abs(v) < 2.0 ** 53:
        return str(int(v))                      # a whole number written without a decimal point
    if style == "exp":
        return "%.17e" % v
    return repr(v)


def file_path(root, spec):
    return os.path.join(root, spec.get("dir", ""), spec["base"] + "." + spec.get("ext", spec["fmt"]))


def np_cols(spec):
    """the columns as arrays of the dtype the file is to hold them in (binary containers: h5, pkl, mat, tdms)"""
    dts = spec.get("dtype") or ["f8"] * len(spec["cols"])
    return [np.array(c, dtype=float).astype(dt) for c, dt in zip(spec["cols"], dts)]


def write_file(root, spec):
    """spec: dict(fmt, base, names, time, cols, own, tdms_wf [, ext, dtype, text, delim, comments, ts_writer, sima, mat, tdms_time,
    h5_scalar, pkl_tuples]); returns the path of the data file"""
    fmt, names = spec["fmt"], spec["names"]
    t = np.array(spec["time"], dtype=float)
    cols = [np.array(c, dtype=float) for c in spec["cols"]]
    n, k = len(t), len(names)
    path = file_path(root, spec)
    root = os.path.dirname(path)
    os.makedirs(root, exist_ok=True)
    style = spec.get("text", "repr")
    if fmt == "ts" and spec.get("ts_writer") == "own":
        # written here byte by byte (header record: number of samples, number of records, padding; then one float32 record per
        # array), so that the reference does not depend on the library's own writer
        with open(path, "wb") as f:
            f.write(struct.pack("<%di" % n, *([n, k + 2] + [0] * (n - 2))))
            f.write(struct.pack("<%df" % n, *t))
            for c in cols:
                f.write(struct.pack("<%df" % n, *c))
        with open(os.path.splitext(path)[0] + ".key", "w") as f:
            for line in spec.get("key_comments") or []:
                f.write(line + "\n")
            f.write("time\n")
            for nm in names:
                f.write(nm + "\n")
            f.write("END\n")
    elif fmt == "ts":
        from qats.io.direct_access import write_ts_data
        write_ts_data(path, t, {nm: (t, c) for nm, c in zip(names, cols)})
    elif fmt == "tda":
        with open(path, "wb") as f:
            f.write(struct.pack("<%df" % n, *([float(n), float(k + 2)] + [0.0] * (n - 2))))
            f.write(struct.pack("<%df" % n, *t))
            for c in cols:
                f.write(struct.pack("<%df" % n, *c))
        with open(os.path.join(root, spec["base"] + ".txt"), "w") as f:
            f.write(TDA_KEY_HEAD % n)
            for j, nm in enumerate(names):
                f.write("** --------------------------------------------------\n** Series number at file : %5d\n%s\n" % (j + 3, nm))
            f.write("END\n")
    elif fmt == "bin":
        with open(path, "wb") as f:
            for i in range(n):
                f.write(struct.pack("<i", 4 * (k + 1)))
                f.write(struct.pack("<%df" % (k + 1), t[i], *[c[i] for c in cols]))
                f.write(struct.pack("<i", 4 * (k + 1)))
        sima_keyfile(os.path.join(root, "key_" + spec["base"] + ".txt"), spec["base"] + ".bin", k, "BINARY", spec.get("sima_rows"),
                     spec.get("sima"))
    elif fmt == "asc":
        with open(path, "w") as f:
            f.write("# exported\n# time and responses column-wise\n")
            for i in range(n):
                f.write("  ".join(num(v, style) for v in [t[i]] + [c[i] for c in cols]) + "\n")
        sima_keyfile(os.path.join(root, "key_" + spec["base"] + ".txt"), spec["base"] + ".asc", k, "ASCII", spec.get("sima_rows"),
                     spec.get("sima"))
    elif fmt == "dat":
        d = spec.get("delim", "  ")
        with open(path, "w") as f:
            for i in range(spec.get("comments", 1)):
                f.write("# generated (comment line %d)\n" % i)
            f.write(d.join([spec.get("timekey", "time")] + names) + "\n")
            for i in range(n):
                f.write(d.join(num(v, style) for v in [t[i]] + [c[i] for c in cols]) + "\n")
    elif fmt == "csv":
        d = spec.get("delim", ",")
        with open(path, "w") as f:
            f.write(d.join([spec.get("timekey", "time")] + names) + "\n")
            for i in range(n):
                f.write(d.join(num(v, style) for v in [t[i]] + [c[i] for c in cols]) + "\n")
    elif fmt == "pkl":
        import pandas as pd
        labels = [tuple(x) for x in spec["pkl_tuples"]] if spec.get("pkl_tuples") else names
        df = pd.DataFrame({nm: c for nm, c in zip(labels, np_cols(spec))})
        if spec.get("pkl_tuples"):
            df.columns = pd.MultiIndex.from_tuples(labels)
        df.index = t.astype(spec["tdtype"]) if spec.get("tdtype") else t
        df.to_pickle(path)
    elif fmt == "h5":
        import h5py
        with h5py.File(path, "w") as f:
            for nm, c, own in zip(names, np_cols(spec), spec["own"]):
                d = f.create_dataset(nm.replace("\\", "/"), data=c)
                start, delta = own[0], (own[1] - own[0]) if len(own) > 1 else spec.get("h5_delta", 1.0)
                if spec.get("h5_scalar"):
                    d.attrs["start"] = float(start)             # scalar attributes (as the library's own writer stores them)
                    d.attrs["delta"] = float(delta)
                    d.attrs["name"] = nm.split("\\")[-1]
                else:
                    d.attrs["start"] = np.array([start])
                    d.attrs["delta"] = np.array([delta])
                    d.attrs["name"] = np.array([nm.split("\\")[-1].encode()])
            f.create_dataset("zz_not_a_series", data=np.array([1.0]))   # no start/delta attribute: must be ignored
    elif fmt == "mat":
        from scipy.io import savemat
        m = spec.get("mat") or {}
        if m.get("chan"):
            # later exchange layout (`chan_names` + `data`): the time array is one of the channels, first, last or in between
            tk = m.get("timekey", "Time")
            chans, colsm = list(names), [np.array(c, dtype=float) for c in np_cols(spec)]
            pos = dict(first=0, last=len(chans), middle=len(chans) // 2)[m["chan"]]
            chans.insert(pos, tk)
            colsm.insert(pos, t)
            d = dict(chan_names=np.array(chans, dtype=object), data=np.column_stack(colsm), fs=2.0, comment="generated")
            savemat(path, d)
            return path
        d = {m.get("timekey", "Time"): t.astype(spec["tdtype"]) if spec.get("tdtype") else t}
        for nm, c in zip(names, np_cols(spec)):
            d[nm] = c
        d["fs"] = 2.0
        d["comment"] = "generated"
        if m.get("extra"):
            # fields that are not series: arrays of another length than the time array, the documented ignored fields
            d["calib"] = np.arange(n + 2, dtype=float)
            d["test_num"] = 7.0
            d["test_date"] = "2020-01-01"
        savemat(path, d)
    elif fmt == "tdms":
        from nptdms import ChannelObject, TdmsWriter
        groups = []
        for nm in names:
            g = nm.split("\\")[0]
            if g not in groups:
                groups.append(g)
        tt = spec.get("tdms_time") or {}
        with TdmsWriter(path) as w:
            objs = []
            for g in groups:
                members = [(nm, c, own) for nm, c, own in zip(names, np_cols(spec), spec["own"]) if nm.split("\\")[0] == g]
                if spec["tdms_wf"].get(g):
                    for nm, c, own in members:
                        objs.append(ChannelObject(g, nm.split("\\")[1], c, properties={
                            "wf_start_offset": float(own[0]),
                            "wf_increment": float(own[1] - own[0]) if len(own) > 1 else 1.0}))
                else:
                    tname, last = tt.get(g, ["Time", False])
                    tch = ChannelObject(g, tname, np.array(members[0][2], dtype=float))
                    if not last:
                        objs.append(tch)
                    for nm, c, own in members:
                        objs.append(ChannelObject(g, nm.split("\\")[1], c))
                    if last:
                        objs.append(tch)                       # the time channel need not be the first channel of its group
            w.write_segment(objs)
    else:
        raise ValueError(fmt)
    return path


POOL_PLAIN = ["b", "a", "ab", "c", "a1", "x", "Tn", "yy"]
POOL_RICH = ["b", "a", "ab", "x y", "T [kN]", "c", "a1", "yy"]
# legitimate series names that begin with / contain a word the format's reader treats specially elsewhere (key-file terminator
# END, the time column / time channel, the ignored .mat fields).  Names the format itself reserves are NOT generated: a line
# equal to END or starting with ** or ' in a key file, a second [Tt]ime* column in .dat/.mat, a channel called time in .tdms.
POOL_KEYWORD = dict(ts=["End1", "end_b", "ENDURANCE", "Bend", "a END"], tda=["End1", "end_b", "ENDURANCE", "Bend", "a END"],
                    dat=["uptime", "Endtime", "x#1"], csv=["Time", "time2", "uptime", "End1"], pkl=["Time", "time", "End1", "uptime"],
                    h5=["Timer", "start", "delta", "End1"], mat=["fs2", "comment2", "uptime", "test_num2"],
                    tdms=["Timer", "time2", "wf_increment", "End1"])


# names that differ only in the case of their letters are different names (e.g. local force Fx / global force FX)
POOL_CASE = [["Fx", "FX", "fx"], ["ab", "Ab", "AB"], ["Tn", "tn", "TN"], ["yy", "YY", "yY"]]


def gen_spec(rng, fi, fmt, k=None, n=None, variant=None):
    """contents of file number `fi`: names in file order, common time, columns, per-series time (h5/tdms).
    Variants 0, 1 and 2 have a fixed structure, later ones are random:
      0, 1: 3 series; h5: data sets at top level and in a group, two of them with the same start but a different step and two with
            the same step but a different start; tdms: two groups, variant 0 both with a time channel (different time arrays),
            variant 1 the first with waveform properties (per channel: a positive and a negative start offset, different steps);
      2:    4 series of which the 1st and 3rd carry a name from POOL_KEYWORD (begins with / contains a word that is special
            elsewhere in the format); tdms: both groups with waveform properties, offsets 0 and non-zero side by side;
      3:    4 series of which the 1st, 3rd and 4th have names that differ only in letter case (POOL_CASE; .bin/.asc: key-file line
            ids ML01 / ml01 / Ml01 with the same segment and element); h5: all at top level; tdms: all three in the same group."""
    fixed = variant in (0, 1, 2, 3)
    k = k or (4 if variant in (2, 3) else 3 if fixed else rng.choice([1, 2, 3, 3, 4, 5]))
    n = n or rng.randint(2, 6)
    if fmt == "asc":
        n = max(n, 3)       # with 2 samples the row lost to F15 leaves one row, which np.loadtxt returns 1-D (IndexError; same root cause)
    t0, dt = rng.choice([0.0, 0.5, 2.0, -1.0]), rng.choice([0.25, 0.5, 1.0, 2.0])
    time = [t0 + dt * i for i in range(n)]
    cols = [[1000.0 * (fi + 1) + 10.0 * (j + 1) + 0.25 * i for i in range(n)] for j in range(k)]
    own, wf = None, {}

    casefile = variant == 3 or (not fixed and rng.random() < 0.2)
    casepos = [p for p in dict.fromkeys([0, 2, k - 1]) if 0 <= p < k]

    def pick(pool):
        """k names of the pool; variant 2 (and a third of the random files): keyword-like names at positions 0 and 2;
        variant 3 (and a fifth of the random files): names differing only in case at positions 0, 2 and k-1"""
        kw = POOL_KEYWORD.get(fmt, [])
        if casefile:
            grp = rng.choice(POOL_CASE)
            cs = rng.sample(grp, min(len(grp), len(casepos)))
            out = rng.sample([nm for nm in pool if nm.lower() != grp[0].lower()], k)
            for pos, nm in zip(casepos, cs):
                out[pos] = nm
            return out
        if not kw or not (variant == 2 or (not fixed and rng.random() < 0.35)):
            return rng.sample(pool, k)
        kws = rng.sample(kw, min(2, len(kw)))
        out = rng.sample([nm for nm in pool if nm not in kws], k)
        for pos, nm in zip((0, 2), kws):
            if pos < k:
                out[pos] = nm
        return out

    rows = None
    if fmt in ("bin", "asc"):
        if casefile:
            # the line id of a key-file row is free text: rows that differ only in its case
            rows = sima_rows(k)
            for pos, f in zip(casepos[1:], rng.sample([str.lower, str.capitalize], 2)):
                rows[pos] = [f(rows[casepos[0]][0])] + rows[casepos[0]][1:]
        names = sima_names(k, rows)
    elif fmt == "h5":
        chosen = pick(POOL_RICH)
        grp = set(nm for nm in chosen if rng.random() < 0.4)
        if variant in (0, 1) and k >= 2:
            grp = set(chosen[:1])
        if variant == 3:
            grp = set()
        names = sorted(nm for nm in chosen if nm not in grp) + ["g1\\" + nm for nm in sorted(grp)]   # h5py lists links by name
    elif fmt == "tdms":
        chosen = pick(POOL_RICH)
        cut = rng.randint(1, k)
        wf = {"g1": rng.random() < 0.5, "g2": rng.random() < 0.5}
        if variant in (0, 1) and k >= 2:
            cut, wf = k - 1, {"g1": variant == 1, "g2": False}
        if variant == 2:
            cut, wf = k - 2, {"g1": True, "g2": True}
        if variant == 3:
            chosen = [chosen[i] for i in (0, 2, 3, 1)]        # the case variants share group g1
            cut = 3
        names = ["g1\\" + nm for nm in chosen[:cut]] + ["g2\\" + nm for nm in chosen[cut:]]
    elif fmt in ("csv", "pkl"):
        names = pick(POOL_RICH + ["T [kN/m]", "F(x)", "a^2"])   # unit brackets with a '/' (not for h5/tdms: group separator)
    elif fmt in ("ts", "tda", "dat"):
        names = pick(POOL_PLAIN + ["Vel[m/s]", "F(x)", "a^2"])
    else:
        names = pick(POOL_PLAIN)
    if fmt == "h5":
        # every data set has its own (start, delta): series of one file may agree in the start, in the step, in both or in neither
        d0, d1 = rng.sample([0.25, 0.5, 1.0], 2)
        if variant == 0:
            par = [(t0, d0), (t0, d1), (t0 + 0.5, d0)]
        elif variant == 1:
            par = [(t0, d0), (t0 + 0.5, d0), (t0, d1)]
        else:
            par = []
        while len(par) < k:
            par.append((t0 + rng.choice([0.0, 0.0, 0.5, 1.5]), rng.choice([d0, d0, d1, 2.0])))
        own = [[s + d * i for i in range(n)] for s, d in par[:k]]
    if fmt == "tdms":
        # a group with a time channel has one time array (never the one of the other group); waveform channels carry their own
        # start offset (zero, positive, negative) and increment
        own = []
        s0 = rng.choice([0.0, 1.0, 2.5])
        offs = {"g1": [1.5, -0.5, 0.0, 2.5], "g2": [0.0, -1.0, 3.0, 0.5]}
        seen = {"g1": 0, "g2": 0}
        pergroup = {}
        for g, s in (("g1", s0), ("g2", s0 + 0.5)):
            d = rng.choice([0.25, 0.5, 1.0])
            pergroup[g] = [s + d * i for i in range(n)]
        for nm in names:
            g = nm.split("\\")[0]
            if wf.get(g):
                o = offs[g][seen[g] % 4] if fixed else rng.choice(offs[g])
                d = rng.choice([0.25, 0.5, 1.0])
                seen[g] += 1
                own.append([o + d * i for i in range(n)])
            else:
                own.append(pergroup[g])
    return dict(fmt=fmt, base="f%d_elmfor" % fi, dir="d%d" % (fi % 2), names=names, time=time, cols=cols, own=own, tdms_wf=wf, fi=fi,
                sima_rows=rows)


# ----------------------------------------------------------------------------------------------------------
# other spellings of the same content (file level): features that can be switched on for a file of a format
# ----------------------------------------------------------------------------------------------------------
FEATS = dict(
    ts=["own", "mag", "irregular"], tda=["mag", "irregular"],
    bin=["beam", "tracon", "witurb_new", "witurb_old", "mag", "irregular", "n1"],
    asc=["beam", "text_int", "text_exp", "mag", "irregular"],
    dat=["text_int", "text_exp", "tab", "comments0", "comments2", "timekey", "mag", "irregular"],
    csv=["text_int", "text_exp", "semicolon", "tab", "timekey", "mag", "irregular", "n1"],
    h5=["ext", "scalar", "nested", "dtype", "mag"],
    pkl=["ext", "tuples", "dtype", "tint", "mag", "irregular", "n1"],
    mat=["timekey", "extra", "dtype", "tint", "mag", "irregular", "chan"],
    tdms=["timech", "dtype", "mag", "irregular", "n1"])

# files with a fixed set of features: always part of the quick tier
FEATURE_FILES = [
    ("ts", ["own", "mag"]), ("ts", ["own", "irregular"]), ("tda", ["mag", "irregular"]),
    ("bin", ["beam"]), ("bin", ["tracon", "mag"]), ("bin", ["witurb_new"]), ("bin", ["witurb_old", "irregular"]), ("bin", ["n1"]),
    ("asc", ["beam", "text_int"]), ("asc", ["text_exp", "mag", "irregular"]),
    ("dat", ["tab", "comments0", "text_int", "timekey"]), ("dat", ["comments2", "text_exp", "mag", "irregular"]),
    ("csv", ["semicolon", "text_int", "timekey"]), ("csv", ["tab", "mag", "irregular"]), ("csv", ["n1"]),
    ("h5", ["ext", "scalar", "nested"]), ("h5", ["dtype", "mag"]),
    ("pkl", ["ext", "tuples", "dtype"]), ("pkl", ["tint", "mag", "irregular"]), ("pkl", ["n1"]),
    ("mat", ["timekey", "extra", "dtype"]), ("mat", ["tint", "mag", "irregular"]), ("mat", ["chan"]), ("mat", ["chan", "timekey", "mag"]),
    ("tdms", ["timech", "dtype"]), ("tdms", ["mag", "irregular"]), ("tdms", ["n1", "timech"])]


def h5_order(names):
    """order in which the names of an .h5 file are met: h5py lists the members of a group by name; the reader works through ONE
    list that starts with the members of the root and to which the members of a group are appended when the group is met"""
    paths = [nm.split("\\") for nm in names]

    def members(pre):
        return sorted(set(q[len(pre)] for q in paths if q[:len(pre)] == pre and len(q) > len(pre)))
    work = [[m] for m in members([])]
    out, i = [], 0
    while i < len(work):
        cur = work[i]
        i += 1
        if cur in paths:
            out.append("\\".join(cur))
        else:
            work += [cur + [m] for m in members(cur)]
    return out


def decorate(rng, sp, feats):
    """switches features on for the file `sp` (in place): the same kind of content in another spelling the format allows"""
    fmt, fi = sp["fmt"], sp["fi"]
    feats = [f for f in feats if f in FEATS[fmt]]
    if not feats:
        return sp
    sp["feats"] = sorted(feats)
    n = len(sp["time"])

    def fval(j, i):
        return 1000.0 * (fi + 1) + 10.0 * (j + 1) + 0.25 * i

    def ival(j, i):
        return 1000.0 * (fi + 1) + 10.0 * (j + 1) + float(i % 8)

    # ---- structure of the names
    if fmt in ("bin", "asc") and any(f in feats for f in ("beam", "tracon", "witurb_new", "witurb_old")):
        if fmt == "bin" and ("witurb_new" in feats or "witurb_old" in feats):
            chans = rng.sample(["RotorSpeed", "GenTorq", "Fx", "FX", "Azimuth", "WiVel_x", "Time2", "GenPwr", "End1"], rng.randint(2, 4))
            sp["sima"] = dict(kind="witurb", new="witurb_new" in feats, turbine="NREL5MW", chans=chans)
            sp["base"] = "f%d_%s" % (fi, "witurb" if "witurb_new" in feats or rng.random() < 0.5 else "blresp")
            sp["sima_rows"] = None
        elif "beam" in feats:
            # beam elements: several responses per key-file row; line ids that are numbers
            sp["sima"] = dict(kind="elmfor", block="both" if fmt == "bin" else rng.choice(["beam", "both"]))   # (the last block counts)
            ids = rng.sample(["ML01", "7", "12", "ml01", "RISER"], 3)
            sp["sima_rows"] = [[ids[0], 1, 1, rng.choice([2, 3])], [ids[1], 1, 2, 1], [ids[2], 2, 1, rng.choice([1, 2])]]
        else:
            sp["sima"] = dict(kind="elmtra", block="tracon")
            sp["base"] = "f%d_elmtra" % fi
            sp["sima_rows"] = [["ML01", 1, 1, rng.choice([2, 3])], ["ML02", 1, 1, rng.choice([1, 2])]]
        sp["names"] = sima_names2(sp["sima"], sp["sima_rows"])
        sp["cols"] = [[fval(j, i) for i in range(n)] for j in range(len(sp["names"]))]
    if fmt == "h5" and "nested" in feats:
        leaves = [nm.split("\\")[-1] for nm in sp["names"]]
        where = ["", "g1\\", "g2\\", "g1\\sub\\", "g0\\deep\\er\\", "g2\\"]
        rng.shuffle(where)
        sp["names"] = h5_order([where[j % len(where)] + lf for j, lf in enumerate(leaves)])
    if fmt == "pkl" and "tuples" in feats:
        # a frame with multi-level column labels: the name of a series is the labels joined by a space
        tups, three = [], rng.random() < 0.5          # labels that are numbers are turned into text
        for j, nm in enumerate(sp["names"]):
            tups.append([rng.choice(["top", "low"]), nm] + ([j] if three else []))
        sp["pkl_tuples"] = tups
        sp["names"] = [" ".join(str(x) for x in tp) for tp in tups]
    k = len(sp["names"])
    # ---- number types
    if "dtype" in feats:
        sp["dtype"] = [rng.choice(["f8", "f4", "i4", "i8"]) for _ in range(k)]
        if not any(d.startswith("i") for d in sp["dtype"]):
            sp["dtype"][rng.randrange(k)] = "i4"
        for j, d in enumerate(sp["dtype"]):
            if d.startswith("i"):
                sp["cols"][j] = [ival(j, i) for i in range(n)]
    if "tint" in feats or "text_int" in feats:
        t0, dt = rng.choice([0, 2, -1]), rng.choice([1, 2])
        sp["time"] = [float(t0 + dt * i) for i in range(n)]
        if "tint" in feats:
            sp["tdtype"] = "i8"
    if "text_int" in feats:
        sp["text"] = "int"
        for j in (range(k) if rng.random() < 0.4 else [0]):
            sp["cols"][j] = [ival(j, i) for i in range(n)]
    if "text_exp" in feats:
        sp["text"] = "exp"
    # ---- layout
    if "tab" in feats:
        sp["delim"] = "\t"
    if "semicolon" in feats:
        sp["delim"] = ";"
    if "comments0" in feats:
        sp["comments"] = 0
    if "comments2" in feats:
        sp["comments"] = 2
    if "timekey" in feats:
        if fmt == "mat":
            sp["mat"] = dict(sp.get("mat") or {}, timekey=rng.choice(["time", "Time_s", "time1"]))
        else:
            sp["timekey"] = rng.choice([c for c in ["Time", "Time_s", "time[s]", "t"][:4 if fmt == "csv" else 3] if c not in sp["names"]])
    if "extra" in feats:
        sp["mat"] = dict(sp.get("mat") or {}, extra=True)
    if "chan" in feats:
        # the later exchange layout of the format: one matrix `data` (time step x channel) and the channel names in `chan_names`
        sp["mat"] = dict(sp.get("mat") or {}, chan=rng.choice(["first", "last", "middle"]))
    if "ext" in feats:
        sp["ext"] = dict(h5="hdf5", pkl="pickle")[fmt]
    if "scalar" in feats:
        sp["h5_scalar"] = True
    if "own" in feats:
        sp["ts_writer"] = "own"
        sp["key_comments"] = rng.choice([[], ["** written by the check"], ["' a remark", "** another one"]])
    if "timech" in feats:
        # at least the first group gets a time channel, called time or Time, as first or last channel of the group
        g = sp["names"][0].split("\\")[0]
        sp["tdms_wf"] = dict(sp["tdms_wf"], **{g: False})
        first = [o for nm, o in zip(sp["names"], sp["own"]) if nm.split("\\")[0] == g][0]
        sp["own"] = [list(first) if nm.split("\\")[0] == g else o for nm, o in zip(sp["names"], sp["own"])]
        sp["tdms_time"] = {gg: [rng.choice(["time", "Time"]), rng.random() < 0.6] for gg in ("g1", "g2")}
    # ---- values
    if "irregular" in feats:
        whole = "tint" in feats or "text_int" in feats

        def irregular(t0):
            out = [t0]
            for _ in range(n - 1):
                out.append(out[-1] + rng.choice([1.0, 2.0, 3.0] if whole else [0.25, 0.5, 1.0, 2.0]))
            return out
        if fmt == "tdms":
            per = {}
            for j, nm in enumerate(sp["names"]):
                g = nm.split("\\")[0]
                if not sp["tdms_wf"].get(g):
                    per.setdefault(g, irregular(sp["own"][j][0]))
                    sp["own"][j] = per[g]
        elif sp["own"] is None:
            sp["time"] = irregular(sp["time"][0])
    if "mag" in feats:
        p = 100 if fmt in FLOAT32 else 200
        zero = False
        for j in range(k):
            if (sp.get("dtype") or ["f8"] * k)[j] != "f8":
                continue
            f = rng.choice([2.0 ** p, 2.0 ** -p, -1.0, -(2.0 ** -p), 0.0, 1.0])
            if f == 0.0:
                if zero:
                    continue
                zero = True
            sp["cols"][j] = [f * v for v in sp["cols"][j]]
    if "n1" in feats:
        sp["time"] = sp["time"][:1]
        sp["cols"] = [c[:1] for c in sp["cols"]]
        if sp["own"]:
            sp["own"] = [o[:1] for o in sp["own"]]
    return sp


def random_feats(rng, fmt):
    return [f for f in FEATS[fmt] if f != "n1" and rng.random() < 0.15]


def stored(spec, j):
    """what the generator wrote under the j-th name: (name, time, data)"""
    return spec["names"][j], (spec["own"][j] if spec["own"] else spec["time"]), spec["cols"][j]


# ----------------------------------------------------------------------------------------------------------
# histories (symbolic: files by position in the history's file list, patterns resolved against the actual paths)
# ----------------------------------------------------------------------------------------------------------
def resolve(pat, specs, paths, cur=None):
    """`cur`: (file, column) -> the name the series is registered under NOW (differs from the name on the file after a rename)"""
    kind = pat[0]
    if kind == "lit":
        return pat[1]
    if kind in ("key", "rel"):
        nm = (cur or {}).get((pat[1], pat[2]), specs[pat[1]]["names"][pat[2]])
        if kind == "key":
            return paths[pat[1]] + os.path.sep + nm
        return os.path.basename(paths[pat[1]]) + os.path.sep + nm                                 # <file name>/<series name>
    if kind == "file":
        return os.path.basename(paths[pat[1]]) + os.path.sep + "*"
    raise ValueError(pat)


def gen_pattern(rng, specs, loaded):
    fi = rng.choice(loaded) if loaded else 0
    names = specs[fi]["names"]
    r = rng.random()
    if r < 0.06:
        return ["rel", fi, rng.randrange(len(names))]
    if r < 0.55:
        return ["lit", rng.choice(names)]
    if r < 0.65:
        return ["key", fi, rng.randrange(len(names))]
    if r < 0.75:
        return ["lit", "*"]
    if r < 0.83:
        return ["file", fi]
    if r < 0.93:
        nm = rng.choice(names)
        return ["lit", nm[:max(1, len(nm) // 2)] + "*"]
    return ["lit", rng.choice(["nomatch", "?", "*a*"])]


MULTI = ("getm", "getd", "getl", "getda", "copy", "update", "iter", "app_read", "getdf")
FORCED_STORE = dict(copy=True, update=True, iter=True, app_read=False)      # entry points that fix the store flag
FORCED_FULL = dict(copy=True, update=True, iter=False, app_read=False, getl=False, getdf=False)


def gen_style(rng, api, sel, store):
    """another way to write the same call: positional arguments, defaults left out, tuple / bare string / bare integer / ndarray
    instead of a list; `scribble`: the caller overwrites the arrays of the returned series afterwards (only series that are not
    the cached objects are touched)"""
    st = {}
    if rng.random() < 0.2 and api in ("get", "geta", "getm", "getd", "getl", "getda"):
        st["pos"] = True
    if rng.random() < 0.2:
        st["dflt"] = True
    if api not in ("get", "geta"):
        if sel[0] == "names" and sel[1] is not None:
            r = rng.random()
            if r < 0.2:
                st["form"] = "tuple"
            elif r < 0.5 and len(sel[1]) == 1:
                st["form"] = "str"
        elif sel[0] == "ind":
            r = rng.random()
            if r < 0.15:
                st["form"] = "tuple"
            elif r < 0.3:
                st["form"] = "arr"
            elif r < 0.6 and len(sel[1]) == 1:
                st["form"] = "int"
    if api in ("copy", "update") and rng.random() < 0.5:
        st["shallow"] = True
    if not store and api in ("get", "getm", "getd", "getl", "app_read") and rng.random() < 0.3:
        st["scribble"] = True
    return st


def gen_load_style(rng, first, single):
    st = {}
    if first and rng.random() < 0.35:
        st["via"] = rng.choice(["fromfile", "fromfile", "app"])
    r = rng.random()
    if st.get("via") == "app" or not single:
        st["form"] = rng.choice(["list", "tuple"])
    elif r < 0.2:
        st["form"] = "list"
    elif r < 0.3:
        st["form"] = "tuple"
    elif r < 0.45:
        st["form"] = "glob"
    if rng.random() < 0.3:
        st["rel"] = True
    if rng.random() < 0.2 and st.get("via") != "app":
        st["pos"] = True
    return st


def gen_history(rng, specs, maxops=6, plain=False):
    """specs: the files of this database (1-3); ops are lists (JSON friendly).  `plain`: only the historical spellings."""
    order = list(range(len(specs)))
    rng.shuffle(order)
    loaded, todo = [], list(order)
    ops = []

    def load_op():
        first = not ops
        if len(todo) >= 2 and not plain and rng.random() < 0.3:
            fis = [todo.pop(0), todo.pop(0)]                               # several files in one call
        else:
            fis = [todo.pop(0)]
        st = {} if plain else gen_load_style(rng, first, len(fis) == 1)
        read = rng.random() < 0.3 and st.get("via") != "app"
        loaded.extend(fis)
        return ["load", fis[0] if len(fis) == 1 and st.get("form") not in ("list", "tuple") else fis, read] + ([st] if st else [])
    ops.append(load_op())
    for _ in range(rng.randint(1, maxops - 1)):
        nkeys = sum(len(specs[fi]["names"]) for fi in loaded)
        if todo and rng.random() < 0.35:
            ops.append(load_op())
            continue
        r = rng.random()
        if r < 0.04:
            ops.append(["load", rng.choice(loaded), False])      # refused: already registered
            continue
        if r < 0.07 and not plain:
            # refused: a file that does not exist, alone or after a new file in the same call (nothing may be registered then)
            ops.append(["load", "missing", False] if not todo or rng.random() < 0.5 else
                       ["load", [todo[0], rng.choice(["missing", loaded[0]])], False, dict(form="list")])
            continue
        if r < 0.14 and not plain:
            # the caller changes a series it is handed (see `touch`); the other series must not notice
            fi = rng.choice(loaded)
            ops.append(["touch", ["name", ["key", fi, rng.randrange(len(specs[fi]["names"]))]], rng.random() < 0.7,
                        dict(kind=rng.choice(TOUCH_KINDS))])
            continue
        store = rng.random() < 0.6
        api = rng.choice(["getm", "getm", "getd", "getl", "getda", "get", "geta"])
        if not plain and rng.random() < 0.15:
            api = rng.choice(["copy", "update", "iter", "app_read"])
        if api in ("get", "geta"):
            if rng.random() < 0.6:
                sel = ["name", gen_pattern(rng, specs, loaded)]
            else:
                i = rng.randrange(nkeys + (1 if rng.random() < 0.1 else 0))
                if not plain and rng.random() < 0.2:
                    i = i - nkeys - (1 if rng.random() < 0.1 else 0)         # counted from the end
                sel = ["ind", i]
            ops.append([api, sel, store] + ([] if plain else [gen_style(rng, api, sel, store)]))
        else:
            r = rng.random()
            if api == "iter" or r < 0.08:
                sel = ["names", None]
            elif r < 0.65 or api in ("copy", "update", "app_read"):
                sel = ["names", [gen_pattern(rng, specs, loaded) for _ in range(rng.choice([1, 1, 2, 2, 3, 4]))]]
            else:
                sel = ["ind", [rng.randrange(nkeys + (1 if rng.random() < 0.03 else 0)) for _ in range(rng.choice([1, 2, 2, 3, 4]))]]
                if not plain and rng.random() < 0.25:
                    sel[1] = [i - nkeys if rng.random() < 0.5 else i for i in sel[1]]
            store = FORCED_STORE.get(api, store)
            full = FORCED_FULL.get(api, rng.random() < 0.6)
            ops.append([api, sel, store, full] + ([] if plain else [gen_style(rng, api, sel, store)]))
    return ops


def subset_histories(spec, quick, rng):
    """ordered subsets of the names of one file, by name and by index, under three cache states"""
    k = len(spec["names"])
    subs = [list(p) for r in range(1, k + 1) for p in itertools.permutations(range(k), r)]
    if quick or k > 4:
        corner = [list(range(k))[::-1], [k - 1], [k - 1, 0] if k > 1 else [0], list(range(1, k)) or [0], [0, k - 1, 0],
                  [k // 2, k - 1, k // 2, 0][:k + 1], list(range(k))]
        rest = [s for s in subs if s not in corner]
        rng.shuffle(rest)
        subs = corner + rest[:7]
    out = []
    for s in subs:
        for state in ("fresh", "eager", "partial"):
            pre = [["load", 0, state == "eager"]]
            if state == "partial":
                pre.append(["getm", ["ind", [rng.randrange(k)]], True, True])
            byname = rng.random() < 0.5
            sel = ["names", [["lit", spec["names"][j]] for j in s]] if byname else ["ind", list(s)]
            store = rng.random() < 0.5
            out.append(pre + [[rng.choice(["getm", "getda", "getl"]), sel, store, True],
                              ["getm", ["ind", list(s)] if byname else ["names", [["key", 0, j] for j in s]], not store, True]])
    return out


def sweep_history(spec, rng):
    """every name of a file asked for on its own (uncached / cached), then all of them and every second one in reverse file order"""
    names = spec["names"]
    rev = list(range(len(names)))[::-1]
    ops = [["load", 0, rng.random() < 0.3]]
    for j in rev:
        ops.append([rng.choice(["get", "geta"]), ["name", ["lit", names[j]]], rng.random() < 0.5])
    ops.append([rng.choice(["getm", "getd", "getda"]), ["names", [["lit", names[j]] for j in rev]], False, True])
    ops.append(["getl", ["names", [["lit", names[j]] for j in rev[::2]]], True, True])
    for j in range(len(names)):
        ops.append(["get", ["name", ["lit", names[j]]], True])
    return ops


def touch_history(spec, rng):
    """several series of one file are read in ONE call and cached (or the file is loaded eagerly); the caller then changes one of
    the series it is handed (date-time reference set and moved / arrays changed in place); the others -- asked for afterwards by name,
    index and wildcard, cached and uncached, and those never read so far -- carry what the file holds.  Then the same with a second
    series and another kind of change."""
    names = spec["names"]
    k = len(names)
    order = list(range(k))
    rng.shuffle(order)
    first = order[:max(2, k - 1)]                                # (one name is left unread where there are three or more)
    kinds = rng.sample(TOUCH_KINDS, 2)
    if "dtg2" not in kinds and "dtg0" not in kinds:
        kinds[0] = rng.choice(["dtg2", "dtg0"])
    ops = [["load", 0, rng.random() < 0.25]]
    api = rng.choice(["getm", "getl", "getda", "getd"])
    sel = ["names", [["lit", names[j]] for j in first]] if rng.random() < 0.6 else ["ind", list(first)]
    if rng.random() < 0.2:
        sel = ["names", [["lit", "*"]]]
    ops.append([api, sel, True, FORCED_FULL.get(api, rng.random() < 0.5)])
    ops.append(["touch", ["name", ["key", 0, first[0]]], rng.random() < 0.7, dict(kind=kinds[0])])
    for j in order[::-1]:
        if j != first[0]:
            ops.append([rng.choice(["get", "geta"]), rng.choice([["name", ["lit", names[j]]], ["ind", j]]), rng.random() < 0.5])
    ops.append(["getm", ["names", None], False, True])
    if k > 1:
        ops.append(["touch", ["name", ["key", 0, first[1]]], rng.random() < 0.7, dict(kind=kinds[1])])
    ops.append(["getl", ["ind", list(range(k))[::-1]], True, False])
    ops.append(["getm", ["names", [["key", 0, j] for j in order]], rng.random() < 0.5, True])
    return ops


RENAME_POOL = ["zz", "x_lf", "renamed 1", "Time", "END", "R [kN]", "Q[m/s]", "b", "a", "ab", "Fx", "fx", "time", "0"]
REGISTRY_OPS = ("rename", "clear", "refuse")

# calls the entry points REFUSE (op `refuse`): every kind is a call on the same database object that raises on the unchanged tree
# (or, for the kinds not in REFUSE_MUST, may raise depending on the cache state / the file); nothing about the database may have
# changed afterwards.  REFUSE_MUST: kinds that would change the registry if they were accepted (the harness then no longer knows
# what is registered where: reported as a broken tie and the history is abandoned).
REFUSE_KINDS = ["rename_taken", "rename_taken", "rename_type", "rename_type", "rename_nomatch", "rename_ambiguous",
                "get_nomatch", "get_ambiguous", "get_index", "get_both", "get_neither", "get_name_type", "get_ind_type",
                "getm_both", "getm_index", "getm_ind_type", "getm_names_type", "geta_kwargs", "geta_kwargs", "geta_kwargs",
                "load_missing", "load_again", "load_ext", "load_dir", "load_type", "load_partway", "clear_type", "add_type",
                "update_taken", "update_type", "copy_type", "export_type", "export_ext", "getdf", "file_gone", "series", "series", "series"]
REFUSE_MUST = ("rename_taken", "rename_type", "rename_nomatch", "rename_ambiguous", "load_missing", "load_again", "load_ext",
               "load_dir", "load_type", "load_partway", "clear_type", "add_type", "update_taken", "update_type")
SERIES_REFUSED = ["dtg_type", "dtg_none", "dtg_mixed", "modify_resample", "modify_filter", "modify_twin_resample", "modify_kw",
                  "modify_twin", "resample_none", "resample_neg", "resample_outside", "filter_unknown", "filter_freqs", "filter_type",
                  "get_filter", "interpolate_type"]
GETA_REFUSED = ["resample_str", "filter_unknown", "filter_short", "filter_type", "twin_resample", "unknown_kw"]


def has_registry_op(ops):
    return any(op[0] in REGISTRY_OPS for op in ops)


def registry_history(specs, rng, quick=True, refuse=None):
    """`refuse`: None = as before; "some" = 1-2 refused calls (REFUSE_KINDS) after every change of the registry; "all" = in addition
    one refused call of every kind that applies, in random order, each followed by retrievals on the same database, with an accepted
    rename now and then in between.
    The registry CHANGES between retrievals: series of the 1-2 files are renamed (also: two series exchange their names, a series
    takes the name another one had on the file, a name of the other file, a case variant of its own name) or removed from the database,
    under three cache states (nothing read / everything read / some read); after every change every registered series is asked for by
    index (from the start / from the end, get / geta / getm / getl / getda, stored or not), by its current name and by '*':
    the series at index i is the one registered at position i of `register_keys`, under its current name, with what the file holds
    for the column it was registered from."""
    nf = len(specs)
    cur = {(fi, j): nm for fi, sp in enumerate(specs) for j, nm in enumerate(sp["names"])}
    reg = [(fi, j) for fi in range(nf) for j in range(len(specs[fi]["names"]))]
    state = rng.choice(["fresh", "eager", "partial", "partial"])
    if nf > 1 and rng.random() < 0.5:
        ops = [["load", list(range(nf)), state == "eager", dict(form="list")]]
    else:
        ops = [["load", fi, state == "eager"] for fi in range(nf)]
    if state == "partial":
        ops.append(["getm", ["ind", sorted(rng.sample(range(len(reg)), rng.randint(1, max(1, len(reg) - 1))))], True, True])

    def taken(fi):
        return set(cur[fj] for fj in reg if fj[0] == fi)

    def fresh_name(fi, j):
        old = cur[(fi, j)]
        cands = list(RENAME_POOL) + [old.swapcase(), old + "_lf", old[:max(1, len(old) // 2)], specs[fi]["names"][(j + 1) % len(specs[fi]["names"])]]
        cands += [cur[fj] for fj in reg if fj[0] != fi][:2]                    # a name registered for the other file
        cands = [c for c in cands if c and c not in taken(fi) and c != old and not any(ch in c for ch in "*?()^\\")]
        return rng.choice(cands)

    def target(fj):
        # by full key (always unique) or by the bare current name where that is unique and free of pattern characters
        nm = cur[fj]
        if rng.random() < 0.4 and sum(1 for q in reg if cur[q] == nm) == 1 and not any(ch in nm for ch in "*?[]()^"):
            return ["lit", nm]
        return ["key", fj[0], fj[1]]

    def rename(fj, new):
        ops.append(["rename", target(fj), new])
        cur[fj] = new

    def sweep():
        n = len(reg)
        idx = list(range(n))
        r = rng.random()
        if r < 0.3:
            idx = idx[::-1]
        elif r < 0.6:
            rng.shuffle(idx)
        for i in idx:
            ops.append([rng.choice(["get", "geta"]), ["ind", i - n if rng.random() < 0.2 else i], rng.random() < 0.6])
        perm = list(range(n))
        rng.shuffle(perm)
        api = rng.choice(["getm", "getl", "getda", "getd"])
        ops.append([api, ["ind", perm], rng.random() < 0.5, FORCED_FULL.get(api, rng.random() < 0.5)])
        for fj in rng.sample(reg, min(len(reg), 3)):
            ops.append([rng.choice(["get", "geta"]), ["name", target(fj)], rng.random() < 0.5])
        if rng.random() < 0.5:
            ops.append(["getm", ["names", None], rng.random() < 0.3, True])
        for i in (idx[::-1] if rng.random() < 0.5 else idx)[:n if rng.random() < 0.5 else 2]:       # (now mostly cached)
            ops.append([rng.choice(["get", "geta"]), ["ind", i], rng.random() < 0.6])

    def refusal(kind):
        """a call of the given kind that the database refuses in the registry state (reg, cur) of this moment; None: does not apply"""
        n = len(reg)

        def one():
            return rng.choice(["get", "geta"])

        def many():
            return rng.choice(["getm", "getd", "getl", "getda"])

        def st():
            return rng.random() < 0.5
        fj = rng.choice(reg)
        a = None
        if kind == "rename_taken":
            sib = [q for q in reg if q[0] == fj[0] and q != fj]
            if sib:
                o = rng.choice(sib)
                a = dict(t=target(fj), other=["key", o[0], o[1]])
        elif kind == "rename_type":
            a = dict(t=target(fj), val=rng.choice(["none", "int", "float", "bytes", "list"]))
        elif kind == "rename_nomatch":
            a = dict(new=rng.choice(RENAME_POOL))
        elif kind == "rename_ambiguous":
            if sum(1 for q in reg if q[0] == fj[0]) > 1:
                a = dict(pat=rng.choice([["lit", "*"], ["file", fj[0]]]), new=rng.choice(RENAME_POOL))
        elif kind == "get_nomatch":
            a = dict(api=one(), store=st())
        elif kind == "get_ambiguous":
            if n > 1:
                a = dict(api=one(), store=st())
        elif kind == "get_index":
            a = dict(api=one(), ind=rng.choice([n, -n - 1, n + 3]), store=st())
        elif kind == "get_both":
            a = dict(api=one(), t=target(fj), ind=rng.randrange(n))
        elif kind == "get_neither":
            a = dict(api=one())
        elif kind == "get_name_type":
            a = dict(api=one(), val=rng.choice(["int", "list", "bytes"]))
        elif kind == "get_ind_type":
            a = dict(api=one(), val=rng.choice(["float", "str", "npint", "list"]), ind=rng.randrange(n), store=st())
        elif kind == "getm_both":
            a = dict(api=many(), t=target(fj), ind=rng.randrange(n))
        elif kind == "getm_index":
            a = dict(api=many(), ind=[rng.randrange(n), rng.choice([n, -n - 1])], store=st())
        elif kind == "getm_ind_type":
            a = dict(api=many(), val=rng.choice(["list", "float"]))
        elif kind == "getm_names_type":
            a = dict(api=many(), val=rng.choice(["int", "set", "dict"]))
        elif kind == "geta_kwargs":
            a = dict(t=target(fj), which=rng.choice(GETA_REFUSED), store=st())
        elif kind == "series":
            a = dict(t=target(fj), which=rng.choice(SERIES_REFUSED), store=st())
        elif kind == "load_again":
            # (refused for certain only while a series of the file is still registered under the name it has on the file)
            fis = sorted(set(q[0] for q in reg if cur[q] == specs[q[0]]["names"][q[1]]))
            if fis:
                a = dict(file=rng.choice(fis), read=st())
        elif kind == "load_partway":
            # several files in one call: a readable one that is not registered yet, then one that cannot be loaded
            a = dict(then=rng.choice(["missing", "ext", "dir"]), read=st())
        elif kind in ("load_type", "clear_type", "add_type", "copy_type"):
            a = dict(val=rng.choice(dict(load_type=["int", "none"], clear_type=["int", "set"], add_type=["str", "none"],
                                         copy_type=["int", "dict"])[kind]))
        elif kind == "update_taken":
            a = dict(t=target(fj) if rng.random() < 0.6 else None)
        elif kind == "getdf":
            a = dict(store=st())
        elif kind == "file_gone":
            a = dict(file=fj[0], rev=st(), store=st(), api=many())
        else:
            a = {}
        return None if a is None else ["refuse", kind, a]

    def probe():
        """a few retrievals on the same database (some stored, some not)"""
        n = len(reg)
        i = rng.randrange(n)
        ops.append([rng.choice(["get", "geta"]), ["ind", i - n if rng.random() < 0.2 else i], rng.random() < 0.4])
        ops.append([rng.choice(["get", "geta"]), ["name", target(rng.choice(reg))], rng.random() < 0.4])
        if rng.random() < 0.25:
            ops.append(["getm", ["names", None], False, True])

    if refuse == "all":
        kinds = list(REFUSE_KINDS)
        rng.shuffle(kinds)
        kinds.remove("file_gone")
        kinds.insert(rng.randrange(3), "file_gone")         # (early: while series of the file are still unread)
        for q, kind in enumerate(kinds):
            r = refusal(kind)
            if r is not None:
                ops.append(r)
                probe()
            if q % 9 == 8:
                fj = rng.choice(reg)
                rename(fj, fresh_name(*fj))         # an accepted change in between: later refusals meet a changed registry
        sweep()
    for rnd in range(2 if quick else 3):
        r = rng.random()
        notlast = [fj for fj in reg if fj != reg[-1]] or list(reg)
        pairs = [(a, b) for a in reg for b in reg if a[0] == b[0] and a < b]
        if r < 0.2 and pairs:
            # two series of one file exchange their names
            a, b = rng.choice(pairs)
            na, nb = cur[a], cur[b]
            tmp = "tmp_swap"
            rename(a, tmp)
            if rng.random() < 0.5:
                ops.append([rng.choice(["get", "geta"]), ["ind", reg.index(b)], rng.random() < 0.6])
            rename(b, na)
            rename(a, nb)
        elif r < 0.35 and len(reg) > 2:
            gone = rng.sample(reg, 1 if len(reg) < 4 or rng.random() < 0.6 else 2)
            ops.append(["clear", [target(fj) for fj in gone]])
            for fj in gone:
                reg.remove(fj)
        else:
            # (mostly a series that is not the last one registered: the ones after it keep their indices)
            for fj in rng.sample(notlast, 1 if rng.random() < 0.7 else min(2, len(notlast))):
                rename(fj, fresh_name(*fj))
        if refuse:
            for kind in rng.sample(REFUSE_KINDS, rng.choice([1, 2])):
                r = refusal(kind)
                if r is not None:
                    ops.append(r)
        sweep()
    return ops


def restyle(rng, ops, prob=0.5):
    """the same history with some of the calls written another way (see gen_style / gen_load_style)"""
    out = []
    for n, op in enumerate(ops):
        op = list(op)
        if op[0] == "load":
            if len(op) == 3 and not isinstance(op[1], list) and op[1] != "missing" and rng.random() < prob:
                st = gen_load_style(rng, n == 0, True)
                if st.get("via") == "app" and op[2]:
                    st.pop("via")
                if st.get("form") in ("list", "tuple"):
                    op[1] = [op[1]]
                if st:
                    op.append(st)
        elif op[0] in ("get", "geta"):
            if len(op) == 3 and rng.random() < prob:
                op.append(gen_style(rng, op[0], op[1], op[2]))
        elif op[0] != "touch" and len(op) == 4 and rng.random() < prob:
            op.append(gen_style(rng, op[0], op[1], op[2]))
        out.append(op)
    return out


def entry_history(spec, rng):
    """one file, every public entry point that hands out series of a file-backed database, each on an uncached and a cached
    database state: iteration, copy(), update(), the application helpers, to_dataframe(), get/getm with indices counted from the
    end; the series asked for are a proper subset in non-file order"""
    names = spec["names"]
    k = len(names)
    sub = [k - 1, 0] if k > 1 else [0]
    pats = [["lit", names[j]] for j in sub]
    ops = [["load", [0], False, dict(via=rng.choice(["fromfile", "app"]), form=rng.choice(["list", "tuple"]), rel=rng.random() < 0.5)]]
    # (to_dataframe only where the series share one time array of more than one sample: its common-time diagnosis is not about reading)
    frame = spec["own"] is None and len(spec["time"]) > 1
    apis = ["app_read", "copy", "update", "getl", "getd"] + (["getdf"] if frame else [])
    rng.shuffle(apis)
    for api in apis:
        store = FORCED_STORE.get(api, rng.random() < 0.5)
        ops.append([api, ["names", pats], store, FORCED_FULL.get(api, True), gen_style(rng, api, ["names", pats], store)])
    ops.append(["getm", ["ind", [-1, 0] if k > 1 else [-1]], False, True, dict(form=rng.choice(["list", "tuple", "arr"]))])
    ops.append(["get", ["ind", -k], rng.random() < 0.5, dict(pos=rng.random() < 0.5)])
    ops.append(["iter", ["names", None], True, False, {}])
    ops.append(["geta", ["ind", -1], True, {}])
    if frame:
        ops.append(["getdf", ["names", None], True, False, {}])
    return ops


def pair_history(specs, rng):
    """several files in one database (same format with another layout, the same base name in another directory ...): loaded in one
    call or one by one, then the series of the files asked for alternately by full key and by index, uncached and cached"""
    nf = len(specs)
    if rng.random() < 0.5:
        ops = [["load", list(range(nf)), False, dict(form=rng.choice(["list", "tuple"]), rel=rng.random() < 0.5)]]
    else:
        ops = [["load", fi, rng.random() < 0.2] for fi in range(nf)]
    keys = [(fi, j) for fi in range(nf) for j in range(len(specs[fi]["names"]))]
    mixed = sorted(keys, key=lambda fj: (fj[1], -fj[0]))          # file 1 col 0, file 0 col 0, file 1 col 1, ...
    pos = {fj: i for i, fj in enumerate(keys)}
    ops.append(["getm", ["names", [["key", fi, j] for fi, j in mixed]], False, True])
    ops.append(["getl", ["ind", [pos[fj] for fj in mixed[::-1]]], rng.random() < 0.5, False])
    ops.append(["touch", ["name", ["key"] + list(rng.choice(keys))], True, dict(kind=rng.choice(TOUCH_KINDS))])
    for fi, j in mixed[::2]:
        ops.append([rng.choice(["get", "geta"]), ["name", ["key", fi, j]], rng.random() < 0.5])
    ops.append(["getda", ["names", [["key", fi, j] for fi, j in mixed[1::2]] or [["key", 0, 0]]], True, True])
    ops.append(["getm", ["names", None], False, True])
    return restyle(rng, ops, 0.3)


def rewritten(rng, sp, fi, mode):
    """contents for a later version of the file of `sp` at the SAME path: mode 'keep' = unchanged, 'values' = same names and length,
    other time and data values, 'new' = other names / number of series / length"""
    if mode == "keep":
        return sp
    if mode == "new" and (sp.get("sima") or sp.get("feats")):
        mode = "values"
    if mode == "values" and sp.get("feats"):
        return sp                           # decorated files are not re-valued (number types and magnitudes belong together)
    if mode == "values":
        new = dict(sp, fi=fi)
        new["cols"] = [[1000.0 * (fi + 1) + 10.0 * (j + 1) + 0.25 * i for i in range(len(c))] for j, c in enumerate(sp["cols"])]
        new["time"] = [v + 64.0 for v in sp["time"]]
        if sp["own"]:
            new["own"] = [[v + 64.0 for v in o] for o in sp["own"]]
        return new
    new = gen_spec(rng, fi, sp["fmt"])
    return dict(new, base=sp["base"], dir=sp["dir"])


def session_histories(rng, first, fi0):
    """the files of `first` (1-2 specs) exist in 3 successive versions at the same paths; every version is opened in a new database
    (same process) and queried.  Returns [(specs, ops)] per session."""
    out = [(list(first), None)]
    for s, modes in enumerate((["values", "keep"], ["new", "values"])):
        if rng.random() < 0.5:
            modes = modes[::-1]
        out.append(([rewritten(rng, sp, fi0 + 2 * s + i, modes[i]) for i, sp in enumerate(out[-1][0])], None))
    res = []
    for sps, _ in out:
        ops = gen_history(rng, sps, maxops=5)
        pending = [i for i in range(len(sps)) if not any(op[0] == "load" and op[1] == i for op in ops)]
        ops += [["load", i, rng.random() < 0.3] for i in pending]
        ops.append(["getm", ["names", None], rng.random() < 0.5, True])
        res.append((sps, ops))
    return res


def op_store(op):
    return FORCED_STORE.get(op[0], op[2])


def op_style(op):
    n = 3 if op[0] in ("load", "get", "geta", "touch") else 4
    return op[n] if len(op) > n and isinstance(op[n], dict) else {}


def load_plan(op, loaded):
    """(files that the call registers, the file it is refused for | None): a call with several files registers all or nothing"""
    fis = op[1] if isinstance(op[1], list) else [op[1]]
    seen = []
    for fi in fis:
        if fi == "missing" or fi in loaded or fi in seen:
            return [], fi
        seen.append(fi)
    return fis, None


def missing_path(paths):
    return os.path.join(os.path.dirname(os.path.dirname(paths[0])), "no_such_file.ts")


def encode(specs, paths, ops):
    """the history in the model's line protocol; returns (line, number of model records per op).  Spellings do not reach the model:
    a call with several files is the sequence of single loads (or the one refused load), an index counted from the end is the
    index counted from the start, every multi-series entry point is a `getm` with the store flag the entry point uses."""
    toks, nrec = [], []
    for sp, p in zip(specs, paths):
        vals = list(sp["time"]) + [v for c in sp["cols"] for v in c]
        if sp["own"]:
            vals += [v for c in sp["own"] for v in c]
        toks.append("F %s %s %s %d %d %d %s" % (sp["fmt"], hx(p), hxlist(sp["names"]), len(sp["time"]), len(sp["names"]),
                                                1 if sp["own"] else 0, " ".join(core.rat(v) for v in vals)))
    loaded = []

    def norm(i):
        nkeys = sum(len(specs[fi]["names"]) for fi in loaded)
        return i if i >= 0 else i + nkeys if i + nkeys >= 0 else nkeys          # too far from the end: out of range

    for op in ops:
        if op[0] == "load":
            good, bad = load_plan(op, loaded)
            if bad is not None:
                toks.append("load %s %d" % (hx(missing_path(paths) if bad == "missing" else paths[bad]), op[2]))
                nrec.append(1)
            else:
                for fi in good:
                    toks.append("load %s %d" % (hx(paths[fi]), op[2]))
                loaded += good
                nrec.append(len(good))
            continue
        sel, store = op[1], op_store(op)
        nrec.append(1)
        if op[0] in ("get", "geta", "touch"):             # (touch: a get; what the caller does to the series afterwards is not modelled)
            if sel[0] == "name":
                toks.append("get %d n %s" % (store, hx(resolve(sel[1], specs, paths))))
            else:
                toks.append("get %d i %d" % (store, norm(sel[1])))
        else:
            if sel[0] == "names":
                toks.append("getm %d n %s" % (store, "none" if sel[1] is None else hxlist([resolve(p, specs, paths) for p in sel[1]])))
            else:
                toks.append("getm %d i %s" % (store, ",".join(str(norm(i)) for i in sel[1]) or "="))
    return "rb.run " + " ; ".join(toks), nrec


def parse_reply(reply):
    """model reply -> list of (out, cached keys); out = 'done' | 'err kind' | [(key, name, t, x)]"""
    assert reply.startswith("ok "), reply
    recs = []
    for rec in reply[3:].split(" ; "):
        out, cached = rec.split(" # ")
        if out.startswith("series "):
            items = []
            body = out[7:]
            if body != "=":
                for it in body.split("&"):
                    kn, t, x = it.split("|")
                    k, nm = kn.split("=")
                    items.append((unhx(k), unhx(nm), [] if t == "=" else [Fraction(v) for v in t.split(",")],
                                  [] if x == "=" else [Fraction(v) for v in x.split(",")]))
            out = items
        recs.append((out, unhxlist(cached)))
    return recs


# ----------------------------------------------------------------------------------------------------------
# running the implementation
# ----------------------------------------------------------------------------------------------------------
def tol_of(fmt):
    return 1e-6 if fmt in FLOAT32 else 1e-12


def close(a, b, tol):
    """relative agreement; for a stored array whose largest magnitude is below 1 the allowance scales with that magnitude (an array
    of zeros must come back as zeros)"""
    try:
        a, b = np.asarray(a, dtype=float), np.asarray([float(v) for v in b], dtype=float)
        if a.shape != b.shape:
            return False
        if b.size == 0:
            return True
        scale = min(1.0, float(np.max(np.abs(b))))
        return bool(np.all(np.abs(a - b) <= tol * np.maximum(scale, np.abs(b))))
    except Exception:
        return False


def flist(a):
    try:
        return [float(v) for v in np.asarray(a).ravel()]
    except Exception:
        return repr(a)[:200]


def spell_load(op, paths):
    """the `filenames` argument of a load in the spelling the op asks for"""
    st = op_style(op)
    fis = op[1] if isinstance(op[1], list) else [op[1]]
    ps = [missing_path(paths) if fi == "missing" else paths[fi] for fi in fis]
    if st.get("rel"):
        ps = [os.path.relpath(q) for q in ps]                  # relative to the working directory
    form = st.get("form", "list" if isinstance(op[1], list) else "str")
    if form == "glob":
        stem, ext = os.path.splitext(ps[0])
        return stem[:-1] + glob_tail(stem) + ext
    if form == "tuple":
        return tuple(ps)
    if form == "list":
        return list(ps)
    return ps[0]


def glob_tail(stem):
    """wildcard for the last character of the file stem ('?' or a one-character class; decided by the name, not by chance)"""
    return "?" if len(stem) % 2 else "[%s]" % stem[-1]


def spell_sel(op, specs, paths, cur=None):
    """(names, ind) in the spelling the op asks for"""
    sel, st = op[1], op_style(op)
    form = st.get("form", "list")
    if sel[0] in ("name", "names"):
        if sel[0] == "name":
            return resolve(sel[1], specs, paths, cur), None
        if sel[1] is None:
            return None, None
        names = [resolve(q, specs, paths, cur) for q in sel[1]]
        return (tuple(names) if form == "tuple" else names[0] if form == "str" and len(names) == 1 else names), None
    if isinstance(sel[1], int):
        return None, sel[1]
    ind = list(sel[1])
    return None, (tuple(ind) if form == "tuple" else np.array(ind, dtype=int) if form == "arr" and ind else
                  ind[0] if form == "int" and len(ind) == 1 else ind)


def scribble(db, objs):
    """what a caller may do with series it was handed that are not held by the database: overwrite their arrays in place"""
    held = set(id(v) for v in db.register.values() if v is not None)
    for ts in objs:
        if id(ts) not in held:
            try:
                ts.t[...] = -7777.0
                ts.x[...] = -7777.0
            except Exception:
                pass


TOUCH_KINDS = ["dtg2", "dtg0", "tshift", "fill", "xneg"]


def touch(ts, kind):
    """what a caller may do with a series it was handed (whether or not the database holds that very object): give it a date-time
    reference and move the reference (the documented `set_dtg_ref`, which shifts the time array of THAT series), or change its
    arrays in place"""
    from datetime import datetime
    if kind == "dtg2":
        ts.set_dtg_ref(datetime(2020, 1, 1, 12, 0, 0))
        ts.set_dtg_ref(datetime(2020, 1, 1, 11, 0, 0))          # corrected by one hour: t += 3600
    elif kind == "dtg0":
        ts.set_dtg_ref(datetime(2020, 1, 1, 12, 0, 0))
        ts.set_dtg_ref()                                        # reference moved to the first sample: t -= t[0]
    elif kind == "tshift":
        ts.t[...] += 64.0
    elif kind == "fill":
        ts.t[...] = -7777.0
        ts.x[...] = -7777.0
    elif kind == "xneg":
        ts.x *= -1.0
    else:
        raise ValueError(kind)


def tainted(state, key):
    """the object the database holds under `key` is one the caller has changed (its content is the caller's business)"""
    held = state["db"].register.get(key)
    return held is not None and any(held is o for o in state.get("touched", ()))


def odd_value(s, i=0):
    """an argument of a type the entry point does not accept (or, for npint, an equal value in another spelling)"""
    return dict(none=None, int=5, float=float(i), bytes=b"x", list=[i] if s == "list" and i else ["a"], str=str(i), npint=np.int64(i),
                set={"a"}, dict={"a": 1})[s]


def scratch_dir(paths):
    return os.path.dirname(os.path.dirname(paths[0]))


def scratch_file(paths, which):
    """files next to the data directories that refused loads refer to: a file of a type that cannot be read, a small readable
    file that no history registers (written on first use)"""
    top = scratch_dir(paths)
    p = os.path.join(top, dict(ext="not_a_series_file.xyz", ok="never_registered.csv")[which])
    if not os.path.exists(p):
        with open(p, "w") as f:
            f.write("time,u,v\n0.0,1.0,2.0\n1.0,3.0,4.0\n2.0,5.0,6.0\n")
    return p


def series_refused(ts, which):
    """a call on a series handed out by the database that the series refuses (it raises): an ill-typed / missing / time-zone-mixed
    date-time reference, a modification / resampling / filtering with options that are rejected"""
    from datetime import datetime, timezone
    if which == "dtg_type":
        return ts.set_dtg_ref("2020-01-01 12:00")
    if which == "dtg_none":
        return ts.set_dtg_ref() if ts.dtg_ref is None else ts.set_dtg_ref(5)
    if which == "dtg_mixed":
        if ts.dtg_ref is None:
            ts.set_dtg_ref(datetime(2020, 1, 1, 12, 0, 0))              # accepted: a reference is set, the arrays stay
        other = datetime(2020, 1, 1, 11, 0, 0, tzinfo=None if ts.dtg_ref.tzinfo is not None else timezone.utc)
        return ts.set_dtg_ref(other)                                    # refused: one with, one without a time zone
    if which == "modify_resample":
        return ts.modify(resample="x")
    if which == "modify_filter":
        return ts.modify(filterargs=("nosuch", 1.0))
    if which == "modify_twin_resample":
        return ts.modify(twin=(0.0, 1.0), resample=[0.0, 0.5, 1.0])
    if which == "modify_kw":
        return ts.modify(no_such_option=1)
    if which == "modify_twin":
        return ts.modify(twin=(1.0,))
    if which == "resample_none":
        return ts.resample()
    if which == "resample_neg":
        return ts.resample(dt=-1.0)
    if which == "resample_outside":
        return ts.resample(t=np.array([ts.start - 1.0, ts.start]))
    if which == "filter_unknown":
        return ts.filter("nosuch", 1.0)
    if which == "filter_freqs":
        return ts.filter("lp", (1.0, 2.0))
    if which == "filter_type":
        return ts.filter("bp", "xy")
    if which == "get_filter":
        return ts.get(filterargs=("bp", 1.0))
    if which == "interpolate_type":
        return ts.interpolate("x")
    raise ValueError(which)


def do_refused(state, op, specs, paths):
    """the call of a `refuse` op, on the real database (it is expected to raise)"""
    db, kind, a = state["db"], op[1], op[2]
    cur = state.get("cur") or {}

    def res(pat):
        return resolve(pat, specs, paths, cur)
    if kind == "rename_taken":
        o = a["other"]
        return db.rename(res(a["t"]), cur.get((o[1], o[2]), specs[o[1]]["names"][o[2]]))
    if kind == "rename_type":
        return db.rename(res(a["t"]), odd_value(a["val"]))
    if kind == "rename_nomatch":
        return db.rename("no_such_series", a["new"])
    if kind == "rename_ambiguous":
        return db.rename(res(a["pat"]), a["new"])
    if kind.startswith("get_"):
        f = getattr(db, a["api"])
        skw = dict(store=a["store"]) if "store" in a else {}
        if kind == "get_nomatch":
            return f(name="no_such_series", **skw)
        if kind == "get_ambiguous":
            return f(name="*", **skw)
        if kind == "get_index":
            return f(ind=a["ind"], **skw)
        if kind == "get_both":
            return f(name=res(a["t"]), ind=a["ind"])
        if kind == "get_neither":
            return f()
        if kind == "get_name_type":
            return f(name=odd_value(a["val"]))
        if kind == "get_ind_type":
            return f(ind=odd_value(a["val"], a["ind"]), **skw)
    if kind.startswith("getm_"):
        f = getattr(db, a["api"])
        skw = dict(store=a["store"]) if "store" in a else {}
        if kind == "getm_both":
            return f(names=[res(a["t"])], ind=[a["ind"]])
        if kind == "getm_index":
            return f(ind=list(a["ind"]), **skw)
        if kind == "getm_ind_type":
            return f(ind=odd_value(a["val"]))
        if kind == "getm_names_type":
            return f(names=odd_value(a["val"]))
    if kind == "geta_kwargs":
        kw = dict(resample_str=dict(resample="x"), filter_unknown=dict(filterargs=("nosuch", 1.0)), filter_short=dict(filterargs=("lp",)),
                  filter_type=dict(filterargs="lp"), twin_resample=dict(twin=(0.0, 1.0), resample=[0.0, 0.5, 1.0]),
                  unknown_kw=dict(no_such_option=1))[a["which"]]
        return db.geta(name=res(a["t"]), store=a["store"], **kw)
    if kind == "series":
        ts = db.get(name=res(a["t"]), store=a["store"])
        series_refused(ts, a["which"])
        state.setdefault("touched", []).append(ts)      # (not refused after all: what the object holds is the caller's business now)
        return None
    if kind == "load_missing":
        return db.load(missing_path(paths))
    if kind == "load_again":
        return db.load(paths[a["file"]], read=a["read"])
    if kind == "load_ext":
        return db.load(scratch_file(paths, "ext"))
    if kind == "load_dir":
        return db.load(os.path.dirname(paths[0]))
    if kind == "load_type":
        return db.load(odd_value(a["val"]))
    if kind == "load_partway":
        bad = dict(missing=missing_path(paths), ext=scratch_file(paths, "ext"), dir=os.path.dirname(paths[0]))[a["then"]]
        return db.load([scratch_file(paths, "ok"), bad], read=a["read"])
    if kind == "clear_type":
        return db.clear(names=odd_value(a["val"]), display=False)
    if kind == "add_type":
        return db.add(odd_value(a["val"]))
    if kind == "update_taken":
        return db.update(db) if a.get("t") is None else db.update(db, names=res(a["t"]))
    if kind == "update_type":
        return db.update("not a database")
    if kind == "copy_type":
        return db.copy(names=odd_value(a["val"]))
    if kind == "export_type":
        return db.export(5)
    if kind == "export_ext":
        return db.export(os.path.join(scratch_dir(paths), "refused_export", "out.xyz"))
    if kind == "getdf":
        return db.to_dataframe(store=a["store"])
    if kind == "file_gone":
        # (the data file of `file` has been moved away by the caller of this function and is put back afterwards)
        keys = list(db.register_keys)
        return getattr(db, a["api"])(names=keys[::-1] if a["rev"] else keys, store=a["store"])
    raise ValueError("unknown kind of refused call: %r" % (op,))


def call(state, op, specs, paths):
    """one operation on the real database -> 'done' | 'err kind' | list of (container key | None, name | None, t, x);
    op `refuse`: 'refused <exception>' | 'accepted'"""
    from qats import TsDB
    db = state["db"]
    st = op_style(op)
    if op[0] == "refuse":
        try:
            do_refused(state, op, specs, paths)
        except Exception as e:
            return "refused " + type(e).__name__
        return "accepted"
    try:
        if op[0] == "load":
            arg = spell_load(op, paths)
            via = st.get("via", "load")
            if via == "fromfile":
                state["db"] = TsDB.fromfile(arg, op[2]) if st.get("pos") else TsDB.fromfile(arg, read=op[2])
            elif via == "app":
                from qats.app.funcs import import_from_file
                state["db"] = import_from_file(arg)
            elif st.get("pos"):
                db.load(arg, op[2])
            else:
                db.load(arg, read=op[2])
            return "done"
        if op[0] == "rename":
            db.rename(resolve(op[1], specs, paths, state.get("cur")), op[2])
            return "done"
        if op[0] == "clear":
            db.clear(names=[resolve(q, specs, paths, state.get("cur")) for q in op[1]], display=False)
            return "done"
        api, store = op[0], op_store(op)
        names, ind = spell_sel(op, specs, paths, state.get("cur"))
        skw = {} if (st.get("dflt") and store) else dict(store=store)

        def arr(ts):
            return np.array(ts.t), np.array(ts.x)
        if api == "touch":
            out = db.get(name=names, **skw)
            state["handed"] = out                               # (changed by the caller after the outcome has been looked at)
            return [(None, out.name) + arr(out)]
        if api in ("get", "geta"):
            f = getattr(db, api)
            if st.get("pos"):
                out = f(names, ind, store)
            elif names is not None:
                out = f(name=names, **skw)
            else:
                out = f(ind=ind, **skw)
            if api == "get":
                res = [(None, out.name) + arr(out)]
                if st.get("scribble"):
                    scribble(db, [out])
                return res
            return [(None, None, np.array(out[0]), np.array(out[1]))]
        fullkey = op[3]
        kw = dict(names=names) if ind is None else dict(ind=ind)
        if api in ("getm", "getd", "getda"):
            fkw = {} if (st.get("dflt") and not fullkey) else dict(fullkey=fullkey)
            c = getattr(db, api)(names, ind, store, fullkey) if st.get("pos") else getattr(db, api)(**kw, **skw, **fkw)
            if api == "getda":
                return [(k if fullkey else None, None, np.array(t), np.array(x)) for k, (t, x) in c.items()]
            res = [(k if fullkey else None, ts.name) + arr(ts) for k, ts in c.items()]
            if st.get("scribble"):
                scribble(db, list(c.values()))
            return res
        if api == "getl":
            lst = db.getl(names, ind, store) if st.get("pos") else db.getl(**kw, **skw)
            res = [(None, ts.name) + arr(ts) for ts in lst]
            if st.get("scribble"):
                scribble(db, lst)
            return res
        if api == "iter":
            return [(None, ts.name) + arr(ts) for ts in db]
        if api in ("copy", "update"):
            if api == "copy":
                new = db.copy(names=names, shallow=bool(st.get("shallow")))
            else:
                new = TsDB()
                new.update(db, names=names, shallow=bool(st.get("shallow")))
            return [(k, new.register[k].name) + arr(new.register[k]) for k in new.register_keys]
        if api == "app_read":
            from qats.app.funcs import read_timeseries
            c = read_timeseries(db, names)
            res = [(None, ts.name) + arr(ts) for ts in c.values()]
            if st.get("scribble"):
                scribble(db, list(c.values()))
            return res
        if api == "getdf":
            df = db.to_dataframe(names=names, **skw)
            return [(None, None, np.array(df.index.values), np.array(df.iloc[:, j].values)) for j in range(df.shape[1])]
        raise ValueError(op[0])
    except FileExistsError:
        return "err file"
    except Exception as e:
        return err_enum(e)


def simple_expectation(op, specs, paths, loaded, reg=None, cur=None):
    """keys a request selects BY CONSTRUCTION (no wildcard semantics needed): exact names that occur in exactly one loaded file,
    full keys, '*' alone / names=None, register indices (from the start or from the end).  None when the request is not of that
    simple kind.  `reg`: the (file, column) pairs registered now, in register order (default: every series of the loaded files);
    `cur`: (file, column) -> the name it is registered under now (default: the name on the file)."""
    allkeys = list(reg) if reg is not None else [(fi, j) for fi in loaded for j in range(len(specs[fi]["names"]))]

    def name_of(fi, j):
        return (cur or {}).get((fi, j), specs[fi]["names"][j])
    sel = op[1]
    if sel[0] == "ind":
        idx = [sel[1]] if isinstance(sel[1], int) else list(sel[1])
        if any(i >= len(allkeys) or i < -len(allkeys) for i in idx):
            return None
        want = [allkeys[i] for i in idx]
    elif sel[0] == "name" or sel[0] == "names":
        pats = [sel[1]] if sel[0] == "name" else sel[1]
        if pats is None or pats == [["lit", "*"]]:
            want = list(allkeys)
        else:
            want = []
            for p in pats:
                if p[0] == "key":
                    if p[1] not in loaded or (p[1], p[2]) not in allkeys:
                        return None
                    want.append((p[1], p[2]))
                elif p[0] == "rel" and not any(ch in name_of(p[1], p[2]) for ch in "*?[]()^"):
                    base = os.path.basename(paths[p[1]])
                    hits = [(fi, j) for (fi, j) in allkeys if os.path.basename(paths[fi]) == base
                            and name_of(fi, j) == name_of(p[1], p[2])]
                    if len(hits) != 1 or p[1] not in loaded:
                        return None
                    want += hits
                elif p[0] == "lit" and not any(ch in p[1] for ch in "*?[]()^"):
                    hits = [(fi, j) for (fi, j) in allkeys if name_of(fi, j) == p[1]]
                    if len(hits) != 1:       # absent, or present in several loaded files: not a simple request
                        return None
                    want += hits
                else:
                    return None
    else:
        return None
    out = []
    for w in want:
        if w not in out:
            out.append(w)
    return out


TIME_LIMIT = [6.0, 1.0, 0.3]  # seconds a single call on a database may take (a normal call takes milliseconds):
HUNG = object()             # until a call has failed to return in this process / after that / after five (the check keeps to its budget)
HANGS = []
REFUSING = []               # the histories with refused calls evaluated in this process before the first call that did not return


def time_limit():
    return TIME_LIMIT[0 if not HANGS else 1 if len(HANGS) < 5 else 2]


class Worker(object):
    """a long-lived daemon thread that makes the calls on the databases, so that a call that never returns (e.g. waiting for a lock
    an earlier, refused call did not release) does not stop the check: the caller waits for the outcome for a limited time and
    leaves a worker that does not answer behind"""
    current = None

    def __init__(self):
        self.inbox, self.outbox = queue.SimpleQueue(), queue.SimpleQueue()
        threading.Thread(target=self.loop, daemon=True).start()

    def loop(self):
        while True:
            f = self.inbox.get()
            try:
                self.outbox.put((True, f()))
            except BaseException as e:          # (`call` turns the exceptions of the library into outcomes: this is a harness error)
                self.outbox.put((False, e))

    @classmethod
    def run(cls, f, what):
        if cls.current is None:
            cls.current = Worker()
        w = cls.current
        w.inbox.put(f)
        try:
            ok, res = w.outbox.get(timeout=time_limit())
        except queue.Empty:
            cls.current = None
            HANGS.append(what)
            return HUNG
        if not ok:
            raise res
        return res


class Abandon(Exception):
    """the harness can no longer follow the registry of the database (recorded as a disagreement)"""


VALUES = "a series read from a file carries exactly the time and data arrays stored in the file under that name"


def execute(specs, paths, ops, model=None, chk=None, inp=None, verbose=False, nrec=None, shadow=None):
    """runs a history on the real TsDB; compares with the parsed model reply (if given) and evaluates the oracles.
    `shadow`: ops for a second database of the same process on the same files, run alternately with `ops` (oracles only).
    Returns (disagreements, failures) as lists of dicts; when `chk` is given they are recorded there as well."""
    from qats import TsDB
    def new_state():
        # reg: the (file, column) pairs registered in this database, in register order; cur: the name each is registered under now;
        # keymap: full key -> (file, column) (all three follow load / rename / clear)
        return dict(db=TsDB(), reg=[], cur={(fi, j): nm for fi, sp in enumerate(specs) for j, nm in enumerate(sp["names"])},
                    keymap={paths[fi] + os.path.sep + nm: (fi, j) for fi, sp in enumerate(specs) for j, nm in enumerate(sp["names"])})
    state, state2 = new_state(), new_state()
    dis, fails = [], []
    keymap = state["keymap"]
    loaded, loaded2 = [], []
    nrec = nrec or [1] * len(ops)

    def fail(text, upto, expected, observed, **kw):
        i2 = dict(inp or {}, upto=upto)
        if "diff" in kw:
            i2["diff"] = kw.pop("diff")
        if kw.get("before"):
            i2["before"] = kw.pop("before")
        kw.pop("before", None)
        d = dict(oracle=text, input=i2, expected=expected, observed=observed, **kw)
        fails.append(d)
        if chk is not None:
            chk.fail(d["oracle"], d["input"], expected, observed, **kw)
        if verbose:
            print("FAILS:", text, "| expected", expected, "| observed", observed)

    def check_series(upto, ident, item, how, st8=None):
        """oracle: the series identified as (file, column) carries what the generator wrote (time and data: unless it is the very
        object the caller of this database has changed itself)"""
        fi, j = ident
        k, nm, t, x = item
        sp = specs[fi]
        wn, wt, wx = stored(sp, j)
        if st8 is not None:
            wn = st8["cur"][(fi, j)]                  # the name it is registered under now
        tol = tol_of(sp["fmt"])
        if chk is not None:
            chk.count("oracle:values")
        if nm is not None and nm != wn:
            fail("a series obtained from a file-backed database carries the name it is registered under", upto, wn, nm, clause="name",
                 fmt=sp["fmt"], how=how)
        if st8 is not None and tainted(st8, paths[fi] + os.path.sep + wn):
            return
        if close(t, wt, tol) and close(x, wx, tol):
            return
        if sp["fmt"] == "asc" and close(t, wt[1:], tol) and close(x, wx[1:], tol):
            fail(VALUES, upto, dict(name=wn, t=wt, x=wx), dict(t=flist(t), x=flist(x)), clause="values", fmt="asc", how=how, diff=F15)
            return
        fail(VALUES, upto, dict(name=wn, t=wt, x=wx), dict(t=flist(t), x=flist(x)), clause="values", fmt=sp["fmt"], how=how)

    def oracles(st8, op, res, ldd, upto, who):
        """the clauses of the property on the outcome `res` of `op` (model independent)"""
        db = st8["db"]
        if op[0] == "load":
            good, bad = load_plan(op, ldd)
            if res != "done":
                if bad is None:
                    fail("a readable file that is not yet registered can be loaded", upto, "done", res, clause="load",
                         fmt=[specs[fi]["fmt"] for fi in good], how=who)
                return
            if bad is not None:
                return                              # (the refusal itself belongs to the registry property; the model tie reports it)
            for fi in good:
                ldd.append(fi)
                st8["reg"] += [(fi, j) for j in range(len(specs[fi]["names"]))]
                # the names a file is asked for are the names stored in it: all of them registered, in file order, nothing else
                pre = paths[fi] + os.path.sep
                regs = [k[len(pre):] for k in db.register_keys if k.startswith(pre)]
                if chk is not None:
                    chk.count("oracle:register")
                if regs != list(specs[fi]["names"]):
                    fail("every series stored in a file is registered under its name when the file is loaded (all names, file order)",
                         upto, list(specs[fi]["names"]), regs, clause="register", fmt=specs[fi]["fmt"], how=who)
                if op[2] and op_style(op).get("via") != "app":
                    # eager load: everything on the file is cached now; check it against the generator directly
                    for j in range(len(specs[fi]["names"])):
                        ts = db.register.get(pre + specs[fi]["names"][j])
                        if ts is None:
                            fail("load(read=True) reads and stores every series of the file", upto, "cached", "None", clause="eager")
                        else:
                            check_series(upto, (fi, j), (None, ts.name, np.array(ts.t), np.array(ts.x)), "eager load" + who, st8)
            return
        if op[0] in ("rename", "clear"):
            registry_op(st8, op, res, ldd, upto, who)
            return
        if op[0] == "refuse":
            refused_op(st8, op, res, upto, who)
            return
        keymap = st8["keymap"]
        exp = simple_expectation(op, specs, paths, ldd, st8["reg"], st8["cur"])
        if isinstance(res, list):
            if exp is not None:
                if chk is not None:
                    chk.count("oracle:selection")
                if len(exp) != len(res):
                    fail("a request by exact names / full keys / indices returns exactly the requested series, in request order", upto,
                         [specs[fi]["names"][j] for fi, j in exp], [it[1] or it[0] for it in res], clause="selection", how=who)
                else:
                    for ident, it in zip(exp, res):
                        check_series(upto, ident, it, "by construction" + who, st8)
            for it in res:
                if it[0] is not None:
                    if it[0] in keymap:
                        check_series(upto, keymap[it[0]], it, "container key" + who, st8)
                    else:
                        fail("container keys are registered keys", upto, "one of the registered keys", it[0], clause="key")
        elif res != "done":
            if op[0] == "getdf" and any(tainted(st8, k) for k in st8["keymap"]):
                return                  # (a common time array is to_dataframe's own requirement; the caller has changed one)
            if exp is not None and (op[0] not in ("get", "geta", "touch") or len(exp) == 1):
                fail("a request for registered series succeeds", upto, [specs[fi]["names"][j] for fi, j in exp], res, clause="error",
                     how=who)
            elif exp is None and op[0] in ("getm", "getd", "getl", "getda", "copy", "update", "app_read") and op[1][0] == "names":
                # a request by patterns: whatever the patterns select (the database's own listing says which keys), handing those
                # series out must not fail
                try:
                    sel = db.list(names=[resolve(q, specs, paths, st8["cur"]) for q in op[1][1]])
                except Exception:
                    sel = []
                if sel and all(k in keymap for k in sel):
                    fail("a request for registered series succeeds", upto, [k.split(os.path.sep)[-1] for k in sel], res,
                         clause="error", how="by pattern" + who)

    def audit(st8, upto, how):
        """every series the database holds (other than objects the caller has changed) is what the file holds, under the name it
        is registered under now"""
        db = st8["db"]
        for k in db.register_keys:
            held = db.register.get(k)
            if held is not None and k in st8["keymap"] and not tainted(st8, k):
                check_series(upto, st8["keymap"][k], (None, held.name, np.array(held.t), np.array(held.x)), how, st8)

    def stray_audit(st8, upto, how):
        """the register lists keys the harness did not expect (a call that should have been refused was accepted, or changed the
        register): whatever the registry property says about that, every listed key that names a series of its file must still
        hand out what the file stores under that name -- read here by full key, uncached, and compared with what the generator wrote"""
        db = st8["db"]
        for k in list(db.register_keys):
            if k in st8["keymap"]:
                continue
            for fi, pth in enumerate(paths):
                pre = pth + os.path.sep
                if k.startswith(pre) and k[len(pre):] in specs[fi]["names"]:
                    j = list(specs[fi]["names"]).index(k[len(pre):])
                    try:
                        ts = db.get(name=k, store=False)
                    except Exception:       # noqa  (not retrievable: the registry property's business)
                        break
                    check_series(upto, (fi, j), (None, ts.name, np.array(ts.t), np.array(ts.x)), how, None)
                    break

    def registry_op(st8, op, res, ldd, upto, who):
        """rename / clear: the registry changes between retrievals.  The harness follows it (which series is registered under which
        name at which index); the clauses are evaluated by the retrievals that come afterwards and by the audit of what is held."""
        if chk is not None:
            chk.count("oracle:registry-op")
        if res != "done":
            return              # refused (whether that is right belongs to the registry property): nothing has changed
        if op[0] == "rename":
            exp = simple_expectation(["get", ["name", op[1]]], specs, paths, ldd, st8["reg"], st8["cur"])
            if exp is None or len(exp) != 1:
                raise ValueError("rename of something that is not one registered series by construction: %r" % (op,))
            fi, j = exp[0]
            pre = paths[fi] + os.path.sep
            st8["keymap"].pop(pre + st8["cur"][(fi, j)], None)
            st8["cur"][(fi, j)] = op[2]
            st8["keymap"][pre + op[2]] = (fi, j)
        else:
            exp = simple_expectation(["getm", ["names", op[1]]], specs, paths, ldd, st8["reg"], st8["cur"])
            if exp is None:
                raise ValueError("clear of something that is not a set of registered series by construction: %r" % (op,))
            for fi, j in exp:
                st8["reg"].remove((fi, j))
                st8["keymap"].pop(paths[fi] + os.path.sep + st8["cur"][(fi, j)], None)
        # the keys the database lists now are the ones registered by construction, in register order
        want = [paths[fi] + os.path.sep + st8["cur"][(fi, j)] for fi, j in st8["reg"]]
        have = list(st8["db"].register_keys)
        if have != want:
            # (which keys the register lists after rename / clear is the registry property's business: here it only means that the
            # harness no longer knows what is registered where -- a broken tie, not a violation of this property)
            d = dict(stream="registry", input=dict(inp or {}, first_difference_at_op=upto - 1), model=str(want)[:600], impl=str(have)[:600])
            dis.append(d)
            if chk is not None:
                chk.disagree(d["stream"], d["input"], d["model"], d["impl"])
            if verbose:
                print("register keys after", op, "\n  expected:", want, "\n  impl    :", have)
            stray_audit(st8, upto, "listed by the database after %s%s" % (op[0], who))
        audit(st8, upto, "held by the database, after %s%s" % (op[0], who))

    def refused_op(st8, op, res, upto, who):
        """a call that the database refused (it raised): the database is as it was -- every series it holds is what the file holds
        under the name it is registered under (evaluated here), and the retrievals that follow are evaluated as always"""
        if chk is not None:
            chk.count("oracle:after-refusal")
            chk.dist("refusal:%s:%s" % (op[1], res))
        want = [paths[fi] + os.path.sep + st8["cur"][(fi, j)] for fi, j in st8["reg"]]
        have = list(st8["db"].register_keys)
        if have != want or (res == "accepted" and op[1] in REFUSE_MUST):
            # (what the register lists after a refused call is the registry property's business; here it means that the harness no
            # longer knows what is registered where -- a broken tie, not a violation of this property)
            d = dict(stream="registry", input=dict(inp or {}, first_difference_at_op=upto - 1), model=str((op[1], "refused", want))[:600],
                     impl=str((op[1], res, have))[:600])
            dis.append(d)
            if chk is not None:
                chk.disagree(d["stream"], d["input"], d["model"], d["impl"])
            if verbose:
                print("register keys after", op, res, "\n  expected:", want, "\n  impl    :", have)
            stray_audit(st8, upto, "listed by the database after a call that should have been refused (%s: %s)%s" % (op[1], res, who))
            raise Abandon()
        audit(st8, upto, "held by the database, after a call that it refused (%s: %s)%s" % (op[1], res, who))

    def run_call(st8, op):
        """the call, made by the worker thread with a time limit (a call that does not return is reported; the check itself must
        never hang)"""
        moved = None
        if op[0] == "refuse" and op[1] == "file_gone":
            moved = paths[op[2]["file"]]
            os.rename(moved, moved + ".gone")               # the data file is missing while this call is made
        try:
            return Worker.run(lambda: call(st8, op, specs, paths), op[:2])
        finally:
            if moved:
                os.rename(moved + ".gone", moved)

    def hung(op, upto, who):
        # (state shared between databases -- a lock, a cache of the module -- may have been left behind by a call that an EARLIER
        # history of this process saw refused: those histories are part of the failing input)
        before = [b for b in REFUSING if b.get("ops") is not ops][-10:]
        fail("every call on a file-backed database returns (also after earlier calls were refused)", upto,
             "the call returns (within a few seconds)", "no return: %s" % (op[:2],), clause="hang", how=who, before=before)

    def after_touch(st8, op, upto, who):
        """the caller changes the series it was just handed; every OTHER series the database holds is still what the file holds"""
        ts = st8.pop("handed", None)
        if ts is None:
            return
        touch(ts, op_style(op).get("kind", "dtg2"))
        st8.setdefault("touched", []).append(ts)
        db = st8["db"]
        for k in db.register_keys:
            held = db.register.get(k)
            if held is not None and k in st8["keymap"] and not tainted(st8, k):
                check_series(upto, st8["keymap"][k], (None, held.name, np.array(held.t), np.array(held.x)),
                             "held by the database, after the caller changed ANOTHER series it was handed (%s)%s" % (
                                 op_style(op).get("kind", "dtg2"), who), st8)

    if not HANGS and any(op[0] == "refuse" for op in ops):
        REFUSING.append(dict(specs=specs, ops=ops))
    cwd = os.getcwd()
    try:
        os.chdir(os.path.dirname(os.path.dirname(paths[0])))      # relative file names are relative to this directory
        mpos = 0
        for n, op in enumerate(ops):
            if shadow is not None and n < len(shadow):
                res2 = run_call(state2, shadow[n])
                if res2 is HUNG:
                    hung(shadow[n], n + 1, " (second database on the same files)")
                    break
                oracles(state2, shadow[n], res2, loaded2, n + 1, " (second database on the same files)")
                after_touch(state2, shadow[n], n + 1, " (second database on the same files)")
            res = run_call(state, op)
            if res is HUNG:
                hung(op, n + 1, "")
                break
            db = state["db"]
            oracles(state, op, res, loaded, n + 1, "")
            changed = set(k for k in keymap if tainted(state, k))      # (before this op's own change: its outcome was taken first)
            after_touch(state, op, n + 1, "")
            cached = [k for k in db.register_keys if db.register.get(k) is not None]
            # ---- correspondence with the model
            if model is not None:
                recs = model[mpos:mpos + nrec[n]]
                mpos += nrec[n]
                mout, mcached = recs[-1]
                if op[0] == "load" and any(r[0] != "done" for r in recs[:-1]):
                    mout = [r[0] for r in recs if r[0] != "done"][0]
                same = True
                f15 = False
                if isinstance(mout, str) or isinstance(res, str):
                    same = (mout == res)
                elif len(mout) != len(res):
                    same = False
                else:
                    for (mk, mn, mt, mx), (k, nm, t, x) in zip(mout, res):
                        fi, j = keymap[mk]
                        tol = tol_of(specs[fi]["fmt"])
                        if (k is not None and k != mk) or (nm is not None and nm != mn):
                            same = False
                        elif mk in changed:
                            pass                    # the object the caller has changed: not what the model describes
                        elif not (close(t, mt, tol) and close(x, mx, tol)):
                            if specs[fi]["fmt"] == "asc" and close(t, mt[1:], tol) and close(x, mx[1:], tol):
                                f15 = True          # known finding F15, reported by the value oracle; the tie is evaluated modulo it
                            else:
                                same = False
                if mcached != cached:
                    same = False
                if not same:
                    d = dict(stream="rb.run", input=dict(inp or {}, first_difference_at_op=n),
                             model=str((mout, mcached))[:600], impl=str((res if isinstance(res, str) else
                                                                        [(k, nm, flist(t), flist(x)) for k, nm, t, x in res], cached))[:600])
                    dis.append(d)
                    if chk is not None:
                        chk.disagree(d["stream"], d["input"], d["model"], d["impl"])
                    if verbose:
                        print("model and implementation differ at op", n, op, "\n  model:", d["model"], "\n  impl :", d["impl"])
                    model = None                    # the oracles go on without the model
                if f15 and chk is not None:
                    chk.dist("asc series compared modulo F15")
    except Abandon:
        pass                                # (recorded as a broken tie: the rest of the history cannot be followed)
    finally:
        os.chdir(cwd)
    return dis, fails


def nontrivial(op, specs):
    if op[0] == "load":
        return False
    sel = op[1]
    if sel[0] == "ind" and isinstance(sel[1], list):
        return len(sel[1]) > 1 and sel[1] != sorted(set(sel[1]))
    if sel[0] == "names" and sel[1]:
        return len(sel[1]) > 1 or sel[1][0][0] != "lit" or sel[1][0][1] != "*"
    return sel[0] in ("name",)


def is_f15(f):
    """known finding F15: a series of an `.asc` file that lacks exactly its first sample and is otherwise what was stored"""
    return isinstance(f.get("input"), dict) and f["input"].get("diff") == F15 and f.get("fmt", "asc") == "asc"


def run(chk):
    chk.extra["rule"] = RULE
    chk.matchers["F15"] = is_f15
    chk.assumptions += [
        "numpy fancy indexing arr[ind,:] and np.loadtxt(usecols=ind) return the rows/columns in the order of ind (repeats allowed)",
        "pd.read_csv(usecols=ind) returns the columns sorted(set(ind)) in file order",
        "h5py / nptdms / pymatreader look a data set up by its name; byte and text decoding (struct, float32, number parsing) is "
        "exercised on real files, not modelled",
        "series names do not contain the path of their file and do not start with the path separator",
        "register indices counted from the end (Python's negative indices) are presented to the model counted from the start; "
        "other spellings of a call (positional, tuple, bare string / integer, ndarray, relative / wildcard file names, "
        "fromfile / application helpers / copy / update / iteration / to_dataframe) are presented as the load / get / getm they stand for"]
    chk.partial += ["byte/text decoding and the third-party readers are tied by correspondence on synthesised files only",
                    ".asc: every read lacks the first sample (known finding F15); the tie for .asc is evaluated modulo that shift"]
    rng = chk.rng
    drv = core.Driver()
    from .c01_gaps import run_gaps
    run_gaps(chk)               # files holding missing values (empty csv cells, nan in text / binary containers): value oracle
    from .c01_long import run_long
    run_long(chk)               # long (999 ... 70001 samples) and wide (33 ... 300 series) files of every format: value oracle
    root = tempfile.mkdtemp(prefix="qv01_")
    try:
        # ---- files
        nvar = 4 if chk.quick else 6
        specs, paths = [], []
        for v in range(nvar):
            for fmt in FORMATS:
                fi = len(specs)
                sp = gen_spec(rng, fi, fmt, k=(3 if v < 2 else None), variant=v)
                if v == 1 and fmt == "ts":
                    sp["ts_writer"] = "own"          # half of the fixed .ts files do not come from the library's own writer
                if v >= 4:
                    decorate(rng, sp, random_feats(rng, fmt))
                specs.append(sp)
                paths.append(write_file(root, sp))
                chk.dist("file:%s k=%d" % (fmt, len(sp["names"])))
        byfmt = {fmt: [i for i, sp in enumerate(specs) if sp["fmt"] == fmt] for fmt in FORMATS}
        # files in another spelling of the format (fixed feature sets; thorough: also random sets)
        feature = []
        combos = list(FEATURE_FILES)
        if not chk.quick:
            for fmt in FORMATS:
                for _ in range(4):
                    combos.append((fmt, rng.sample(FEATS[fmt], rng.randint(1, min(4, len(FEATS[fmt]))))))
        for fmt, feats in combos:
            fi = len(specs)
            sp = decorate(rng, gen_spec(rng, fi, fmt, variant=None), feats)
            specs.append(sp)
            paths.append(write_file(root, sp))
            feature.append(fi)
            byfmt[fmt].append(fi)
            for f in sp.get("feats", []):
                chk.dist("feature:%s:%s" % (fmt, f))
        # a file with the same base name as the first file of the format, in the other directory, with other contents
        twin = {}
        for fmt in FORMATS:
            fi, first = len(specs), specs[byfmt[fmt][0]]
            sp = gen_spec(rng, fi, fmt, k=len(first["names"]) if fmt in ("bin", "asc") else None, variant=None)
            sp.update(base=first["base"], dir="d1" if first["dir"] == "d0" else "d0")
            specs.append(sp)
            paths.append(write_file(root, sp))
            twin[fmt] = fi
        # ---- histories: (kind, specs, paths, ops, meta)
        hist = []
        chains = []
        for ci, c in enumerate(core.load_corpus("C01")):
            meta = dict(shadow=c["shadow"]) if c.get("shadow") else None
            if c.get("prior"):
                # a chain of sessions on files re-written at the same paths
                croot, prior = os.path.join(root, "corpus_chain%d" % ci), []
                for ses in list(c["prior"]) + [dict(specs=c["specs"], ops=c["ops"])]:
                    pths = [file_path(croot, sp) for sp in ses["specs"]]
                    chains.append(("corpus", ses["specs"], pths, ses["ops"], dict(root=croot, prior=list(prior))))
                    prior.append(dict(specs=ses["specs"], ops=ses["ops"]))
            else:
                hist.append(("corpus", c["specs"], None, c["ops"], meta))
        nh = 40 if chk.quick else 500
        for fmt in FORMATS:
            for q in range(nh):
                ids = [rng.choice(byfmt[fmt])]
                for _ in range(rng.choice([0, 0, 1, 2])):
                    o = rng.randrange(len(specs))
                    if o not in ids:
                        ids.append(o)
                sps = [specs[i] for i in ids]
                meta = None
                if q % 8 == 7:
                    # a second database of the same process works on the same files in between
                    meta = dict(shadow=gen_history(rng, sps))
                hist.append(("random", sps, [paths[i] for i in ids], gen_history(rng, sps, plain=(q % 4 == 0)), meta))
        for fmt in FORMATS:
            for i in (byfmt[fmt][:1] if chk.quick else byfmt[fmt][:nvar]):
                for q, ops in enumerate(subset_histories(specs[i], chk.quick, rng)):
                    hist.append(("subsets", [specs[i]], [paths[i]], restyle(rng, ops, 0.3) if q % 2 else ops, None))
        # every name of a file on its own, then together in reverse order (files with keyword-like / case-variant names first)
        for fmt in FORMATS:
            for i in (byfmt[fmt][2:4] if chk.quick else byfmt[fmt][:nvar]):
                hist.append(("sweep", [specs[i]], [paths[i]], sweep_history(specs[i], rng), None))
        # the caller changes one of several series read in one call; the others are what the file holds
        for fmt in FORMATS:
            for i in (byfmt[fmt][:4] if chk.quick else byfmt[fmt][:nvar]):
                for q in range(2 if chk.quick else 4):
                    ops = touch_history(specs[i], rng)
                    hist.append(("touch", [specs[i]], [paths[i]], restyle(rng, ops, 0.3) if q % 2 else ops, None))
        for i in feature:
            hist.append(("feature-touch", [specs[i]], [paths[i]], touch_history(specs[i], rng), None))
        # the files in another spelling: corner subsets (one cache state each), the sweep, every entry point
        for i in feature:
            subs = subset_histories(specs[i], True, rng)
            for q, ops in enumerate(subs[:21]):
                if q % 3 == (q // 3) % 3:
                    hist.append(("feature-subsets", [specs[i]], [paths[i]], restyle(rng, ops, 0.3), None))
            hist.append(("feature-sweep", [specs[i]], [paths[i]], restyle(rng, sweep_history(specs[i], rng), 0.3), None))
            hist.append(("feature-entry", [specs[i]], [paths[i]], entry_history(specs[i], rng), None))
        for fmt in FORMATS:
            for i in byfmt[fmt][:2]:
                hist.append(("entry", [specs[i]], [paths[i]], entry_history(specs[i], rng), None))
        # several files in one database: same format in two layouts, same base name in two directories, another format
        for fmt in FORMATS:
            feats_of = [i for i in feature if specs[i]["fmt"] == fmt]
            groups = [[byfmt[fmt][0], twin[fmt]], [feats_of[0], byfmt[fmt][1]] + feats_of[1:2],
                      [twin[fmt], byfmt[fmt][0], rng.choice(feature)]]
            for ids in groups:
                ids = list(dict.fromkeys(ids))
                sps = [specs[i] for i in ids]
                hist.append(("pair", sps, [paths[i] for i in ids], pair_history(sps, rng),
                             dict(shadow=pair_history(sps, rng)) if rng.random() < 0.5 else None))
        # the registry changes between retrievals (rename / clear): one and two files per database, all formats and spellings
        for fmt in FORMATS:
            cands = byfmt[fmt][:nvar]
            for q in range(4 if chk.quick else 16):
                ids = [cands[q % len(cands)]]
                if q % 2:
                    o = rng.choice(byfmt[rng.choice(FORMATS)][:nvar])
                    if o not in ids:
                        ids = ids + [o] if rng.random() < 0.5 else [o] + ids
                sps = [specs[i] for i in ids]
                hist.append(("registry", sps, [paths[i] for i in ids], registry_history(sps, rng, chk.quick), None))
        for i in feature:
            if len(specs[i]["names"]) > 1 or not chk.quick:
                hist.append(("feature-registry", [specs[i]], [paths[i]], registry_history([specs[i]], rng, chk.quick), None))
        # calls that the database REFUSES (every kind the entry points can reject: taken / ill-typed new names, unknown and ambiguous
        # names, indices out of range, ill-typed and conflicting arguments, processing options that are rejected after the series has
        # been read, files that are missing / unreadable / already registered / gone from disk, ...) between retrievals on the same
        # database, also after accepted renames; one and two files per database, three cache states
        for fmt in FORMATS:
            cands = byfmt[fmt][:nvar]
            for q in range(2 if chk.quick else 8):
                ids = [cands[(q + 1) % len(cands)]]
                if q % 2:
                    o = rng.choice(byfmt[rng.choice(FORMATS)][:nvar])
                    if o not in ids:
                        ids = ids + [o] if rng.random() < 0.5 else [o] + ids
                sps = [specs[i] for i in ids]
                hist.append(("refusal", sps, [paths[i] for i in ids], registry_history(sps, rng, chk.quick, refuse="all"), None))
        for n, i in enumerate(feature):
            if not chk.quick or n % 2 == chk.seed % 2:
                hist.append(("feature-refusal", [specs[i]], [paths[i]],
                             registry_history([specs[i]], rng, chk.quick, refuse="all" if n % 4 < 2 else "some"), None))
        # corpus entries bring their own file contents: write them
        for n, (kind, sps, pths, ops, meta) in enumerate(hist):
            if pths is None:
                croot = os.path.join(root, "corpus%d" % n)
                hist[n] = (kind, sps, [write_file(croot, sp) for sp in sps], ops, meta)
        hist = hist + chains
        # files that are re-written at the same path between sessions (a new database per session, same process): the files of a
        # session are written immediately before it is executed; `prior` = the earlier sessions, which are part of the input
        nsess = 2 if chk.quick else 10
        fi_next = len(specs)
        for fmt in FORMATS:
            for r in range(nsess):
                sroot = os.path.join(root, "sess_%s_%d" % (fmt, r))
                first = [gen_spec(rng, fi_next, fmt, variant=None)]
                if r % 2:
                    first.append(gen_spec(rng, fi_next + 1, rng.choice(FORMATS), variant=None))
                prior = []
                for sps, ops in session_histories(rng, first, fi_next + 2):
                    pths = [file_path(sroot, sp) for sp in sps]
                    hist.append(("session%d" % len(prior), sps, pths, ops, dict(root=sroot, prior=list(prior))))
                    prior.append(dict(specs=sps, ops=ops))
                fi_next += 6
        # (histories with rename / clear are outside the model `rb.run`: they are evaluated by the clauses of the property alone)
        enc = [None if has_registry_op(ops) else encode(sps, pths, ops) for (_, sps, pths, ops, _) in hist]
        replies = iter(drv.run([e[0] for e in enc if e is not None]))
        outs = [None if e is None else next(replies) for e in enc]
        for (kind, sps, pths, ops, meta), e, reply in zip(hist, enc, outs):
            nrec = None if e is None else e[1]
            inp = dict(specs=sps, ops=ops)
            meta = meta or {}
            if "prior" in meta:
                inp["prior"] = meta["prior"]
                assert [write_file(meta["root"], sp) for sp in sps] == pths
            if meta.get("shadow"):
                inp["shadow"] = meta["shadow"]
            chk.count("rb.run:" + kind)
            model = None
            if reply is None:
                pass
            elif not reply.startswith("ok "):
                chk.disagree("rb.run", inp, reply, "(model did not accept the request)")
            else:
                model = parse_reply(reply)
            try:
                execute(sps, pths, ops, model=model, chk=chk, inp=inp, nrec=nrec, shadow=meta.get("shadow"))
            except Exception as e:                    # never an infrastructure error: the history is a failing input
                chk.fail("every retrieval history on readable files can be evaluated (no internal error)", inp, "no exception",
                         "%s: %s" % (type(e).__name__, str(e)[:300]), clause="crash")
            if reply is None:
                for sp in sps:
                    chk.dist("registry history with " + STYLE[sp["fmt"]])
                for op in ops:
                    chk.dist("op:" + op[0])
                chk.nontriv((tuple(sp["fi"] for sp in sps), repr(ops)))
            if model is None:
                continue
            for sp in sps:
                chk.dist("history with " + STYLE[sp["fmt"]])
            mpos = 0
            for op, nr in zip(ops, nrec):
                mout = model[mpos + nr - 1][0]
                mpos += nr
                chk.dist("op:" + op[0])
                st = op_style(op)
                for key in sorted(st):
                    if st[key]:
                        chk.dist("spelling:%s=%s" % (key, st[key]))
                chk.dist("out:" + (mout if isinstance(mout, str) else "series"))
                if isinstance(mout, list) and (nontrivial(op, sps) or meta.get("prior")):
                    chk.nontriv((tuple(sp["fi"] for sp in sps), repr(ops)))
            if kind == "random" and 3 <= len(ops) <= 4 and len(chk.samples) < 4:
                chk.sample(dict(files=[(sp["fmt"], sp["names"]) for sp in sps], ops=ops,
                                model_reply=reply[:300]))
    finally:
        shutil.rmtree(root, ignore_errors=True)


def replay(rp):
    inp = rp["input"]
    if inp.get("kind") == "gaps":
        from .c01_gaps import replay_gaps
        return replay_gaps(inp)
    if inp.get("kind") == "long":
        from .c01_long import replay_long
        return replay_long(inp)
    root = tempfile.mkdtemp(prefix="qv01r_")
    try:
        specs, ops = inp["specs"], inp["ops"]
        for n, pr in enumerate(inp.get("prior") or []):
            # earlier sessions of the same process: other versions of the files at the same paths, each opened in its own database
            ppaths = [write_file(root, sp) for sp in pr["specs"]]
            _, pf = execute(pr["specs"], ppaths, pr["ops"], inp=dict(specs=pr["specs"], ops=pr["ops"]))
            print("(earlier session %d on the same paths: %d failing clause(s))" % (n, len(pf)))
        for n, pr in enumerate(inp.get("before") or []):
            # histories with refused calls that were evaluated earlier in the same process (on other databases)
            broot = os.path.join(root, "before%d" % n)
            bpaths = [write_file(broot, sp) for sp in pr["specs"]]
            _, pf = execute(pr["specs"], bpaths, pr["ops"], inp=dict(specs=pr["specs"], ops=pr["ops"]))
            print("(earlier history %d of the same process: %d failing clause(s))" % (n, len(pf)))
        paths = [write_file(root, sp) for sp in specs]
        model, nrec = None, None
        try:
            if not has_registry_op(ops):
                line, nrec = encode(specs, paths, ops)
                reply = core.Driver().run([line])[0]
                model = parse_reply(reply) if reply.startswith("ok ") else None
        except Exception as e:                     # the oracles do not need the model
            print("(model not available: %s)" % e)
        try:
            dis, fails = execute(specs, paths, ops, model=model, inp=dict(specs=specs, ops=ops), verbose=True, nrec=nrec,
                                 shadow=inp.get("shadow"))
        except Exception as e:
            print("FAILS: the history cannot be evaluated: %s: %s" % (type(e).__name__, e))
            return 1
        known = [f for f in fails if is_f15(f)]
        print("replay: %d failing clause(s) (%d of them the known .asc first-row finding), %d model disagreement(s)" % (
            len(fails), len(known), len(dis)))
        return 1 if fails else 0
    finally:
        shutil.rmtree(root, ignore_errors=True)
