"""
C19 — the GUI shows the database and the latest request, whatever the worker order.

Tie (correspondence): the *real* `qats.app.gui.Qats` window (Qt "offscreen" platform) is driven with `window.threadpool` replaced by a
queue: `start(worker)` only queues, the harness completes queued workers in any order by calling `worker.run()` (signals are delivered
synchronously).  After EVERY event of a history (user action or completion) the observable state of the window -- database keys, list
rows with tick marks, status count, queued workers with the arguments they captured, what each of the five result views shows (series
and the settings the drawn numbers belong to), the Gumbel tabs -- is written in the digest format of the Lean orchestration model
(`Qats/Model/Gui.lean`, handler `gui`) and compared with the model's digest after the same event.
The settings a view belongs to are *decoded from the drawn numbers*: for every series, every (window, filter, maxima/minima) combination
of the harness' tables is computed with the library called directly (`qats.app.funcs.calculate_*` on series read by a separate `TsDB`) and
matched against line / bar / cell data.

The specification side is the harness' OWN record of what the user did, never read back from the window: the files imported successfully
(in order), the rows of the list with the tick marks the user set (tick / untick the i-th LISTED row, select all / unselect all act on the
listed rows = rows whose text contains the filter text, a successful import lists everything unticked, a failed one changes nothing), the
processing settings and the application settings chosen in File > Settings (`set:<ok>:<normalised>:<segment length>:<bins>`, '-' = widget
not touched; the dialog's `exec_` is replaced by a script that edits the dialog's own widgets and presses OK or Cancel).  The Lean model has
no application settings: visits to the dialog are left out of the history sent to the model (its view tokens do not depend on them) and a
drop of files is sent as an import; the dialog is only opened while no display request is being processed (otherwise: finding K2).

Oracles (implementation alone), evaluated whenever the queue is empty:
  O1  rows == db.list(relative=True), status text == "<n> time series in database";
  O2  a failed import changes neither database nor rows (nor tick marks), a successful one adds exactly the keys of its files (checked at
      the completion);
  O3  each of the five views shows exactly the series the USER ticked (among the listed rows) at the most recent display request since the
      last clear, with the numbers of the settings at that request (plots: last request with a non-empty selection; table: last request):
      window, filter, maxima/minima, show-in-plot, and for spectrum / cycle histogram the segment length, normalisation and number of bins
      as the user left them in the settings dialog (accepted untouched = unchanged, cancelled = unchanged).  At the request itself the
      queued read worker must name exactly the user's selection.
      Every cell of the statistics table must be the formatted number the library returns (a row that equals no library result is reported
      cell by cell); the catalogue has series whose min / max is exactly 0.0.
      When a view shows the right series and settings as decoded through `qats.app.funcs`, it is decoded a second time against the
      library proper (`Env.direct`: TimeSeries.get / maxima / minima / psd / rfc+rebin / stats called with the window and filter, funcs
      not involved) and must give the same answer: also the peak / trough markers ('show in plot'), every statistics cell, the spectrum.
  O4  (once per run, every series x window x filter x maxima/minima of the tables) every number `calculate_trace/stats/psd/rfc` return --
      trace, peak and trough markers, spectral density, all statistics, bin positions and counts -- is the one the TimeSeries methods
      give for the processed (windowed and filtered) signal.
      The same for containers of SEVERAL series (what one display request hands to each worker), in short-before-long, long-before-short
      and random orders: every series of the container gets the numbers the library returns for that series alone.
Catalogue: f1.ts (3 series), f2.ts (2), f3.ts (1), run.ts (2) and sub/run.ts (2) -- the same file name at two depths sharing one series
name, so that list labels ('run.ts/qg') are ambiguous patterns while full keys are not; labels on screen are mapped to keys through the numbers.
The files have different lengths (1000, 1200, 700, 900, 1300 samples) and file 3 a different time step: the series of one request differ in
length (whole series and inside the windows), in both orders.

Known findings (reported through matchers): K1 overlapping display requests, K2 settings read late, K4 clear while a request is in flight
(K3 = partial import is fixed in /repo: `TsDB.update` checks all keys first; the matcher is kept and never fires on the current tree).
"""
import contextlib
import io
import itertools
import logging
import os
import shutil
import tempfile
import time

import numpy as np

from .. import core

# file id -> series-name ids; file 9 does not exist.  Files 4 and 5 have the SAME file name at two depths (run.ts, sub/run.ts) and share a
# series name (7): their list labels are 'run.ts/qg' and 'sub/run.ts/qg', only the full keys tell them apart.
# Series (2,5) has min == 0.0 and series (3,6) has max == 0.0 exactly (statistics that are exactly zero must be shown as 0, not nan).
CATALOGUE = {1: [1, 2, 3], 2: [4, 5], 3: [6], 4: [7, 8], 5: [7, 9], 6: [10, 11]}
FNAME = {1: "f1.ts", 2: "f2.ts", 3: "f3.ts", 4: "run.ts", 5: "sub/run.ts", 6: "f6.ts", 9: "f9.ts"}
# file 6: two series whose names differ only in letter case, on a NON-UNIFORM time array (dense first, then sparse: the time windows
# lie in the sparse part, where a window holds fewer stored samples than samples after resampling to the average step)
SNAME = {10: "Heave", 11: "heave"}
FID = {v: k for k, v in FNAME.items()}
CAT_TOKEN = ";".join("%d:%s" % (f, ",".join(map(str, ns))) for f, ns in sorted(CATALOGUE.items()))
MISSING = 9
# (the upper limit 70.3 of the third window lies 3e-6 BELOW a stored sample time: .ts files hold the time array in single precision,
# float32(70.3) = 70.30000305, so that sample is outside the window -- limits are closed intervals of what the user typed, nothing wider)
TWINS = [(0.0, 1_000_000_000.0), (10.0, 100.0), (20.5, 70.3)]
FILTS = [None, ("lp", 1.0), ("hp", 0.5)]
NBINS = 12
NPERSEG = 20000
# application settings (File > Settings): (length of the PSD segments, normalised PSD, number of bins of the cycle histogram).  The window
# starts with DEFAULT_CFG; the values a user types into the dialog are taken from the pools (all inside the ranges of the spin boxes)
DEFAULT_CFG = (NPERSEG, False, NBINS)
SET_NPERSEG = (256, 100)
SET_NBINS = (25, 10)
# file id -> (number of samples, time step): the files do NOT share a time array -- series of one request differ in length (in file order
# shorter-then-longer: 1,2 / 4,5 / 3,1 and longer-then-shorter: 2,3 / 5,4 ...) and in time step (file 3), also inside the time windows
GRID = {1: (1000, 0.1), 2: (1200, 0.1), 3: (700, 0.2), 4: (900, 0.1), 5: (1300, 0.1), 6: (1000, None)}
# containers of several series as one request hands them to the calculation workers: short before long, long before short, mixed time steps
CONTAINERS = [[(3, 6), (1, 1), (2, 4)], [(5, 9), (4, 8), (3, 6)], [(1, 2), (1, 3), (4, 7), (5, 7), (2, 5)]]
DISP = ("R", "Ct", "Cs", "Cp", "Cr")
VIEWS = ("tr", "sp", "wb", "cy", "tb")
RULE = ("histories over {import through the file dialog or by dropping files (new / loaded / missing / same file twice / new+loaded), clear, tick, "
        "(un)select all, list filter, display, Gumbel plot, window, filter, maxima/minima, show-in-plot, File > Settings (OK / Cancel, widgets "
        "untouched or edited: normalised spectrum, segment length, number of bins; only while no request is processed), complete i}: fixed "
        "corner histories (serial, overlapping requests, late settings, clear in flight, failed imports before a display, single-series file, "
        "hidden ticked rows, (un)select all under a filter that hides earlier rows, settings dialog) + seeded random histories generated against the "
        "live queue (random completion order, drained at the end); thorough adds the 162 canonical completion patterns of two overlapping "
        "requests (x 4 variants of what changes in between) and sampled completion permutations; non-trivial = a display request was completed; distinct by event list")


def fname(f):
    return FNAME.get(f, "f%d.ts" % f)


def sname(n):
    return SNAME.get(n) or "q" + chr(96 + n)


NAMEID = {sname(n): n for ns in CATALOGUE.values() for n in ns}


def kstr(k):
    return "?" if k is None else "%d.%d" % k


def kstrs(ks):
    return ",".join(kstr(k) for k in ks) if ks else "-"


def close(a, b):
    a, b = np.asarray(a, dtype=float), np.asarray(b, dtype=float)
    return a.shape == b.shape and bool(np.allclose(a, b, rtol=1e-9, atol=1e-12, equal_nan=True))


class Pool:
    """stand-in for QThreadPool: queues the workers; the harness runs them"""

    def __init__(self):
        self.q = []
        self.ctx = "?"

    def start(self, worker):
        fn = worker.fn.__name__
        kind = {"import_from_file": "I", "calculate_trace": "Ct", "calculate_stats": "Cs", "calculate_psd": "Cp",
                "calculate_rfc": "Cr", "calculate_gumbel_fit": "H"}.get(fn)
        if fn == "read_timeseries":
            kind = "R" if self.ctx == "dsp" else ("G" if self.ctx == "gum" else "?")
        worker._kind = kind or "?"
        self.q.append(worker)


class FakeDialog:
    """replaces QFileDialog inside qats.app.gui: no dialog is ever shown"""
    Detail = 1
    files = []

    def setWindowIcon(self, *a):
        pass

    def setViewMode(self, *a):
        pass

    def getOpenFileNames(self, *a, **k):
        return list(FakeDialog.files), ""

    def getSaveFileName(self, *a, **k):
        return "", ""


def _scripted_exec(dlg):
    """stands for the modal event loop of the settings dialog: the user edits the widgets named in the script, then accepts or cancels"""
    from qtpy.QtWidgets import QDialog
    acc, norm, nps, nb = _scripted_exec.script
    _scripted_exec.shown += 1
    if norm is not None:
        dlg.psdnormcheckbox.setChecked(bool(norm))
    if nps is not None:
        dlg.psdnpersegspinbox.setValue(int(nps))
    if nb is not None:
        dlg.rfcnbinsspinbox.setValue(int(nb))
    return QDialog.Accepted if acc else QDialog.Rejected


_scripted_exec.script = (False, None, None, None)
_scripted_exec.shown = 0


class Env:
    """temporary files, reference results of the library, the window"""

    def __init__(self):
        from qtpy.QtWidgets import QApplication
        self.app = QApplication.instance() or QApplication([])
        from qats.app import gui
        from qats import TsDB, TimeSeries
        self.gui = gui
        self.root = tempfile.mkdtemp(prefix="qv19_")
        gui.SETTINGS_FILE = os.path.join(self.root, "qats.settings")
        gui.QFileDialog = FakeDialog
        # the settings dialog is never shown: `exec_` performs the scripted edits of the user on the dialog's own widgets and presses OK / Cancel
        gui.SettingsDialog.exec_ = _scripted_exec
        gui.SettingsDialog.exec = _scripted_exec
        self.cfg = DEFAULT_CFG           # application settings the reference numbers of spectrum / cycle histogram are computed for
        rng = np.random.default_rng(20190919)
        with contextlib.redirect_stdout(io.StringIO()):
            for f, names in CATALOGUE.items():
                db = TsDB()
                if GRID[f][1] is None:
                    t = np.concatenate([np.arange(400) * 0.05, 20.0 + np.arange(GRID[f][0] - 400) * 0.2])
                else:
                    t = np.arange(GRID[f][0]) * GRID[f][1]
                for n in names:
                    om, ph, am = rng.uniform(1.6, 4.4, 24), rng.uniform(0, 2 * np.pi, 24), rng.uniform(0.2, 1.0, 24)
                    x = (am[:, None] * np.sin(om[:, None] * t[None, :] + ph[:, None])).sum(axis=0) * (0.5 + 0.1 * n) + \
                        0.15 * rng.standard_normal(t.size) + 0.3 * n
                    x = x.astype(np.float32)          # .ts files hold single precision: the stored values are exactly these
                    if (f, n) == (2, 5):
                        x = x - x.min()               # min == 0.0 exactly (one sample)
                    elif (f, n) == (3, 6):
                        x = x - x.max()               # max == 0.0 exactly
                    db.add(TimeSeries(sname(n), t, x.astype(float)))
                os.makedirs(os.path.dirname(os.path.join(self.root, fname(f))), exist_ok=True)
                db.export(os.path.join(self.root, fname(f)), names="*")
        self.allkeys = [(f, n) for f, ns in sorted(CATALOGUE.items()) for n in ns]
        self.ref = {}
        for f in CATALOGUE:
            r = TsDB.fromfile(self.path(f))
            for n in CATALOGUE[f]:
                full = os.path.join(self.path(f), sname(n))
                self.ref[(f, n)] = r.getm(names=[full], fullkey=True)[full]
        self.cache = {}
        self.win = None
        self.pool = None
        self.windows = 0
        self.always_fresh = False

    def path(self, f):
        return os.path.join(self.root, fname(f))

    # ---- reference numbers -----------------------------------------------------------------------------------------------------------
    def _derive_stats(self, r, mn):
        """what the table and the peak-distribution view draw from a statistics dictionary (formulas of the views, independent code)"""
        r = dict(r)
        r["sample"] = np.array(r["sample"], dtype=float)
        r["cells"] = [("%12.5g" % r.get(k, np.nan)).strip() for k in self.gui.STATS_ORDER[1:]]
        x = np.sort(r["sample"] * (-1.0 if mn else 1.0))
        p = np.array([0.2, 0.5, 0.7, 0.8, 0.9, 0.95, 0.99, 0.999, 0.9999])
        with np.errstate(all="ignore"):
            mask = x >= r["wloc"]
            r["wb_x"] = np.log(x[mask] - r["wloc"])
            r["wb_y"] = np.log(np.log(1. / (1. - (np.arange(x.size) + 1.) / (x.size + 1.))))[mask]
            r["wb_q"] = np.log(r["wscale"] * (-np.log(1. - p)) ** (1. / r["wshape"]))
        r["wb_p"] = np.log(np.log(1. / (1. - p)))
        return r

    def _cfgkey(self, kind):
        """the application settings a kind of result depends on"""
        return (self.cfg[0], self.cfg[1]) if kind == "psd" else ((self.cfg[2],) if kind == "rfc" else ())

    def lib(self, kind, key, tw, fl, mn=False):
        """results of qats.app.funcs.calculate_* (what the workers compute) for one series of the catalogue"""
        nps, norm, nb = self.cfg
        ck = (kind, key, tw, fl, mn) + self._cfgkey(kind)
        if ck not in self.cache:
            from qats.app import funcs
            c = {"x": self.ref[key]}
            twin, fargs = TWINS[tw], FILTS[fl]
            if kind == "trace":
                r = funcs.calculate_trace(c, twin, fargs)["x"]
            elif kind == "psd":
                r = funcs.calculate_psd(c, twin, fargs, nps, norm)["x"]
            elif kind == "rfc":
                r = funcs.calculate_rfc(c, twin, fargs, nb)["x"]
            else:
                r = self._derive_stats(funcs.calculate_stats(c, twin, fargs, minima=mn)["x"], mn)
            self.cache[ck] = r
        return self.cache[ck]

    def direct(self, kind, key, tw, fl, mn=False):
        """the same numbers from the library proper: TimeSeries methods called with the window and filter (qats.app.funcs not involved);
        same layout as `lib`"""
        nps, norm, nb = self.cfg
        ck = ("direct", kind, key, tw, fl, mn) + self._cfgkey(kind)
        if ck not in self.cache:
            from qats.fatigue.rainflow import rebin
            ts = self.ref[key]
            kw = dict(twin=TWINS[tw], filterargs=FILTS[fl])
            if kind == "trace":
                t, x = ts.get(**kw)
                xmax, tmax = ts.maxima(rettime=True, **kw)
                xmin, tmin = ts.minima(rettime=True, **kw)
                r = dict(t=t, x=x, tmin=tmin, xmin=xmin, tmax=tmax, xmax=xmax)
            elif kind == "psd":
                # documented choices of the spectrum view: resampled to the average step, 10 % taper, one segment of at most NPERSEG samples
                n = ts.get(twin=TWINS[tw], resample=ts.dt)[0].size
                r = tuple(ts.psd(nperseg=min(nps, n), normalize=bool(norm), resample=ts.dt, taperfrac=0.1, **kw))
            elif kind == "rfc":
                cyc = rebin(ts.rfc(**kw), binby="range", n=nb)
                r = (tuple(c[0] for c in cyc), tuple(c[2] for c in cyc))
            else:
                r = self._derive_stats(ts.stats(statsdur=10800., quantiles=(0.37, 0.57, 0.9), is_minima=mn, include_sample=True, **kw), mn)
            self.cache[ck] = r
        return self.cache[ck]

    def selfcheck(self, chk):
        """different settings give different numbers (otherwise the views could not be decoded); O4: funcs honour their arguments"""
        from qats.fatigue.rainflow import rebin
        nfail0, indistinct = len(chk.failing), []
        self.cfg = DEFAULT_CFG
        for key in self.allkeys:
            ts = self.ref[key]
            seen = {}
            for tw, fl in itertools.product(range(len(TWINS)), range(len(FILTS))):
                tr, ps, rf = self.lib("trace", key, tw, fl), self.lib("psd", key, tw, fl), self.lib("rfc", key, tw, fl)
                for mn in (False, True):
                    st = self.lib("stats", key, tw, fl, mn)
                    if not (np.all(np.isfinite(st["wb_x"])) and np.all(np.isfinite(st["wb_q"])) and st["wb_x"].size > 3):
                        indistinct.append("Weibull paper values not finite for %s" % (key,))
                    sig = tuple(st["cells"])
                    if sig in seen.setdefault("stats", {}):
                        indistinct.append("statistics do not distinguish settings %s" % (key,))
                    seen["stats"][sig] = 1
                    chk.count("funcs-contract")
                    kw = dict(twin=TWINS[tw], filterargs=FILTS[fl])
                    _, x = ts.get(**kw)
                    for nm, v in (("min", x.min()), ("max", x.max()), ("mean", x.mean()), ("std", np.std(x, ddof=1))):
                        if not close(st[nm], v):
                            chk.fail("O4 calculate_stats honours window and filter (%s of the processed signal)" % nm,
                                     dict(kind="funcs", key=kstr(key), twin=tw, filt=fl, minima=mn), float(v), float(st[nm]))
                    mx = ts.minima(**kw) if mn else ts.maxima(**kw)
                    if not close(np.sort(st["sample"]), np.sort(mx)):
                        chk.fail("O4 calculate_stats fits the maxima (minima when requested) of the processed signal",
                                 dict(kind="funcs", key=kstr(key), twin=tw, filt=fl, minima=mn), "sample == ts.%s()" % ("minima" if mn else "maxima"), "different sample")
                    # every number of the statistics dictionary (the table shows skew, kurt, tz, the fitted parameters and the quantiles too)
                    dst = self.direct("stats", key, tw, fl, mn)
                    inp = dict(kind="funcs", key=kstr(key), twin=tw, filt=fl, minima=mn)
                    nums = [k for k in dst if k not in ("sample", "cells", "is_minima") and not k.startswith("wb_")]
                    bad = [k for k in nums if k not in st or not close(st[k], dst[k])]
                    if bad or set(k for k in st if not k.startswith("wb_")) != set(k for k in dst if not k.startswith("wb_")):
                        chk.fail("O4 calculate_stats returns the statistics TimeSeries.stats gives for the window, filter and maxima/minima choice "
                                 "(3 h extremes, quantiles 0.37 / 0.57 / 0.9)", inp, {k: float(dst[k]) for k in bad} or sorted(dst),
                                 {k: (float(st[k]) if k in st else None) for k in bad} or sorted(st))
                t, x = ts.get(twin=TWINS[tw], filterargs=FILTS[fl])
                if not (close(tr["t"], t) and close(tr["x"], x)):
                    chk.fail("O4 calculate_trace returns the windowed and filtered signal", dict(kind="funcs", key=kstr(key), twin=tw, filt=fl),
                             "ts.get(twin, filterargs)", "different arrays")
                # the peaks and troughs drawn with 'show in plot' are those of the SAME processed signal
                dtr = self.direct("trace", key, tw, fl)
                for what, tk, xk in (("maxima", "tmax", "xmax"), ("minima", "tmin", "xmin")):
                    chk.count("funcs-contract")
                    if not (close(tr[tk], dtr[tk]) and close(tr[xk], dtr[xk])):
                        off = float(np.max(np.abs(np.asarray(tr[xk], dtype=float) - np.interp(np.asarray(tr[tk], dtype=float), t, x)))) \
                            if (np.asarray(tr[tk]).size and np.asarray(tr[tk]).shape == np.asarray(tr[xk]).shape) else float("nan")
                        chk.fail("O4 calculate_trace returns the %s of the windowed and filtered signal (TimeSeries.%s(twin, filterargs, rettime=True)): "
                                 "the markers lie on the drawn trace" % (what, what), dict(kind="funcs", key=kstr(key), twin=tw, filt=fl),
                                 "%d %s, all on the trace" % (np.asarray(dtr[tk]).size, what),
                                 "%d %s, up to %.3g off the trace" % (np.asarray(tr[tk]).size, what, off))
                dps = self.direct("psd", key, tw, fl)
                chk.count("funcs-contract")
                if not (len(ps) == 2 and close(ps[0], dps[0]) and close(ps[1], dps[1])):
                    chk.fail("O4 calculate_psd returns the spectral density of the windowed and filtered signal (TimeSeries.psd(twin, filterargs; "
                             "resampled to dt, 10 % taper, nperseg = min(setting, length)))", dict(kind="funcs", key=kstr(key), twin=tw, filt=fl),
                             "%d frequencies, sum of densities %.9g" % (np.size(dps[0]), float(np.sum(dps[1]))),
                             "%d frequencies, sum of densities %.9g" % (np.size(ps[0]), float(np.sum(ps[1]))))
                cyc = ts.rfc(twin=TWINS[tw], filterargs=FILTS[fl])
                if len(rf[0]) != NBINS or not close(sum(rf[1]), sum(c[2] for c in cyc)) or \
                        not close(rf[1], [c[2] for c in rebin(cyc, binby="range", n=NBINS)]):
                    chk.fail("O4 calculate_rfc bins the cycles of the processed signal into the requested number of bins",
                             dict(kind="funcs", key=kstr(key), twin=tw, filt=fl), "%d bins, total count %g" % (NBINS, sum(c[2] for c in cyc)),
                             "%d bins, total %g" % (len(rf[0]), sum(rf[1])))
                elif not close(rf[0], self.direct("rfc", key, tw, fl)[0]):
                    chk.fail("O4 calculate_rfc places the bins at the ranges rebin(cycles, binby='range') gives",
                             dict(kind="funcs", key=kstr(key), twin=tw, filt=fl), [float(v) for v in self.direct("rfc", key, tw, fl)[0]], [float(v) for v in rf[0]])
                for nm, sig in (("trace", (tr["x"].size, float(tr["x"].sum()))), ("psd", (ps[1].size, float(np.sum(ps[1])))),
                                ("rfc", tuple(np.round(rf[1], 9)) + tuple(np.round(rf[0], 9)))):
                    if sig in seen.setdefault(nm, {}):
                        indistinct.append("%s does not distinguish settings %s" % (nm, key))
                    seen[nm][sig] = 1
        # one request = SEVERAL series in one container: each series gets its own numbers, whatever stands before it in the container
        for keys in CONTAINERS:
            for tw, fl in itertools.product(range(len(TWINS)), range(len(FILTS))):
                self.container_check(chk, keys, tw, fl, bool((tw + fl) % 2))
        for _ in range(4 if chk.quick else 30):
            keys = chk.rng.sample(self.allkeys, chk.rng.randint(2, 4))
            self.container_check(chk, keys, chk.rng.randrange(len(TWINS)), chk.rng.randrange(len(FILTS)), chk.rng.random() < 0.5)
        # ... and for application settings other than the initial ones (what the user may choose in File > Settings)
        for i, cfg in enumerate([(SET_NPERSEG[0], True, SET_NBINS[0]), (SET_NPERSEG[1], False, SET_NBINS[1]), (NPERSEG, True, NBINS)]):
            self.container_check(chk, CONTAINERS[i % len(CONTAINERS)], i % len(TWINS), (i + 1) % len(FILTS), bool(i % 2), cfg=cfg)
        for _ in range(0 if chk.quick else 12):
            keys = chk.rng.sample(self.allkeys, chk.rng.randint(2, 4))
            cfg = (chk.rng.choice(SET_NPERSEG + (NPERSEG,)), chk.rng.random() < 0.5, chk.rng.choice(SET_NBINS + (NBINS,)))
            self.container_check(chk, keys, chk.rng.randrange(len(TWINS)), chk.rng.randrange(len(FILTS)), chk.rng.random() < 0.5, cfg=cfg)
        if indistinct and len(chk.failing) == nfail0:
            raise core.InfraError("C19 reference data: " + "; ".join(indistinct[:3]))

    def container_check(self, chk, keys, tw, fl, mn, cfg=DEFAULT_CFG):
        """O4 for a container of several series (what one display request hands to each calculation worker): for every series the numbers
        are those the library proper returns for THAT series with the window / filter / maxima-minima choice and the application settings
        `cfg` (segment length, normalised spectrum, number of bins).  Returns the failures."""
        from qats.app import funcs
        keys = [tuple(k) for k in keys]
        names = [kstr(k) for k in keys]
        inp = dict(kind="funcs", keys=names, twin=tw, filt=fl, minima=bool(mn))
        if tuple(cfg) != DEFAULT_CFG:
            inp["cfg"] = list(cfg)
        twin, fargs = TWINS[tw], FILTS[fl]
        found = []
        saved, self.cfg = self.cfg, (int(cfg[0]), bool(cfg[1]), int(cfg[2]))
        try:
            self._container_check(chk, keys, names, inp, tw, fl, mn, twin, fargs, found)
        finally:
            self.cfg = saved
        return found

    def _container_check(self, chk, keys, names, inp, tw, fl, mn, twin, fargs, found):
        from qats.app import funcs
        nps, norm, nb = self.cfg

        def bad(what, name, exp, obs):
            found.append((what, name))
            chk.fail("O4 %s called with a container of several series (one display request) returns for every series of the container "
                     "the numbers the library gives for that series and the settings of the request" % what, inp, exp, obs, series=name)
        calls = (("calculate_trace", lambda c: funcs.calculate_trace(c, twin, fargs)),
                 ("calculate_psd", lambda c: funcs.calculate_psd(c, twin, fargs, nps, norm)),
                 ("calculate_rfc", lambda c: funcs.calculate_rfc(c, twin, fargs, nb)),
                 ("calculate_stats", lambda c: funcs.calculate_stats(c, twin, fargs, minima=bool(mn))))
        for what, call in calls:
            chk.count("funcs-container")
            c = {nm: self.ref[k] for nm, k in zip(names, keys)}
            try:
                out = call(c)
            except Exception as e:      # noqa
                bad(what, "-", "a result per series", "%s: %s" % (type(e).__name__, e))
                continue
            if list(out) != names:
                bad(what, "-", names, list(out))
                continue
            for nm, k in zip(names, keys):
                r = out[nm]
                if what == "calculate_trace":
                    d = self.direct("trace", k, tw, fl)
                    diff = [q for q in ("t", "x", "tmin", "xmin", "tmax", "xmax") if not close(r[q], d[q])]
                    if diff:
                        bad(what, nm, {q: int(np.size(d[q])) for q in diff}, {q: int(np.size(r[q])) for q in diff})
                elif what == "calculate_psd":
                    d = self.direct("psd", k, tw, fl)
                    if not (len(r) == 2 and close(r[0], d[0]) and close(r[1], d[1])):
                        bad(what, nm, "%d frequencies (df=%.6g Hz), sum of densities %.9g" % (np.size(d[0]), d[0][1] - d[0][0], float(np.sum(d[1]))),
                            "%d frequencies (df=%.6g Hz), sum of densities %.9g" % (np.size(r[0]), r[0][1] - r[0][0], float(np.sum(r[1]))))
                elif what == "calculate_rfc":
                    d = self.direct("rfc", k, tw, fl)
                    if not (len(r) == 2 and close(r[0], d[0]) and close(r[1], d[1])):
                        bad(what, nm, "%d bins, total count %g" % (len(d[0]), sum(d[1])), "%d bins, total count %g" % (len(r[0]), sum(r[1])))
                else:
                    d = self.direct("stats", k, tw, fl, bool(mn))
                    nums = [q for q in d if q not in ("sample", "cells", "is_minima") and not q.startswith("wb_")]
                    diff = [q for q in nums if q not in r or not close(r[q], d[q])]
                    if diff or not close(np.sort(np.asarray(r.get("sample", []), dtype=float)), np.sort(d["sample"])):
                        bad(what, nm, {q: float(d[q]) for q in diff} or "sample of TimeSeries.stats", {q: (float(r[q]) if q in r else None) for q in diff} or "different sample")

    # ---- window --------------------------------------------------------------------------------------------------------------------
    def new_window(self):
        self.drop_window()
        w = self.gui.Qats()
        self.windows += 1
        self.pool = Pool()
        w.threadpool = self.pool
        w.settings.clear()              # (the settings file of the temporary directory does not exist: nothing was loaded)
        w.settings["rfc_nbins"] = NBINS
        for c in (w.history_canvas, w.spectrum_canvas, w.weibull_canvas, w.cycles_canvas):
            c.draw = lambda: None           # pixels are not observed
        self.win = w
        return w

    def drop_window(self):
        if self.win is not None:
            from qtpy.QtCore import QCoreApplication, QEvent
            logging.getLogger().removeHandler(self.win.logger)
            self.win.deleteLater()
            self.win = None
            QCoreApplication.sendPostedEvents(None, QEvent.Type.DeferredDelete)

    def reset_window(self):
        """bring a used window back to the state of a new one (soundness of re-use is checked by `reuse_check`)"""
        w = self.win
        self.pool.q.clear()
        self.pool.ctx = "?"
        if w.db.n or w.db_source_model.rowCount() or w.stats_table.rowCount() or any(
                ax.get_lines() or ax.containers for ax in (w.history_axes, w.spectrum_axes, w.weibull_axes, w.cycles_axes)):
            w.on_clear()                # (a window that is empty already is not cleared again: clearing four axes is the expensive part)
        w.db_view_filter_pattern.setText("")
        w.settings.clear()
        w.settings["rfc_nbins"] = NBINS
        self.set_ui(0, 0, False, False)
        while w.tabs.count() > 5:
            w.tabs.close_tab(w.tabs.count() - 1)
        w.logger.clear()

    def set_ui(self, tw=None, fl=None, mn=None, sm=None):
        w = self.win
        if tw is not None:
            w.from_time.setValue(TWINS[tw][0])
            w.to_time.setValue(TWINS[tw][1])
        if fl is not None:
            if FILTS[fl] is None:
                w.no_filter.setChecked(True)
            elif FILTS[fl][0] == "lp":
                w.lowpass.setChecked(True)
                w.lowpass_f.setValue(FILTS[fl][1])
            else:
                w.hipass.setChecked(True)
                w.hipass_f.setValue(FILTS[fl][1])
        if mn is not None:
            (w.minima if mn else w.maxima).setChecked(True)
        if sm is not None:
            w.show_minmax.setChecked(bool(sm))

    def close(self):
        self.drop_window()
        shutil.rmtree(self.root, ignore_errors=True)

    # ---- mapping of what is on screen to keys ---------------------------------------------------------------------------------------
    def file_of_path(self, p):
        return FID.get(os.path.relpath(p, self.root).replace(os.sep, "/"))

    def key_of_path(self, p):
        parent, nm = os.path.split(p)
        f = self.file_of_path(parent) if os.path.isabs(parent) else None
        return (f, NAMEID[nm]) if (f in CATALOGUE and NAMEID.get(nm) in CATALOGUE[f]) else None

    def key_of_ts(self, ts):
        f = self.file_of_path(ts.parent) if getattr(ts, "parent", None) else None
        return (f, NAMEID[ts.name]) if (f in CATALOGUE and NAMEID.get(ts.name) in CATALOGUE[f]) else None

    def cands_of_label(self, lab):
        """keys a list / legend / table label may stand for ('qg' alone is ambiguous: files 4 and 5)"""
        parts = str(lab).split("/")
        n = NAMEID.get(parts[-1])
        if n is None:
            return []
        if len(parts) > 1:
            f = FID.get("/".join(parts[:-1]))
            return [(f, n)] if f in CATALOGUE and n in CATALOGUE[f] else []
        return [(f, n) for f in sorted(CATALOGUE) if n in CATALOGUE[f]]

    def resolve(self, lab, match):
        """(key, settings that explain the drawn numbers): among the keys the label may stand for, the one whose numbers match"""
        ks = self.cands_of_label(lab)
        hits = [(k, m) for k in ks for m in [match(k)] if m]
        if len(hits) == 1:
            return hits[0]
        return (ks[0] if len(ks) == 1 else None), []

    def ts_tok(self, container):
        ks = [self.key_of_ts(ts) for ts in container.values()]
        return ",".join(kstr(k) for k in ks) if ks else "-"


# ------------------------------------------------------------------------------------------------------------------------------------
# observation of the window in the digest format of the model
# ------------------------------------------------------------------------------------------------------------------------------------
def _idx(table, v):
    for i, x in enumerate(table):
        if x == v or (isinstance(x, tuple) and isinstance(v, (tuple, list)) and tuple(v) == x):
            return str(i)
    return "?"


def obs_pending_one(env, wk):
    k = wk._kind
    if k == "I":
        ids = []
        for p in wk.args[0]:
            f = env.file_of_path(p)
            ids.append("?" if f is None else str(f))
        return "I" + ",".join(ids)
    if k in ("R", "G"):
        ks = [env.key_of_path(p) for p in wk.args[1]]
        return k + (",".join("?" if x is None else kstr(x) for x in ks) if ks else "-")
    if k in ("Ct", "Cs", "Cp", "Cr"):
        mn = bool(wk.kwargs.get("minima", False))
        return "%s:%s:%s:%s:%d" % (k, env.ts_tok(wk.args[0]), _idx(TWINS, wk.args[1]), _idx(FILTS, wk.args[2]), mn)
    if k == "H":
        return "H%s:%s:%s" % (env.ts_tok(wk.args[0]), _idx(TWINS, wk.args[1]), _idx(FILTS, wk.args[2]))
    return "?"


def obs_pending(env):
    out = [obs_pending_one(env, wk) for wk in env.pool.q]
    return ";".join(out) if out else "-"


def _settle(cands):
    """intersection of the per-series candidate settings -> 'tw:fl:mode' or '?'"""
    if not cands:
        return "?"
    s = set(cands[0])
    for c in cands[1:]:
        s &= set(c)
    return "%d:%d:%d" % sorted(s)[0] if len(s) == 1 else "?"


def _groups(lines):
    """[(label, main line, companion line or None)] for 'labelled line followed by an optional unlabelled one'"""
    gs, bad = [], False
    for l in lines:
        lab = str(l.get_label())
        if not lab.startswith("_"):
            gs.append([lab, l, None])
        elif gs and gs[-1][2] is None:
            gs[-1][2] = l
        else:
            bad = True
    return gs, bad


def _ktok(keys):
    return ",".join(kstr(k) for k in keys) if keys else "-"


def obs_trace(env, src=None):
    lib = src or env.lib
    gs, bad = _groups(env.win.history_axes.get_lines())
    if not gs and not bad:
        return "-"
    keys, cands = [], []
    for lab, main, comp in gs:
        def match(key):
            c = []
            for tw, fl in itertools.product(range(len(TWINS)), range(len(FILTS))):
                r = lib("trace", key, tw, fl)
                if close(main.get_xdata(), r["t"]) and close(main.get_ydata(), r["x"]):
                    if comp is None:
                        c.append((tw, fl, 0))
                    elif close(comp.get_xdata(), r["tmax"]) and close(comp.get_ydata(), r["xmax"]):
                        c.append((tw, fl, 1))
                    elif close(comp.get_xdata(), r["tmin"]) and close(comp.get_ydata(), r["xmin"]):
                        c.append((tw, fl, 2))
            return c
        k, c = env.resolve(lab, match)
        keys.append(k)
        cands.append(c)
    return _ktok(keys) + ":" + ("?" if bad else _settle(cands))


def obs_spectrum(env, src=None):
    lib = src or env.lib
    gs, bad = _groups(env.win.spectrum_axes.get_lines())
    if not gs and not bad:
        return "-"
    keys, cands = [], []
    for lab, main, comp in gs:
        def match(key):
            c = []
            if comp is None:
                for tw, fl in itertools.product(range(len(TWINS)), range(len(FILTS))):
                    f, sp = lib("psd", key, tw, fl)
                    if close(main.get_xdata(), f) and close(main.get_ydata(), sp):
                        c.append((tw, fl, 0))
            return c
        k, c = env.resolve(lab, match)
        keys.append(k)
        cands.append(c)
    return _ktok(keys) + ":" + ("?" if bad else _settle(cands))


def obs_weibull(env, src=None):
    lib = src or env.lib
    gs, bad = _groups(env.win.weibull_axes.get_lines())
    if not gs and not bad:
        return "-"
    keys, cands = [], []
    for lab, main, comp in gs:
        def match(key):
            c = []
            if comp is not None:
                for tw, fl, mn in itertools.product(range(len(TWINS)), range(len(FILTS)), (False, True)):
                    r = lib("stats", key, tw, fl, mn)
                    if close(main.get_xdata(), r["wb_x"]) and close(main.get_ydata(), r["wb_y"]) and \
                            close(comp.get_xdata(), r["wb_q"]) and close(comp.get_ydata(), r["wb_p"]):
                        c.append((tw, fl, int(mn)))
            return c
        k, c = env.resolve(lab, match)
        keys.append(k)
        cands.append(c)
    return _ktok(keys) + ":" + ("?" if bad else _settle(cands))


def obs_cycles(env, src=None):
    lib = src or env.lib
    ax = env.win.cycles_axes
    cs = [c for c in ax.containers if hasattr(c, "patches")]
    if not cs and not ax.get_lines():
        return "-"
    keys, cands = [], []
    for bc in cs:
        h = [p.get_height() for p in bc.patches]
        x = [p.get_x() + 0.5 * p.get_width() for p in bc.patches]

        def match(key):
            c = []
            for tw, fl in itertools.product(range(len(TWINS)), range(len(FILTS))):
                r, n = lib("rfc", key, tw, fl)
                if close(h, n) and close(x, r):
                    c.append((tw, fl, 0))
            return c
        k, c = env.resolve(str(bc.get_label()), match)
        keys.append(k)
        cands.append(c)
    return _ktok(keys) + ":" + ("?" if ax.get_lines() else _settle(cands))


def table_rows(env):
    """[(label, [cell texts])] of the rows of the statistics table that hold a name"""
    tb = env.win.stats_table
    ncol = len(env.gui.STATS_ORDER)
    out = []
    for r in range(tb.rowCount()):
        it = tb.item(r, 0)
        if it is not None:
            out.append((it.text(), [(tb.item(r, c).text().strip() if tb.item(r, c) is not None else None) for c in range(1, ncol)]))
    return out


def obs_table(env, src=None):
    lib = src or env.lib
    rows = []
    for lab, cells in table_rows(env):
        def match(key):
            return [(tw, fl, int(mn)) for tw, fl, mn in itertools.product(range(len(TWINS)), range(len(FILTS)), (False, True))
                    if lib("stats", key, tw, fl, mn)["cells"] == cells]
        k, m = env.resolve(lab, match)
        rows.append(kstr(k) + ":" + ("%d:%d:%d" % m[0] if len(m) == 1 else "?"))
    return ",".join(rows) if rows else "-"


def cell_differences(env, lab, cells):
    """for a table row that equals no library result: the closest (key, settings) and the cells that differ from it"""
    best = None
    for key in env.cands_of_label(lab):
        for tw, fl, mn in itertools.product(range(len(TWINS)), range(len(FILTS)), (False, True)):
            ref = env.lib("stats", key, tw, fl, mn)["cells"]
            diff = [(nm, e, o) for nm, e, o in zip(env.gui.STATS_ORDER[1:], ref, cells) if e != o]
            if best is None or len(diff) < len(best[1]):
                best = ((key, tw, fl, int(mn)), diff)
    return best


def obs_tabs(env):
    from matplotlib.backends.backend_qt5agg import FigureCanvasQTAgg
    from qats.stats.gumbel import pwm as gumbel_pwm
    w = env.win
    out = []
    for i in range(5, w.tabs.count()):
        tok = "?"
        cv = w.tabs.widget(i).findChildren(FigureCanvasQTAgg)
        if len(cv) == 1 and cv[0].figure.axes:
            ls = {str(l.get_label()): l for l in cv[0].figure.axes[0].get_lines()}
            if set(ls) == {"Data", "Fitted"}:
                sample = np.asarray(ls["Data"].get_xdata(), dtype=float)
                m = []
                for tw, fl in itertools.product(range(len(TWINS)), range(len(FILTS))):
                    mx = {k: float(np.max(env.lib("trace", k, tw, fl)["x"])) for k in env.allkeys}
                    ks = [k for k in env.allkeys if np.any(np.isclose(sample, mx[k], rtol=1e-9, atol=1e-12))]
                    if len(ks) == sample.size and close(np.sort([mx[k] for k in ks]), sample):
                        loc, scale = gumbel_pwm(np.sort(np.array([mx[k] for k in ks])))
                        if close(ls["Fitted"].get_ydata(), (sample - loc) / scale):
                            m.append((ks, tw, fl))
                if m:      # the maximum may lie inside several windows: all settings that explain the tab, separated by '/'
                    tok = "/".join("%s:%d:%d:0" % (kstrs(sorted(ks)), tw, fl) for ks, tw, fl in m)
        out.append(tok)
    return ";".join(out) if out else "-"


def obs_rows(env):
    from qtpy.QtCore import Qt
    m = env.win.db_source_model
    out = []
    for i in range(m.rowCount()):
        it = m.item(i)
        txt = it.text()
        parts = txt.split("/")
        n = NAMEID.get(parts[-1])
        f = FID.get("/".join(parts[:-1])) if len(parts) > 1 else None
        out.append("%s.%s%s" % ("-" if len(parts) == 1 else ("?" if f is None else f), "?" if n is None else n,
                                "+" if it.checkState() != Qt.Unchecked else "-"))
    return ",".join(out) if out else "-"


def obs_status(env):
    txt = env.win.db_status.text()
    head = txt.split(" ")[0]
    return head if (head.isdigit() and txt == "%s time series in database" % head) else "?"


def obs_db(env):
    ks = [env.key_of_path(p) for p in env.win.db.register_keys]
    return ",".join("?" if k is None else kstr(k) for k in ks) if ks else "-"


OBSERVERS = dict(tr=obs_trace, sp=obs_spectrum, wb=obs_weibull, cy=obs_cycles, tb=obs_table)


def observe(env, cfgs=None):
    """`cfgs`: application settings the spectrum and the cycle histogram may have been computed for (the first one is tried first and is
    `env.cfg` afterwards); default: `env.cfg` alone"""
    d = dict(db=obs_db(env), rows=obs_rows(env), st=obs_status(env), pend=obs_pending(env), tr=obs_trace(env),
             wb=obs_weibull(env), tb=obs_table(env), tabs=obs_tabs(env))
    cfgs = list(cfgs or [env.cfg])
    for v, f in (("sp", obs_spectrum), ("cy", obs_cycles)):
        for cfg in cfgs:
            env.cfg = cfg
            d[v] = f(env)
            if "?" not in d[v]:
                break
    env.cfg = cfgs[0]
    return d


def parse_digest(tok):
    d = dict(p.split("=", 1) for p in tok.split("|"))
    if d.get("tabs", "-") != "-":       # the Gumbel sample is sorted: series of a tab are a set
        tabs = []
        for t in d["tabs"].split(";"):
            ks, rest = t.split(":", 1)
            tabs.append(",".join(sorted(ks.split(","), key=lambda s: tuple(map(int, s.split(".")))) if ks != "-" else ["-"]) + ":" + rest)
        d["tabs"] = ";".join(tabs)
    return d


# ------------------------------------------------------------------------------------------------------------------------------------
# the specification, tracked from what the user sees and does
# ------------------------------------------------------------------------------------------------------------------------------------
def req_tok(r):
    if r is None:
        return "-"
    sel, ui = r
    return "%s:%d:%d:%d:%d" % (kstrs(sel), ui[0], ui[1], ui[2], ui[3])


def spec_views(rp, rt):
    out = dict(tr="-", sp="-", wb="-", cy="-", tb="-")
    if rp is not None and rp[0]:
        sel, (tw, fl, mn, sm) = rp
        out["tr"] = "%s:%d:%d:%d" % (kstrs(sel), tw, fl, (2 if mn else 1) if sm else 0)
        out["sp"] = out["cy"] = "%s:%d:%d:0" % (kstrs(sel), tw, fl)
        out["wb"] = "%s:%d:%d:%d" % (kstrs(sel), tw, fl, int(mn))
    if rt is not None and rt[0]:
        sel, (tw, fl, mn, sm) = rt
        out["tb"] = ",".join("%s:%d:%d:%d" % (kstr(k), tw, fl, int(mn)) for k in sel)
    return out


# ------------------------------------------------------------------------------------------------------------------------------------
# running one history on the window
# ------------------------------------------------------------------------------------------------------------------------------------
SETTINGS_LOG = []      # (settings before, OK?, edits (norm, nperseg, nbins), settings after) of every settings dialog of the run


class Runner:
    def __init__(self, env, chk=None, fresh=False):
        self.env, self.chk = env, chk
        if fresh or env.win is None or env.always_fresh:
            env.new_window()
        else:
            env.reset_window()
            o = observe(env)
            if any(o[k] != "-" for k in o if k != "st") or o["st"] != "0":
                env.new_window()         # (a defective on_clear is found by the oracles on the histories, not here)
        self.ui = [0, 0, 0, 0]
        self.rp = self.rt = None
        self.events, self.digests = [], []
        self.fails = []                          # (oracle, expected, observed, extra)
        self.shape = dict(overlap=False, late_setting=False, clear_busy=False, requests=[], late_values=[])
        self.displays_done = 0
        self.loaded = set()                      # files the user has imported successfully since the last clear (harness' own record)
        self.lib_checked = set()                 # (view, content) already compared with the library proper in this history
        # the harness' own record of what the user did (never read back from the window): series imported successfully, in order; the rows
        # of the list with the tick marks the user set; the text typed into the list filter; the application settings chosen in the dialog
        self.sdb = []                            # keys
        self.srows = []                          # [key, row text, ticked]
        self.spat = ""
        self.cfg = list(DEFAULT_CFG)
        self.rp_cfg = DEFAULT_CFG                # application settings at the most recent display request that was not empty
        self.req_cfgs = [DEFAULT_CFG]
        env.cfg = DEFAULT_CFG
        self.dialogs = 0

    busy = property(lambda self: any(wk._kind in DISP for wk in self.env.pool.q))

    # ---- the list as the user has built it ----------------------------------------------------------------------------------------------
    def relist(self):
        """rows after a successful import: the listing of the database (name alone while everything comes from one file), nothing ticked"""
        one = len(set(k[0] for k in self.sdb)) <= 1
        self.srows = [[k, sname(k[1]) if one else fname(k[0]) + "/" + sname(k[1]), False] for k in self.sdb]

    def listed(self):
        """rows shown in the list view: those whose text contains the filter text (wildcard filter '*text*', not case sensitive)"""
        return [r for r in self.srows if self.spat.lower() in r[1].lower()]

    def user_selection(self):
        """keys of the ticked rows among the listed ones, in list order"""
        return [r[0] for r in self.listed() if r[2]]

    def do(self, ev):
        env, w, pool = self.env, self.env.win, self.env.pool
        p = ev.split(":")
        op = p[0]
        pool.ctx = op
        if op in ("imp", "drop"):
            files = [env.path(int(f)) for f in p[1].split(",")] if len(p) > 1 and p[1] not in ("", "-") else []
            if op == "imp":                           # File > Import: the files chosen in the file dialog
                FakeDialog.files = files
                w.on_import()
            else:                                     # the same files dragged from a file manager and dropped on the window
                from qtpy.QtCore import QMimeData, QPointF, QUrl, Qt
                from qtpy.QtGui import QDropEvent
                mime = QMimeData()
                mime.setUrls([QUrl.fromLocalFile(f) for f in files])
                w.dropEvent(QDropEvent(QPointF(5., 5.), Qt.CopyAction, mime, Qt.LeftButton, Qt.NoModifier))
        elif op == "clr":
            self.shape["clear_busy"] |= self.busy
            w.on_clear()
            self.rp = self.rt = None
            self.loaded = set()
            self.sdb, self.srows = [], []
        elif op == "chk":
            from qtpy.QtCore import Qt
            pm = w.db_proxy_model
            i = int(p[1])
            if i < pm.rowCount():
                it = w.db_source_model.itemFromIndex(pm.mapToSource(pm.index(i, 0)))
                it.setCheckState(Qt.Checked if p[2] == "1" else Qt.Unchecked)
            vis = self.listed()
            if i < len(vis):
                vis[i][2] = (p[2] == "1")
        elif op == "all":
            w.select_button.click()
            for r in self.listed():
                r[2] = True
        elif op == "non":
            w.unselect_button.click()
            for r in self.listed():
                r[2] = False
        elif op == "pat":
            # text typed into the filter box: '-' erased, f<i> a file name, n<i> a series name, N<i> the series name in capitals (the
            # filter is not case sensitive unless the user asks for it)
            self.spat = "" if p[1] == "-" else (fname(int(p[1][1:])) if p[1][0] == "f" else
                                                (sname(int(p[1][1:])).upper() if p[1][0] == "N" else sname(int(p[1][1:]))))
            w.db_view_filter_pattern.setText(self.spat)
        elif op == "set":
            # File > Settings: the dialog opens with the current settings; the user edits some widgets ('-': not touched) and presses
            # OK (1) or Cancel (0).  set:<ok>:<normalised 0|1|->:<segment length|->:<bins|->
            acc = p[1] == "1"
            vals = [None if v == "-" else int(v) for v in (p[2:5] + ["-", "-", "-"])[:3]]
            if self.busy:
                self.shape["late_setting"] = True
                self.shape["late_values"].append(ev)
            _scripted_exec.script = (acc, vals[0], vals[1], vals[2])
            shown0 = _scripted_exec.shown
            before = (bool(w.psd_normalized()), int(w.psd_nperseg()), int(w.rfc_nbins()), int(w.twin_ndec()))
            w.on_open_settings()
            after = (bool(w.psd_normalized()), int(w.psd_nperseg()), int(w.rfc_nbins()), int(w.twin_ndec()))
            SETTINGS_LOG.append((before, acc, tuple(vals), after))
            self.dialogs += _scripted_exec.shown - shown0
            for d in w.findChildren(env.gui.SettingsDialog):
                d.deleteLater()
            if acc:
                if vals[1] is not None:
                    self.cfg[0] = vals[1]
                if vals[0] is not None:
                    self.cfg[1] = bool(vals[0])
                if vals[2] is not None:
                    self.cfg[2] = vals[2]
        elif op == "dsp":
            sel = self.user_selection()
            req = (sel, tuple(self.ui))
            self.rt = req
            self.shape["overlap"] |= self.busy        # also a refused request (nothing ticked) resets the table
            if sel:
                self.shape["requests"].append(kstrs(sel))
                self.rp = req
                self.rp_cfg = tuple(self.cfg)
                if self.rp_cfg not in self.req_cfgs:
                    self.req_cfgs.append(self.rp_cfg)
            nq = len(pool.q)
            w.display_button.click()
            got = [obs_pending_one(env, wk) for wk in pool.q[nq:]]
            want = ["R" + kstrs(sel)] if sel else []
            if got != want:
                self.fails.append(("O3 a display request is made for exactly the series the user has ticked among the listed rows (tick / untick, "
                                   "select all / unselect all act on the listed rows; a successful import lists everything unticked)",
                                   want or "no request", got or "no request", dict(view="request")))
        elif op == "gum":
            w.on_create_gumbel_plot()
        elif op in ("tw", "fl", "mn", "sm"):
            j = ("tw", "fl", "mn", "sm").index(op)
            v = int(p[1])
            if self.busy:
                self.shape["late_setting"] = True
                self.shape["late_values"].append(ev)
            self.ui[j] = v
            env.set_ui(**{op: v})
        elif op == "cmp":
            i = int(p[1])
            if i < len(pool.q):
                wk = pool.q.pop(i)
                pool.ctx = "cmp"
                before = (obs_db(env), obs_rows(env)) if wk._kind == "I" else None
                wk.run()
                if wk._kind in ("Ct", "Cs", "Cp", "Cr"):
                    self.displays_done += 1
                if before is not None:
                    self.import_oracle(wk, before)
        else:
            raise core.InfraError("C19: unknown event " + ev)
        self.events.append(ev)
        # when idle the plots belong to the most recent request: they are decoded against the application settings of that request only;
        # while workers are queued a plot may still be the one of an earlier request of this history
        o = observe(env, [self.rp_cfg] + ([c for c in self.req_cfgs if c != self.rp_cfg] if pool.q else []))
        o["rp"], o["rt"] = req_tok(self.rp), req_tok(self.rt)
        self.digests.append(o)
        if not pool.q:
            self.idle_oracles(o)
        return o

    def import_oracle(self, wk, before):
        env = self.env
        ids = [env.file_of_path(p) for p in wk.args[0]]
        new = [(f, n) for f in ids for n in CATALOGUE.get(f, [])]
        had = [kstr(k) for k in self.sdb]
        ok = all(f in CATALOGUE for f in ids) and len(set(new)) == len(new) and not any(kstr(k) in had for k in new)
        after = (obs_db(env), obs_rows(env))
        if ok:
            self.loaded |= set(ids)
            self.sdb += new
            self.relist()
        if not ok:
            if after != before:
                self.fails.append(("O2 a failed import (file already loaded / unreadable) changes neither database nor list", "db=%s rows=%s" % before,
                                   "db=%s rows=%s" % after, dict(view="import")))
        else:
            exp = ",".join(had + [kstr(k) for k in new])
            if after[0] != exp:
                self.fails.append(("O2 a successful import adds exactly the series of its files, in order", "db=" + exp, "db=" + after[0], dict(view="import")))

    def idle_oracles(self, o):
        env, w = self.env, self.env.win
        listed = w.db.list(names="*", relative=True, display=False)
        shown = [w.db_source_model.item(i).text() for i in range(w.db_source_model.rowCount())]
        if shown != listed:
            self.fails.append(("O1 when idle the series list mirrors db.list(relative=True)", listed, shown, dict(view="rows")))
        if w.db_status.text() != "%d time series in database" % w.db.n:
            self.fails.append(("O1 when idle the status bar shows the size of the database", "%d time series in database" % w.db.n,
                               w.db_status.text(), dict(view="status")))
        if "?" in o["tb"]:
            for lab, cells in table_rows(env):
                if not any(env.lib("stats", k, tw, fl, mn)["cells"] == cells for k in env.cands_of_label(lab)
                           for tw, fl, mn in itertools.product(range(len(TWINS)), range(len(FILTS)), (False, True))):
                    best = cell_differences(env, lab, cells)
                    if best is not None:
                        (key, tw, fl, mn), diff = best
                        self.fails.append(("O3 every cell of the statistics table is the number the library returns (nan only where the library returns nan)",
                                           {nm: e for nm, e, _ in diff}, {nm: ob for nm, _, ob in diff},
                                           dict(view="tb-cell", row=lab, closest="%s:%d:%d:%d" % (kstr(key), tw, fl, mn))))
        sv = spec_views(self.rp, self.rt)
        names = dict(tr="trace", sp="spectrum", wb="peak distribution", cy="cycle histogram", tb="statistics table")
        for v in VIEWS:
            if o[v] != sv[v]:
                extra = dict(view=v)
                if self.dialogs and v in ("sp", "cy"):
                    extra["application_settings_of_the_request"] = dict(psd_nperseg=self.rp_cfg[0], psd_normalized=self.rp_cfg[1], rfc_nbins=self.rp_cfg[2])
                if v == "sp" and "?" in o[v] and self.rp is not None:
                    extra["detail"] = self.spectrum_detail()
                self.fails.append(("O3 when idle the %s shows the series and settings of the most recent display request%s" % (
                    names[v], " (application settings as the user left them in File > Settings)" if self.dialogs and v in ("sp", "cy") else ""),
                    sv[v], o[v], extra))
            elif sv[v] != "-" and (v, sv[v]) not in self.lib_checked:
                # right series and settings as far as the workers' own functions go: the drawn numbers must also be the numbers the library
                # proper (TimeSeries methods, qats.app.funcs not involved) returns for these series and settings
                self.lib_checked.add((v, sv[v]))
                od = OBSERVERS[v](env, src=env.direct)
                if od != sv[v]:
                    self.fails.append(("O3 when idle the %s shows the numbers the library returns (TimeSeries.get / maxima / minima / psd / rfc / stats "
                                       "called with the window, filter and maxima/minima choice of the most recent display request)" % names[v],
                                       sv[v], od, dict(view=v + "-lib")))

    def spectrum_detail(self):
        """which drawn spectra are not the library's for the settings of the most recent request (sizes and frequency steps)"""
        env = self.env
        sel, (tw, fl, mn, sm) = self.rp
        gs, _ = _groups(env.win.spectrum_axes.get_lines())
        out = []
        for (lab, main, comp), k in zip(gs, sel):
            if k is None:
                continue
            try:
                f, sp = env.direct("psd", k, tw, fl)
                fg, sg = np.asarray(main.get_xdata(), dtype=float), np.asarray(main.get_ydata(), dtype=float)
                if not (close(fg, f) and close(sg, sp)):
                    out.append("'%s' (%s): drawn %d frequencies (df=%.6g Hz), TimeSeries.psd for the request %d (df=%.6g Hz)"
                               % (lab, kstr(k), fg.size, (fg[1] - fg[0]) if fg.size > 1 else float("nan"), np.size(f), f[1] - f[0]))
            except Exception as e:      # noqa
                out.append("'%s': %s" % (lab, e))
        return "; ".join(out) if out else "-"

    def drain(self, rng=None, order=None):
        """complete everything that is still queued (random order, or first-in first-out)"""
        guard = 0
        while self.env.pool.q and guard < 200:
            n = len(self.env.pool.q)
            self.do("cmp:%d" % (rng.randrange(n) if rng is not None else 0))
            guard += 1

    def report(self, chk, stream="gui"):
        inp = dict(catalogue=CAT_TOKEN, events=list(self.events), **({"warnings_as_errors": True} if getattr(self, "strict", False) else {}))
        seen = set()
        for oracle, exp, obs, extra in self.fails:
            if (oracle, str(exp), str(obs)) in seen:
                continue
            seen.add((oracle, str(exp), str(obs)))
            chk.fail(oracle, inp, exp, obs, shape={k: v for k, v in self.shape.items()}, **extra)


# ------------------------------------------------------------------------------------------------------------------------------------
# known-finding matchers (narrow: shape of the history + kind of mismatch)
# ------------------------------------------------------------------------------------------------------------------------------------
def _split(f):
    v = f.get("view")
    exp, obs = str(f.get("expected")), str(f.get("observed"))
    if v == "tb":
        def rows(t):
            return [] if t == "-" else [r.split(":", 1) for r in t.split(",")]
        e, o = rows(exp), rows(obs)
        return [r[0] for r in e], sorted(set(r[1] for r in e)), [r[0] for r in o], sorted(set(r[1] for r in o))

    def one(t):
        if t == "-":
            return [], []
        ks, rest = t.split(":", 1)
        return ks.split(","), [rest]
    ek, es = one(exp)
    ok, os_ = one(obs)
    return ek, es, ok, os_


def k1_shape(f):
    """overlapping display requests: the view shows (also) series of a request that was still being processed when a newer request
    was made"""
    if f.get("view") not in VIEWS or not str(f.get("oracle", "")).startswith("O3"):
        return False
    sh = f.get("shape") or {}
    if not sh.get("overlap") or "?" in str(f.get("observed")):
        return False
    ek, es, ok, os_ = _split(f)
    requested = set(k for r in sh.get("requests", []) for k in r.split(","))
    return ok != ek and set(ok) <= requested


def k2_shape(f):
    """a setting was changed while a display request was being processed: right series, numbers of the later setting"""
    if f.get("view") not in VIEWS or not str(f.get("oracle", "")).startswith("O3"):
        return False
    sh = f.get("shape") or {}
    if not sh.get("late_setting") or "?" in str(f.get("observed")):
        return False
    ek, es, ok, os_ = _split(f)
    return ok == ek and es != os_ and len(ok) > 0


def k3_shape(f):
    """(fixed in /repo) an import of a new file together with a loaded one added the new file's series to the database only"""
    if f.get("view") != "import" or not str(f.get("oracle", "")).startswith("O2 a failed import"):
        return False
    exp, obs = str(f.get("expected")), str(f.get("observed"))
    return exp.split(" rows=")[1] == obs.split(" rows=")[1] and exp.split(" rows=")[0] != obs.split(" rows=")[0]


def k4_shape(f):
    """the database was cleared while a display request was being processed: its results are drawn after the clear"""
    if f.get("view") not in VIEWS or not str(f.get("oracle", "")).startswith("O3"):
        return False
    sh = f.get("shape") or {}
    if not sh.get("clear_busy") or "?" in str(f.get("observed")):
        return False
    ek, es, ok, os_ = _split(f)
    requested = set(k for r in sh.get("requests", []) for k in r.split(","))
    return len(ok) > 0 and ok != ek and set(ok) <= requested


# ------------------------------------------------------------------------------------------------------------------------------------
# histories
# ------------------------------------------------------------------------------------------------------------------------------------
def _calc_order(pattern):
    """canonical completion sequence of two fully overlapping requests A, B (queue: RA RB at the start).
    pattern = (first read 'A'|'B', per kind one of 0,1,2): for the request X read first and Y read second,
      0: X's worker of that kind completes before Y is read, 1: after Y is read but before Y's worker, 2: after Y's worker."""
    first, kinds = pattern
    # queue model: list of tags
    q = ["RA", "RB"]
    seq = []

    def comp(tag):
        i = q.index(tag)
        seq.append("cmp:%d" % i)
        q.pop(i)
        if tag[0] == "R":
            q.extend(k + tag[1] for k in ("t", "s", "p", "r"))
    X, Y = (("A", "B") if first == "A" else ("B", "A"))
    comp("R" + X)
    for k, c in zip("tspr", kinds):
        if c == 0:
            comp(k + X)
    comp("R" + Y)
    for k, c in zip("tspr", kinds):
        if c == 1:
            comp(k + X)
    for k, c in zip("tspr", kinds):
        comp(k + Y)
        if c == 2:
            comp(k + X)
    return seq


C5 = ["cmp:0"] * 5          # read worker, then the four calculation workers, first-in first-out


def _flat(h):
    out = []
    for e in h:
        out += e if isinstance(e, list) else [e]
    return out


FIXED = [
    # serial use
    ["imp:1", "cmp:0", "chk:0:1", "chk:2:1", "dsp", "cmp:0", "cmp:0", "cmp:0", "cmp:0", "cmp:0"],
    ["imp:1,2", "cmp:0", "all", "tw:1", "fl:1", "mn:1", "sm:1", "dsp", "cmp:0", "cmp:3", "cmp:2", "cmp:1", "cmp:0", "non", "chk:3:1", "tw:2", "fl:2",
     "mn:0", "dsp", "cmp:0", "cmp:1", "cmp:0", "cmp:1", "cmp:0"],
    ["imp:3", "cmp:0", "all", "dsp", "cmp:0", "cmp:0", "cmp:0", "cmp:0", "cmp:0", "imp:1", "cmp:0", "chk:1:1", "dsp", "cmp:0", "cmp:0", "cmp:0",
     "cmp:0", "cmp:0", "clr"],
    # display with nothing ticked: table reset only
    ["imp:1", "cmp:0", "chk:1:1", "dsp", "cmp:0", "cmp:0", "cmp:0", "cmp:0", "cmp:0", "non", "dsp"],
    # failed imports: loaded file, new + loaded (K3 shape), same file twice, missing file, nothing chosen
    ["imp:1", "cmp:0", "chk:0:1", "imp:1", "cmp:0", "imp:2,1", "cmp:0", "imp:2,2", "cmp:0", "imp:9", "cmp:0", "imp:2,9", "cmp:0", "imp", "imp:2", "cmp:0"],
    ["imp:1", "imp:1", "cmp:1", "cmp:0", "imp:2", "imp:2,3", "cmp:1", "cmp:0"],
    # list filter: hidden ticked rows are not part of the request
    ["imp:1,2", "cmp:0", "all", "pat:f2", "dsp", "cmp:0", "cmp:0", "cmp:0", "cmp:0", "cmp:0", "non", "pat:n2", "chk:0:1", "pat:-", "dsp", "cmp:0", "cmp:0",
     "cmp:0", "cmp:0", "cmp:0", "pat:f1", "chk:5:1", "all", "pat:-"],
    # import while a request is in flight (labels change, views must not)
    ["imp:1", "cmp:0", "chk:0:1", "chk:1:1", "dsp", "imp:2", "cmp:1", "cmp:0", "cmp:0", "cmp:0", "cmp:0", "cmp:0"],
    # K1: older request completes last / table mixing in first-in first-out order
    ["imp:1", "cmp:0", "chk:0:1", "dsp", "non", "chk:1:1", "dsp", "cmp:1", "cmp:1", "cmp:1", "cmp:1", "cmp:1", "cmp:0", "cmp:0", "cmp:0", "cmp:0", "cmp:0"],
    ["imp:1", "cmp:0", "all", "dsp", "non", "chk:1:1", "dsp", "cmp:0", "cmp:0", "cmp:0", "cmp:0", "cmp:0", "cmp:0", "cmp:0", "cmp:0", "cmp:0", "cmp:0"],
    # K2: settings changed before the read worker completes / before the trace is drawn
    ["imp:1", "cmp:0", "chk:0:1", "dsp", "tw:1", "cmp:0", "cmp:0", "cmp:0", "cmp:0", "cmp:0"],
    ["imp:1", "cmp:0", "chk:0:1", "dsp", "cmp:0", "sm:1", "mn:1", "cmp:0", "cmp:0", "cmp:0", "cmp:0"],
    ["imp:2", "cmp:0", "all", "mn:1", "dsp", "fl:1", "mn:0", "cmp:0", "fl:2", "cmp:0", "cmp:0", "cmp:0", "cmp:0"],
    # K4: clear while a request is in flight
    ["imp:1", "cmp:0", "chk:0:1", "dsp", "cmp:0", "clr", "cmp:0", "cmp:0", "cmp:0", "cmp:0"],
    ["imp:1", "cmp:0", "chk:0:1", "dsp", "clr", "cmp:0", "cmp:0", "cmp:0", "cmp:0", "cmp:0"],
    ["imp:1", "cmp:0", "chk:0:1", "dsp", "clr", "imp:1", "cmp:1", "cmp:0", "cmp:0", "cmp:0", "cmp:0", "cmp:0"],
    # Gumbel plot: refused with one series, new tab with two, cleared in between, settings read late
    ["imp:1,2", "cmp:0", "chk:0:1", "gum", "chk:3:1", "chk:4:1", "gum", "tw:1", "cmp:0", "fl:1", "cmp:0", "gum", "cmp:0", "clr", "cmp:0", "dsp"],
    ["imp:1", "cmp:0", "all", "dsp", "gum", "cmp:1", "cmp:0", "cmp:0", "cmp:0", "cmp:0", "cmp:0", "cmp:0"],
    # the same file name at two depths (run.ts, sub/run.ts) with the same series name: one ticked row = one series (full keys, not labels)
    ["imp:4,5", "cmp:0", "chk:0:1", "dsp", "cmp:0", "cmp:0", "cmp:0", "cmp:0", "cmp:0", "non", "chk:2:1", "chk:3:1", "mn:1", "dsp", "cmp:0", "cmp:3",
     "cmp:2", "cmp:1", "cmp:0", "all", "gum", "cmp:0", "cmp:0"],
    ["imp:5", "cmp:0", "chk:0:1", "dsp", "imp:4,1", "cmp:1", "cmp:0", "cmp:0", "cmp:0", "cmp:0", "cmp:0", "pat:n7", "all", "pat:-", "dsp", "cmp:0", "cmp:0",
     "cmp:0", "cmp:0", "cmp:0"],
    # statistics that are exactly zero (min of series 2.5, max of series 3.6) are shown as 0
    ["imp:2,3", "cmp:0", "all", "dsp", "cmp:0", "cmp:0", "cmp:0", "cmp:0", "cmp:0", "mn:1", "dsp", "cmp:0", "cmp:0", "cmp:0", "cmp:0", "cmp:0"],
    # select all / unselect all / tick while a list filter hides EARLIER rows (listed row i is not row i of the list), filter erased or not
    ["imp:1", "cmp:0", "all", "pat:n3", "non", "pat:-", "dsp", C5, "non", "pat:N2", "all", "pat:n3", "all", "pat:n2", "non", "dsp",
     "pat:-", "dsp", "cmp:0", "cmp:3", "cmp:1", "cmp:0", "cmp:0"],
    ["imp:1,2", "cmp:0", "pat:f2", "all", "pat:n5", "non", "chk:0:1", "chk:0:0", "pat:-", "dsp", C5, "all", "pat:n4", "non", "dsp", "pat:f1", "non",
     "pat:-", "dsp", C5],
    # a failed import (loaded file, missing file, new + loaded) between ticking and display: the ticks and the request are those of the user
    ["imp:1,2", "cmp:0", "chk:1:1", "chk:3:1", "imp:2", "cmp:0", "dsp", C5, "imp:9", "cmp:0", "drop:3,1", "cmp:0", "tw:1", "dsp", C5,
     "imp:3", "cmp:0", "dsp"],
    # files dropped on the window instead of File > Import
    ["drop:2", "cmp:0", "all", "drop:2", "cmp:0", "dsp", C5, "drop", "drop:3", "cmp:0", "chk:2:1", "dsp", C5],
    # File > Settings: accepted without touching anything, cancelled after edits, accepted with a normalised spectrum / shorter segments /
    # another number of bins, accepted untouched again -- every following request shows the numbers for the settings the user chose
    ["imp:1", "cmp:0", "chk:0:1", "chk:2:1", "set:1:-:-:-", "dsp", C5, "set:0:1:256:25", "dsp", "cmp:0", "cmp:3", "cmp:2", "cmp:1", "cmp:0",
     "set:1:1:256:-", "dsp", C5, "set:1:-:-:-", "mn:1", "dsp", C5, "set:1:0:-:25", "dsp", C5, "set:1:-:100:10", "set:1:-:-:-", "dsp", C5],
    ["set:1:1:-:-", "imp:3,2", "cmp:0", "all", "dsp", C5, "clr", "set:1:-:-:-", "imp:2", "cmp:0", "all", "gum", "dsp", "cmp:0", "cmp:0", "cmp:0",
     "cmp:0", "cmp:0", "cmp:0", "cmp:0"],
    # invalid completion index, ticking a row that is not there
    ["cmp:0", "chk:0:1", "dsp", "gum", "all", "clr", "imp:3", "cmp:3", "cmp:0", "chk:4:1", "chk:0:1", "dsp", "cmp:7", "cmp:0", "cmp:2", "cmp:2", "cmp:0",
     "cmp:0"],
]


FIXED = [_flat(h) for h in FIXED]


def random_history(run, rng, maxdisp):
    """generate and execute a history against the live window; returns nothing (events are recorded in the runner)"""
    env = run.env
    loaded = set()
    style = rng.choice(["serial", "serial", "mixed", "mixed", "wild"])
    first = rng.choice([[1], [2], [3], [1, 2], [1, 3], [2, 1, 3], [4, 5], [5], [5, 4, 2], [4], [6], [6], [6, 1], [3, 6]])
    run.do(("imp:" if rng.random() < 0.85 else "drop:") + ",".join(map(str, first)))
    run.do("cmp:0")
    dialog = rng.random() < 0.4         # this user opens File > Settings now and then (only while no display request is being processed)
    filt_user = rng.random() < 0.4      # this user works with the list filter
    ndisp = 0
    n = rng.randint(6, 16)
    for _ in range(n):
        qn = len(env.pool.q)
        nrows = env.win.db_source_model.rowCount()
        if qn and (style == "serial" or rng.random() < (0.45 if style == "mixed" else 0.3)):
            run.do("cmp:%d" % (rng.randrange(qn) if rng.random() < 0.97 else qn + 1))
            continue
        r = rng.random()
        if dialog and not run.busy and rng.random() < 0.18:
            run.do(random_dialog(rng))
            continue
        if filt_user and len(run.srows) > 1 and rng.random() < 0.16:
            # work on a part of the list: (tick everything,) type (part of) the label of a row -- mostly not the first one -- into the filter
            # box, tick / untick the listed rows, (erase the text,) (display)
            if rng.random() < 0.5:
                run.do("all")
            k = rng.choice(run.srows[1:])[0]
            one = len(set(q[0] for q in run.sdb)) <= 1
            # (the two names of file 6 differ only in letter case: the filter, not case sensitive, lists both -- asked for by file name)
            run.do("pat:" + ("f%d" % k[0] if k[0] == 6 else
                             "%s%d" % (rng.choice("nnN"), k[1]) if (one or k[0] > 3 or rng.random() < 0.6) else "f%d" % k[0]))
            run.do(rng.choice(["non", "non", "non", "all", "chk:0:0", "chk:0:1"]))
            if rng.random() < 0.7:
                run.do("pat:-")
            if ndisp < maxdisp and rng.random() < 0.6:
                run.do("dsp")
                ndisp += 1
            continue
        if r < 0.20 and nrows:
            run.do("chk:%d:%d" % (rng.randrange(nrows + (1 if rng.random() < 0.05 else 0)), rng.random() < 0.75))
        elif r < 0.27:
            run.do(rng.choice(["all", "non"]))
        elif r < 0.33:
            run.do("pat:" + rng.choice(["-", "-", "f1", "f2", "f3", "n1", "n2", "n4", "n6", "n7", "n9"]))
        elif r < 0.55 and ndisp < maxdisp:
            if not run.user_selection() and nrows and rng.random() < 0.85:
                run.do("chk:%d:1" % rng.randrange(nrows))
            run.do("dsp")
            ndisp += 1
        elif r < 0.60:
            run.do("gum")
        elif r < 0.78:
            op = rng.choice(["tw", "fl", "mn", "sm"])
            run.do("%s:%d" % (op, rng.randrange(3 if op in ("tw", "fl") else 2)))
        elif r < 0.84:
            run.do("clr")
        elif r < 0.97:
            fs = rng.choice([[1], [2], [3], [1, 2], [2, 3], [3, 1], [2, 2], [MISSING], [1, MISSING], [4], [5], [4, 5], [5, 3], [6], [6, 2]])
            run.do(("imp:" if rng.random() < 0.85 else "drop:") + ",".join(map(str, fs)))
        else:
            run.do("imp")
    run.drain(rng)


def random_dialog(rng):
    """one visit to File > Settings: mostly OK, sometimes Cancel; each widget either left alone or set to a value of the pools"""
    acc = rng.random() < 0.8
    r = rng.random()
    if r < 0.35:
        vals = ["-", "-", "-"]                                            # looked at the settings, changed nothing
    else:
        vals = [rng.choice(["-", "0", "1", "1"]), rng.choice(["-", "-"] + [str(v) for v in SET_NPERSEG + (NPERSEG,)]),
                rng.choice(["-", "-"] + [str(v) for v in SET_NBINS + (NBINS,)])]
    return "set:%d:%s" % (acc, ":".join(vals))


def two_request_history(run, variant, seq):
    """two fully overlapping requests A (rows 0,1 of file 1) and B (row 2), variants differ in what happens between them"""
    pre = ["imp:1", "cmp:0", "chk:0:1", "chk:1:1"]
    mid = {0: ["non", "chk:2:1"], 1: ["chk:2:1", "tw:1"], 2: ["non", "chk:2:1", "mn:1", "sm:1"], 3: ["fl:1"]}[variant]
    for e in pre + ["dsp"] + mid + ["dsp"] + seq:
        run.do(e)
    run.drain()


def all_schedules(nreq_tags, rng, limit):
    """sampled completion permutations of two requests (reads first in the queue), as cmp-index sequences"""
    out = []
    for _ in range(limit):
        q, seq = list(nreq_tags), []
        while q:
            i = rng.randrange(len(q))
            t = q.pop(i)
            seq.append("cmp:%d" % i)
            if t[0] == "R":
                q.extend(k + t[1] for k in "tspr")
        out.append(seq)
    return out


# ------------------------------------------------------------------------------------------------------------------------------------
def tabs_agree(model, impl):
    a, b = model.split(";"), str(impl).split(";")
    return len(a) == len(b) and all(x in y.split("/") for x, y in zip(a, b))


def model_events(events):
    """the history as the orchestration model sees it: a drop is an import; visits to the settings dialog are left out (the model has no
    application settings: its view tokens name series, window, filter and mode -- the harness decodes the drawn numbers against the
    settings chosen in the dialog, so the tokens are the same with and without the visit).  -> (events, index in `events` of each)"""
    out, idx = [], []
    for j, e in enumerate(events):
        if e.startswith("set:"):
            continue
        out.append("imp" + e[4:] if e.split(":")[0] == "drop" else (e.lower() if e.startswith("pat:N") else e))
        idx.append(j)
    return out, idx


def compare_with_model(chk, drv, runs):
    mev = [model_events(r.events) for r in runs]
    lines = ["gui %s %s" % (CAT_TOKEN, " ".join(m[0])) for m in mev]
    outs = drv.run(lines, shards=min(core.NCPU, max(1, len(lines) // 300)))
    for r, o, (evs, idx) in zip(runs, outs, mev):
        inp = dict(catalogue=CAT_TOKEN, events=list(r.events), **({"warnings_as_errors": True} if getattr(r, "strict", False) else {}))
        toks = o.split()
        if toks[:1] != ["ok"] or len(toks) - 1 != len(evs):
            chk.disagree("gui", inp, o[:300], "history of %d events" % len(evs))
            continue
        for tok, j in zip(toks[1:], idx):
            imp = r.digests[j]
            md = parse_digest(tok)
            diff = [k for k in md if md[k] != imp.get(k) and not (k == "tabs" and tabs_agree(md[k], imp.get(k)))]
            chk.count("gui-state")
            if diff:
                chk.disagree("gui", dict(inp, at_event=j, event=r.events[j]), {k: md[k] for k in diff}, {k: imp.get(k) for k in diff})
                break


def compare_settings_with_model(chk, drv):
    """every settings dialog of the run against the Lean model Qats.GuiSettings (theorems settings_dialog_spec,
    settings_stay_in_range): the application settings after the dialog are what the model says for the settings before it"""
    log, SETTINGS_LOG[:] = list(SETTINGS_LOG), []
    lines = []
    for before, acc, vals, after in log:
        ed = ":".join("-" if v is None else str(int(v)) for v in (vals[0], vals[1], vals[2], None))
        lines.append("gui.settings %d %d %d %d %d:%s" % (1 if before[0] else 0, before[1], before[2], before[3], 1 if acc else 0, ed))
    outs = drv.run(lines) if lines else []
    for (before, acc, vals, after), o in zip(log, outs):
        chk.count("gui.settings")
        obs = "%d,%d,%d,%d" % (1 if after[0] else 0, after[1], after[2], after[3])
        mod = o.split()[1] if o.startswith("ok ") else o
        inp = dict(kind="settings-dialog", before=list(before), ok=bool(acc), edits=list(vals))
        if mod != obs:
            chk.disagree("gui.settings", inp, mod, obs)
        # clause of the property itself: the application settings are the ones the user chose (Cancel / untouched OK change nothing)
        want = list(before)
        if acc:
            if vals[0] is not None:
                want[0] = bool(vals[0])
            if vals[1] is not None:
                want[1] = max(100, min(100000, int(vals[1])))
            if vals[2] is not None:
                want[2] = max(10, min(1000, int(vals[2])))
        if list(after) != want:
            chk.fail("File > Settings changes exactly the settings the user edited (Cancel and an untouched OK change nothing)", inp, want, list(after))
        elif acc and any(v is not None for v in vals):
            chk.nontriv(("settings", tuple(before), tuple(vals)))


def run(chk):
    chk.extra["rule"] = RULE
    chk.assumptions += [
        "QThreadPool is replaced by a queue; worker.run() is called by the harness (signals delivered synchronously, in connection order)",
        "FigureCanvas.draw is a no-op (pixels are not observed; lines, bars, labels and table cells are)",
        "files f1..f3, run.ts in one directory and sub/run.ts below it (700..1300 samples, time step 0.1 or 0.2, all starting at t=0); plain series names, one of them on two files; settings taken from 3 windows x 3 filters x maxima/minima x show-in-plot",
        "a view's settings are decoded by matching drawn numbers with qats.app.funcs.calculate_* called directly on separately read series",
        "the selection and the settings of a request are the harness' own record of the user's actions (ticks on listed rows, select / unselect "
        "all under the filter text, values left in File > Settings), not what the window reports; the settings dialog is driven through its own "
        "widgets with exec_ replaced by a script (OK / Cancel), and is opened only while no display request is being processed; the "
        "orchestration model does not see the dialog (its tokens do not depend on segment length / normalisation / number of bins)",
        "library reference of the spectrum view: TimeSeries.psd(twin, filterargs, resample=dt, taperfrac=0.1, nperseg=min(20000, length)), of the "
        "statistics: TimeSeries.stats(statsdur=10800, quantiles=(0.37, 0.57, 0.9)) -- the documented choices of the application",
    ]
    chk.partial += [
        "views_latest_quiet_partial: the views equal the latest request only for histories without display / clear / settings change while a "
        "request is processed; otherwise false for the code (stale_view_counterexample K1, late_settings_counterexample K2, "
        "clear_in_flight_counterexample K4)",
        "library computations are opaque in the model; the numbers are compared with the library by the harness",
    ]
    chk.matchers["K1"] = k1_shape
    chk.matchers["K2"] = k2_shape
    chk.matchers["K3"] = k3_shape
    chk.matchers["K4"] = k4_shape
    rng = chk.rng
    t0 = time.time()
    env = Env()
    try:
        drv = core.Driver()
        t0 = time.time()          # waiting for the shared lake lock is not harness time
        env.selfcheck(chk)
        runs = []

        def finish(r, kind):
            runs.append(r)
            chk.count("history")
            chk.dist("kind:" + kind)
            chk.dist("events", len(r.events))
            for k in ("overlap", "late_setting", "clear_busy"):
                if r.shape[k]:
                    chk.dist("shape:" + k)
            if r.displays_done:
                chk.nontriv(tuple(r.events))
            r.report(chk)

        hist = [h for h in FIXED]
        for c in core.load_corpus("C19"):
            if isinstance(c, dict) and c.get("events"):
                hist.append(list(c["events"]))
        for h in hist:
            r = Runner(env, chk, fresh=(len(runs) % 8 == 0))
            for e in h:
                r.do(e)
            r.drain()
            finish(r, "fixed")
        # re-use of the window is sound: same digests on a fresh and on a used window
        for h in (FIXED[1], FIXED[8]):
            a = Runner(env, chk, fresh=True)
            for e in h:
                a.do(e)
            b = Runner(env, chk, fresh=False)
            for e in h:
                b.do(e)
            chk.count("reuse-check")
            if a.digests != b.digests:
                chk.notes.append("a re-used window behaves differently from a fresh one: every history gets a new window")
                env.always_fresh = True
        chk.sample(dict(events=FIXED[8], final={k: runs[8].digests[-1][k] for k in ("tr", "tb", "rp")}))
        nrand = 50 if chk.quick else 350
        budget = 27 if chk.quick else 110
        for i in range(nrand):
            if time.time() - t0 > budget:
                chk.notes.append("random histories stopped at %d (time budget)" % i)
                break
            r = Runner(env, chk, fresh=(i % 15 == 0))
            if i % 3 == 1:
                # every third history runs in a process state some users have: numeric warnings (UserWarning, RuntimeWarning) raised as
                # errors (pytest -W error, PYTHONWARNINGS=error).  The views must still show the latest request: a worker that only
                # fails in that state leaves a view empty or stale, which the comparison with the library's numbers reports
                import warnings
                r.strict = True
                with warnings.catch_warnings():
                    warnings.simplefilter("error", UserWarning)
                    warnings.simplefilter("error", RuntimeWarning)
                    random_history(r, rng, maxdisp=2 if chk.quick else 3)
                    chk.count("strict-warnings history")
            else:
                random_history(r, rng, maxdisp=2 if chk.quick else 3)
            finish(r, "random")
        if not chk.quick:
            # every canonical completion pattern of two fully overlapping requests (variants 0, 2: all 162; 1, 3: the 81 with A read first)
            for variant in range(4):
                for pat in [(f, ks) for f in ("AB" if variant in (0, 2) else "A") for ks in itertools.product((0, 1, 2), repeat=4)]:
                    if time.time() - t0 > 255:
                        chk.notes.append("canonical completion patterns cut short (time budget)")
                        break
                    r = Runner(env, chk)
                    two_request_history(r, variant, _calc_order(pat))
                    finish(r, "two-requests-canonical")
            for variant in range(4):
                for seq in all_schedules(["RA", "RB"], rng, 30):
                    if time.time() - t0 > 290:
                        break
                    r = Runner(env, chk)
                    two_request_history(r, variant, seq)
                    finish(r, "two-requests-sampled")
        compare_with_model(chk, drv, runs)
        compare_settings_with_model(chk, drv)
        if runs:
            chk.sample(dict(events=runs[-1].events[:12], digest_after_last=runs[-1].digests[-1]))
        chk.extra["windows_created"] = env.windows
    finally:
        env.close()


def replay(rp):
    inp = rp.get("input") or {}
    if inp.get("kind") == "funcs" and inp.get("keys"):
        env = Env()
        try:
            chk = core.Check("C19", "quick", 1)
            env.container_check(chk, [tuple(int(v) for v in k.split(".")) for k in inp["keys"]], int(inp["twin"]), int(inp["filt"]), bool(inp.get("minima")),
                                cfg=tuple(inp.get("cfg") or DEFAULT_CFG))
            for f in chk.failing[:8]:
                print("FAILS: %s\n   input %s\n   series %s\n   expected %s\n   observed %s" % (f["oracle"], f["input"], f.get("series"), f["expected"], f["observed"]))
            print("replay: %d failing clause(s)" % len(chk.failing))
            return 1 if chk.failing else 0
        finally:
            env.close()
    if inp.get("kind") == "funcs":
        env = Env()
        try:
            chk = core.Check("C19", "quick", 1)
            try:
                env.selfcheck(chk)
            except core.InfraError as e:
                print("reference data:", e)
            hits = [f for f in chk.failing if f["input"] == inp] or chk.failing
            for f in hits[:5]:
                print("FAILS: %s\n   input %s\n   expected %s\n   observed %s" % (f["oracle"], f["input"], f["expected"], f["observed"]))
            print("replay: %d failing clause(s)" % len(hits))
            return 1 if hits else 0
        finally:
            env.close()
    if inp.get("kind") == "settings-dialog":
        env = Env()
        try:
            r = Runner(env, None, fresh=True)
            b = inp["before"]
            env.win.settings.update({"psd_normalized": bool(b[0]), "psd_nperseg": int(b[1]), "rfc_nbins": int(b[2]), "twin_ndec": int(b[3])})
            del SETTINGS_LOG[:]
            r.do("set:%d:%s" % (1 if inp["ok"] else 0, ":".join("-" if v is None else str(int(v)) for v in inp["edits"])))
            before, acc, vals, after = SETTINGS_LOG[-1]
            want = list(before)
            if acc:
                if vals[0] is not None:
                    want[0] = bool(vals[0])
                if vals[1] is not None:
                    want[1] = max(100, min(100000, int(vals[1])))
                if vals[2] is not None:
                    want[2] = max(10, min(1000, int(vals[2])))
            print("settings before", list(before), "dialog", "OK" if acc else "Cancel", list(vals), "-> after", list(after), "expected", want)
            bad = list(after) != want
            print("replay: %d failing clause(s)" % (1 if bad else 0))
            return 1 if bad else 0
        finally:
            env.close()
    if not inp.get("events"):
        print("re-run ./check C19 %s (no single history to replay)" % rp.get("tier", "quick"))
        return 1
    env = Env()
    try:
        r = Runner(env, None, fresh=True)
        import warnings
        with warnings.catch_warnings():
            if inp.get("warnings_as_errors"):       # the process state of the failing run is part of the input
                warnings.simplefilter("error", UserWarning)
                warnings.simplefilter("error", RuntimeWarning)
            for e in inp["events"]:
                r.do(e)
            r.drain()
        for oracle, exp, obs, extra in r.fails:
            print("FAILS: %s\n   expected %s\n   observed %s" % (oracle, exp, obs))
        print("replay: %d failing clause(s) after %d events" % (len(r.fails), len(r.events)))
        return 1 if r.fails else 0
    finally:
        env.close()
