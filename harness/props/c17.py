"""
C17 — the extreme-value chain from peaks to quantiles is coherent.

Tie: translator (weibull2gumbel, Gumbel.fit_from_weibull_parameters; identities re-proved each run) + Float
correspondence of the three entry points with the generated formulas.
Search: gloc = Weibull (1-1/n)-quantile, gscale = 1/(n·pdf(gloc)) on the implementation; statistics summary
(`TimeSeries.stats`, `TsDB.stats`, `app.funcs.calculate_stats`): consistency with its parts, affine equivariance,
minima = mirrored maxima; the same chain through the fitted-distribution entry points (`Weibull.fit`, `Weibull.fromsignal`,
`TimeSeries.fit_weibull`) on samples with and without exact ties.

Every generated case is a self-contained JSON dict (`kind` = w2g / fit / summary) that `replay()` re-evaluates.
"""
import math
import random

import numpy as np

from .. import core
from ..core import fbits, unfbits
from .c05 import close

USES_TRANSLATOR = True
ANCHOR_PREFIX = ("w2g_", "wfw_", "wb_invcdf", "wb_pdf")
RULE = ("seeded Weibull parameters (loc in [-20,20], scale log-uniform, shape in [0.6,6]) x n in [2, 1e6]; fitted distributions on "
        "seeded samples (continuous / one decimal / integer-valued = exact ties; ndarray or list; drawn / ascending / descending) "
        "x pwm / msm; seeded multi-tone + noise signals (600-3000 samples, >= 2 global maxima, quantised to 1/1024, 1/8 or 1/2 = "
        "tied maxima) x affine maps with a = 2^k, b integer x windows / low-pass filter x maxima / minima x durations x 2-4 "
        "quantiles listed in ANY order (tuple / list / ndarray) x a preceding different query on the same object; "
        "non-trivial = every case; distinct by input")
QPOOL = [0.0, 0.05, 0.1, 0.37, 0.5, 0.57, 0.9, 0.95, 0.99]


def make_signal(sig_seed, n, step=1. / 1024, level=0.0):
    """seeded multi-tone + noise signal, dyadic quantisation so that x -> a*x + b (a = 2^k, b integer) is exact in floating
    point; a coarse step gives plateaus and global maxima with exactly equal values"""
    rng = random.Random(sig_seed)
    t = np.arange(n) * 0.5
    x = np.zeros(n)
    for _ in range(rng.choice([2, 3, 5])):
        x += rng.uniform(0.3, 2.0) * np.sin(2 * np.pi * rng.uniform(0.01, 0.12) * t + rng.uniform(0, 6.28))
    nr = np.random.RandomState(rng.randint(0, 10 ** 6))
    x += 0.2 * nr.standard_normal(n)
    x = np.round(x / step) * step + level
    return t, x


def pkey(q):
    return "p_%.2f" % (100 * q)


def fl(v):
    return [float(u) for u in v]


def allclose(a, b, rel):
    a, b = list(a), list(b)
    return len(a) == len(b) and all(close(float(u), float(v), rel) for u, v in zip(a, b))


# ---- fitted distribution -----------------------------------------------------------------------------------------------------------
def fit_data(inp):
    from qats.stats.weibull import Weibull
    data = Weibull(*inp["w0"]).rnd(size=inp["size"], seed=inp["seed"])
    if inp.get("decimals") is not None:
        data = np.round(data, inp["decimals"])
    if inp.get("order") == "ascending":
        data = np.sort(data)
    elif inp.get("order") == "descending":
        data = np.sort(data)[::-1].copy()
    return data


def fit_clauses(inp):
    """failing clauses [(oracle, expected, observed)] of the entry point 'distribution fitted to a sample of n peaks'"""
    from qats.stats import weibull as wb
    data = fit_data(inp)
    m = int(data.size)
    nn = inp["n"]
    try:
        ref = tuple(float(v) for v in getattr(wb, inp["method"])(np.array(data)))
        if not all(np.isfinite(ref)) or ref[1] <= 0 or ref[2] <= 0:
            return []
        g_exp, g_def = wb.weibull2gumbel(*ref, nn), wb.weibull2gumbel(*ref, m)
        if not all(np.isfinite(fl(g_exp + g_def))):
            return []
    except Exception:                                   # degenerate sample: no reference chain
        return []
    fails = []
    arg = data.tolist() if inp.get("aslist") else data.copy()
    try:
        wf = wb.Weibull.fit(arg, method=inp["method"])
        g_got_def0 = wf.gumbel_parameters()
        g_got = wf.gumbel_parameters(n=nn)
        g_got_def = wf.gumbel_parameters()              # the default must not remember the explicit n
        wf2 = wb.Weibull.fit(arg, method=inp["method"])  # same sample object again
        obs = dict(params=fl(wf.params), params_again=fl(wf2.params), held=int(np.size(wf.data)))
    except Exception as e:
        return [("Weibull.fit(sample).gumbel_parameters is an entry point of the chain (must not raise)", "parameters", repr(e))]
    if not (allclose(ref, wf.params, 1e-12) and allclose(ref, wf2.params, 1e-12) and obs["held"] == m):
        fails.append(("the Weibull peak distribution of Weibull.fit(sample) is the estimator's fit to all n peaks of the sample "
                      "(ties included) and holds n peaks", dict(params=list(ref), held=m), obs))
    if not (allclose(g_exp, g_got, 1e-12) and allclose(g_def, g_got_def, 1e-12) and allclose(g_def, g_got_def0, 1e-12)):
        fails.append(("the three entry points give identical Gumbel parameters (fitted distribution: explicit n honoured, default "
                      "n = sample size)", fl(g_exp + g_def), fl(g_got + g_got_def + g_got_def0)))
    return fails


# ---- statistics summary ------------------------------------------------------------------------------------------------------------
def summary_kwargs(inp):
    kw = {}
    for k, v in (inp.get("kwargs") or {}).items():
        kw[k] = tuple(v) if isinstance(v, (list, tuple)) else v
    return kw


def summary_quantiles(inp):
    q = [float(v) for v in inp["quantiles"]]
    return {"tuple": tuple(q), "list": list(q), "array": np.array(q)}[inp.get("qtype", "tuple")]


def summary_clauses(inp, dist=None):
    """failing clauses [(oracle, extra_input, expected, observed)] of the statistics summary for one self-contained case"""
    from qats import TimeSeries, TsDB
    from qats.stats.weibull import Weibull, weibull2gumbel
    from qats.stats.gumbel import Gumbel
    from qats.app.funcs import calculate_stats
    fails = []
    t, x = make_signal(inp["sig_seed"], inp["n"], inp.get("step", 1. / 1024), inp.get("level", 0.0))
    n = inp["n"]
    kw = summary_kwargs(inp)
    statsdur, ismin = inp["statsdur"], inp["is_minima"]
    qlist = [float(v) for v in inp["quantiles"]]
    quant = summary_quantiles(inp)
    sign = -1.0 if ismin else 1.0
    ts = TimeSeries("s", t, x)
    try:
        if inp.get("prior"):
            # history: a different query on the same object first
            ts.stats(statsdur=3600. if statsdur != 3600. else 1000., quantiles=(0.5, 0.1), is_minima=not ismin,
                     twin=(float(t[n // 4]), float(t[-1])))
        s = ts.stats(statsdur=statsdur, quantiles=quant, is_minima=ismin, include_sample=True, **kw)
        tt, xx = ts.get(**kw)
    except Exception as e:
        return [("TimeSeries.stats is an entry point of the chain (must not raise)", {}, "summary", repr(e))]
    if s["sample"] is None or np.size(s["sample"]) < 2:
        if dist:
            dist("stats:too-few-maxima")
        return fails
    msize = int(np.size(s["sample"]))
    ties = msize - int(np.unique(s["sample"]).size)
    if dist:
        dist("stats:%s:%s:%s:%s" % ("min" if ismin else "max", "twin" if "twin" in kw else ("filter" if kw else "plain"),
                                    "tied-peaks" if ties else "distinct-peaks",
                                    "q-ascending" if qlist == sorted(qlist) else "q-unordered"))
    missing = [pkey(q) for q in qlist if pkey(q) not in s]
    if missing:
        return [("the summary has one estimate p_XX per requested quantile", {}, [pkey(q) for q in qlist], missing)]
    pv = [float(s[pkey(q)]) for q in qlist]
    dur = float(tt[-1] - tt[0])
    ok = (s["min"] <= s["mean"] <= s["max"] and close(s["duration"], tt[-1] - tt[0], 1e-12) and s["start"] == tt[0] and
          s["end"] == tt[-1] and close(s["dtavg"], float(np.mean(np.diff(tt))), 1e-12) and
          s["min"] == xx.min() and s["max"] == xx.max() and close(s["mean"], float(xx.mean()), 1e-12))
    if not ok:
        fails.append(("summary consistent with its parts (min <= mean <= max, start/end/duration, mean step)", {}, "consistent",
                      {a: float(s[a]) for a in ("min", "mean", "max", "start", "end", "duration", "dtavg")}))
    wpar = fl(s[k] for k in ("wloc", "wscale", "wshape"))
    nn = round(statsdur / (tt[-1] - tt[0]) * msize)
    if not any(np.isnan(pv)):
        # (a quantile at probability 0 is the lower end of the support: -inf for maxima, +inf for the mirrored minima)
        byq = sorted(zip(qlist, pv))
        inc = all((sign * b[1] > sign * a[1]) for a, b in zip(byq, byq[1:]) if b[0] > a[0])
        if not inc:
            fails.append(("quantile estimates monotone in the probability (increasing for maxima, mirrored for minima), whatever "
                          "the order they are requested in", {}, "monotone", [list(v) for v in byq]))
        # chain: gumbel quantiles of the reported parameters
        gl, gs = weibull2gumbel(s["wloc"], s["wscale"], s["wshape"], nn)
        exp = [sign * float(v) for v in Gumbel(gl, gs).invcdf(p=np.array(qlist))]
        if not (close(gl, s["gloc"], 1e-12) and close(gs, s["gscale"], 1e-12) and all(close(a, b, 1e-12) for a, b in zip(exp, pv))):
            fails.append(("quantiles are those of the Gumbel derived from the reported Weibull parameters and n = "
                          "round(statsdur/duration*#maxima): p_XX is its XX % quantile", {},
                          dict(gloc=float(gl), gscale=float(gs), p=dict(zip(map(pkey, qlist), exp))),
                          dict(gloc=float(s["gloc"]), gscale=float(s["gscale"]), p=dict(zip(map(pkey, qlist), pv)))))
        # the property's defining clauses on the reported numbers
        # (pwm can return a negative scale and shape for a sample: not a Weibull distribution, outside the quantifier)
        if nn >= 2 and all(np.isfinite(wpar)) and wpar[1] > 0 and wpar[2] > 0 and np.isfinite(s["gloc"]) and np.isfinite(s["gscale"]):
            w = Weibull(*wpar)
            q1 = float(w.invcdf(p=[1 - 1 / nn])[0])
            f1 = float(w.pdf(x=[float(s["gloc"])])[0])
            if abs(q1 - s["gloc"]) > 1e-9 * (abs(q1) + wpar[1]) + wpar[1] * 1e-9 or not close(1 / (nn * f1), float(s["gscale"]), 1e-8):
                fails.append(("reported gloc is the 1-1/n quantile of the reported Weibull and gscale == 1/(n * density there)", {},
                              [q1, 1 / (nn * f1)], [float(s["gloc"]), float(s["gscale"])]))
    # entry points on the same (possibly tied) peaks: fitted distribution from the signal, and the summary with statsdur = duration
    if all(np.isfinite(wpar)):
        try:
            ws = [("Weibull.fromsignal", Weibull.fromsignal(sign * xx, method="pwm"))]
            if "filterargs" not in kw:
                tsf = ts if not ismin else TimeSeries("s", t, -x)
                ws.append(("TimeSeries.fit_weibull", tsf.fit_weibull(twin=kw.get("twin"), method="pwm")))
            sd = ts.stats(statsdur=dur, quantiles=quant, is_minima=ismin, **kw)       # n == number of peaks
            for nm, w in ws:
                if not (allclose(w.params, wpar, 1e-12) and int(np.size(w.data)) == msize):
                    fails.append(("the Weibull peak distribution is the same through every entry point (%s vs. summary: parameters "
                                  "and number of peaks)" % nm, {}, dict(params=wpar, peaks=msize),
                                  dict(params=fl(w.params), peaks=int(np.size(w.data)))))
                if np.isfinite(s["gloc"]) and np.isfinite(s["gscale"]) and nn >= 2:
                    g_n, g_d = w.gumbel_parameters(n=nn), w.gumbel_parameters()
                    if not (allclose(g_n, (s["gloc"], s["gscale"]), 1e-12) and allclose(g_d, (sd["gloc"], sd["gscale"]), 1e-12)):
                        fails.append(("Gumbel parameters identical through every entry point (%s.gumbel_parameters(n) / default n = "
                                      "number of peaks vs. summary with statsdur / statsdur = duration)" % nm, {},
                                      fl([s["gloc"], s["gscale"], sd["gloc"], sd["gscale"]]), fl(g_n + g_d)))
        except Exception as e:
            fails.append(("fitted-distribution entry points of the chain must not raise", {}, "parameters", repr(e)))
    # affine equivariance (exact map)
    a, b = inp["a"], inp["b"]
    kw2 = {} if "filterargs" in kw else kw
    s2 = TimeSeries("s", t, a * x + b).stats(statsdur=statsdur, quantiles=quant, is_minima=ismin, include_sample=True, **kw2)
    if "filterargs" not in kw and np.size(s2["sample"]) == msize and all(np.isfinite(pv)):
        # location-type fields of the fitted (possibly negated) sample
        loc_map = lambda v: a * v + sign * b
        tol = 1e-6
        checks = [("mean", a * s["mean"] + b), ("min", a * s["min"] + b), ("max", a * s["max"] + b), ("std", a * s["std"]),
                  ("skew", s["skew"]), ("kurt", s["kurt"]), ("tz", s["tz"]), ("wshape", s["wshape"]),
                  ("wloc", loc_map(s["wloc"])), ("wscale", a * s["wscale"]), ("gloc", loc_map(s["gloc"])), ("gscale", a * s["gscale"])]
        checks += [(pkey(q), a * s[pkey(q)] + b) for q in qlist]
        bad = [(nm, float(e), float(s2[nm])) for nm, e in checks
               if not ((np.isinf(e) and s2[nm] == e) or abs(s2[nm] - e) <= tol * (abs(e) + a * abs(s["wscale"]) + 1e-12))]
        if bad:
            fails.append(("summary transforms under x -> a*x+b as location/scale quantities; shape, skewness, kurtosis, tz invariant",
                          {}, [(x0[0], x0[1]) for x0 in bad], [(x0[0], x0[2]) for x0 in bad]))
    # mirror
    s3 = TimeSeries("s", t, -x).stats(statsdur=statsdur, quantiles=quant, is_minima=not ismin, include_sample=True, **kw2)
    if "filterargs" not in kw:
        same = all(close(float(s3[nm]), float(s[nm]), 1e-10) for nm in ("wloc", "wscale", "wshape", "gloc", "gscale"))
        neg = all(close(float(s3[pkey(q)]), -float(s[pkey(q)]), 1e-10) for q in qlist)
        if not (same and neg and np.allclose(np.sort(s3["sample"]), np.sort(-s["sample"]))):
            fails.append(("minima variant is the mirror image of the maxima variant of the negated signal", {},
                          [float(s[nm]) for nm in ("wloc", "wscale", "wshape", "gloc", "gscale")] + [-v for v in pv],
                          [float(s3[nm]) for nm in ("wloc", "wscale", "wshape", "gloc", "gscale")] + [float(s3[pkey(q)]) for q in qlist]))
    # fan-out: database and GUI function
    if inp.get("fanout"):
        try:
            db = TsDB()
            db.add(ts)
            d1 = db.stats(statsdur=statsdur, quantiles=quant, is_minima=ismin, **kw)
            key = list(d1.keys())[0]
            names = ["mean", "wloc", "wscale", "wshape", "gloc", "gscale"] + [pkey(q) for q in qlist]
            badn = [nm for nm in names if nm not in d1[key] or not close(float(d1[key][nm]), float(s[nm]), 1e-12)]
            if badn:
                fails.append(("TsDB.stats equals TimeSeries.stats", {}, {nm: float(s[nm]) for nm in badn},
                              {nm: float(d1[key].get(nm, np.nan)) for nm in badn}))
            twin = kw.get("twin", (t[0], t[-1]))
            g = calculate_stats({"s": ts}, twin, kw.get("filterargs"), minima=ismin)["s"]
            ref = ts.stats(twin=twin, filterargs=kw.get("filterargs"), statsdur=10800., quantiles=(0.37, 0.57, 0.9), is_minima=ismin,
                           include_sample=True)
            names = ("mean", "wloc", "gloc", "gscale", "p_37.00", "p_57.00", "p_90.00")
            badn = [nm for nm in names if not close(float(g[nm]), float(ref[nm]), 1e-12)]
            if badn:
                fails.append(("app.funcs.calculate_stats equals TimeSeries.stats with the GUI defaults", {},
                              {nm: float(ref[nm]) for nm in badn}, {nm: float(g[nm]) for nm in badn}))
            # GUI defaults obey the chain as well
            if all(np.isfinite([float(g[nm]) for nm in names])) and np.size(g["sample"]) >= 2:
                ng = round(10800. / (g["end"] - g["start"]) * np.size(g["sample"]))
                gl, gs = weibull2gumbel(g["wloc"], g["wscale"], g["wshape"], ng)
                exp = [sign * float(v) for v in Gumbel(gl, gs).invcdf(p=[0.37, 0.57, 0.9])]
                got = [float(g[nm]) for nm in ("p_37.00", "p_57.00", "p_90.00")]
                if not (close(float(gl), float(g["gloc"]), 1e-12) and close(float(gs), float(g["gscale"]), 1e-12) and allclose(exp, got, 1e-12)):
                    fails.append(("app.funcs.calculate_stats: quantiles are those of the Gumbel derived from the reported Weibull "
                                  "parameters and n", {}, [float(gl), float(gs)] + exp, [float(g["gloc"]), float(g["gscale"])] + got))
        except Exception as e:
            fails.append(("TsDB.stats / calculate_stats are entry points of the chain (must not raise)", {}, "summary", repr(e)))
    return fails


def gen_summary(rng, fanout, seed):
    n = rng.choice([600, 1200, 3000])
    t = np.arange(n) * 0.5
    kw = {}
    mode = rng.random()
    if mode < 0.3:
        kw["twin"] = [float(t[n // 10]), float(t[-n // 10])]
    elif mode < 0.5:
        kw["filterargs"] = ["lp", 0.2]
    quant = rng.sample(QPOOL, rng.choice([2, 3, 3, 4]))
    order = rng.random()
    if order < 0.35:
        quant = sorted(quant)                           # ascending, as the default
    elif order < 0.5:
        quant = sorted(quant, reverse=True)
    return dict(kind="summary", sig_seed=rng.randint(0, 10 ** 9), n=n, step=rng.choice([1. / 1024, 1. / 1024, 0.125, 0.5]),
                level=rng.choice([0.0, -5.0, 3.0]),           # also signals at a negative level
                kwargs=kw, statsdur=rng.choice([10800., 3600., 1000.]), quantiles=quant,
                qtype=rng.choice(["tuple", "tuple", "list", "array"]), is_minima=rng.random() < 0.4,
                a=rng.choice([0.5, 2.0, 4.0]), b=float(rng.randint(-8, 8)), prior=rng.random() < 0.4, fanout=fanout, verif_seed=seed)


# ---- Weibull -> Gumbel formulas ------------------------------------------------------------------------------------------------------
def w2g_clauses(inp):
    from qats.stats.weibull import Weibull, weibull2gumbel
    from qats.stats.gumbel import Gumbel
    loc, scale, shape, n = inp["loc"], inp["scale"], inp["shape"], inp["n"]
    fails = []
    g1 = weibull2gumbel(loc, scale, shape, n)
    g2 = Weibull(loc, scale, shape).gumbel_parameters(n=n)
    g3o = Gumbel.fit_from_weibull_parameters(loc, scale, shape, n)
    g3 = (g3o.loc, g3o.scale)
    if not all(close(float(a), float(b), 1e-12) for a, b in zip(g1 + g1, g2 + g3)):
        fails.append(("the three entry points give identical Gumbel parameters", fl(g1), fl(g2 + g3)))
    w = Weibull(loc, scale, shape)
    q = float(w.invcdf(p=[1 - 1 / n])[0])
    if abs(q - g1[0]) > 1e-9 * (abs(q) + scale) + scale * 1e-9:
        fails.append(("gloc is the Weibull 1-1/n quantile", q, float(g1[0])))
    f = float(w.pdf(x=[g1[0]])[0])
    if not close(1 / (n * f), float(g1[1]), 1e-8):
        fails.append(("gscale == 1/(n * Weibull density at gloc)", 1 / (n * f), float(g1[1])))
    return fails, g1, g3


def run(chk):
    from qats import TimeSeries
    chk.extra["rule"] = RULE
    chk.partial += ["statistics summary: composed of C11 (pipeline), C14 (maxima), C16 (pwm) and the identities proved here; its "
                    "consistency / equivariance / mirror clauses are checked on the implementation, not restated as one theorem"]
    rng = chk.rng
    corpus = core.load_corpus("C17")
    drv = core.Driver()
    N = 200 if chk.quick else 3000
    lines, meta = [], []
    for _ in range(N):
        loc = rng.choice([0.0, round(rng.uniform(-20, 20), 3)])
        scale = round(10 ** rng.uniform(-1, 1.5), 4)
        shape = rng.choice([1.0, 2.0, round(rng.uniform(0.6, 6), 3)])
        n = float(rng.choice([2, 3, 10, 100, 2437, 10 ** 6, round(10 ** rng.uniform(0.4, 6), 2)]))
        meta.append((loc, scale, shape, n))
        lines.append("gen.w2g_loc %s" % " ".join(fbits(v) for v in (loc, n, scale, shape)))
        lines.append("gen.w2g_scale %s" % " ".join(fbits(v) for v in (n, scale, shape)))
        lines.append("gen.wfw_loc %s" % " ".join(fbits(v) for v in (n, loc, scale, shape)))
        lines.append("gen.wfw_scale %s" % " ".join(fbits(v) for v in (n, scale, shape)))
    outs = drv.run(lines)
    for i, (loc, scale, shape, n) in enumerate(meta):
        m = [unfbits(o.split()[1]) for o in outs[4 * i:4 * i + 4]]
        inp = dict(loc=loc, scale=scale, shape=shape, n=n)
        chk.count("w2g")
        chk.nontriv(repr(inp))
        try:
            fails, g1, g3 = w2g_clauses(inp)
        except Exception as e:
            chk.fail("the three entry points give identical Gumbel parameters (must not raise)", inp, "parameters", repr(e))
            continue
        if not (close(m[0], g1[0]) and close(m[1], g1[1]) and close(m[2], g3[0]) and close(m[3], g3[1])):
            chk.disagree("w2g", inp, m, [float(v) for v in g1 + g3])
        for f in fails:
            chk.fail(f[0], inp, f[1], f[2])
    # entry point on a fitted distribution (sample attached): an explicit n is honoured, the default is the sample size.
    # Samples: continuous, logged with one decimal, integer-valued (exact ties), given as ndarray or list, any order
    fits = [c for c in corpus if c.get("kind") == "fit"]
    for _ in range(40 if chk.quick else 400):
        fits.append(dict(kind="fit", w0=[round(rng.uniform(0, 5), 2), round(rng.uniform(0.5, 4), 2), rng.choice([1.5, 2.0, 3.0])],
                         size=rng.choice([30, 80]), seed=rng.randint(0, 10 ** 6), decimals=rng.choice([None, None, 1, 0]),
                         order=rng.choice(["drawn", "ascending", "descending"]), aslist=rng.random() < 0.3,
                         method=rng.choice(["pwm", "pwm", "msm"]), n=float(rng.choice([7, 1000, 12345]))))
    for inp in fits:
        chk.count("w2g-fitted")
        chk.nontriv(repr(inp))
        chk.dist("fit:%s:%s" % (inp["method"], {None: "continuous", 1: "one-decimal", 0: "integer"}[inp.get("decimals")]))
        for f in fit_clauses(inp):
            chk.fail(f[0], inp, f[1], f[2])
    chk.sample(dict(loc=meta[0][0], scale=meta[0][1], shape=meta[0][2], n=meta[0][3]))
    chk.sample(fits[-1])
    # ---- correspondence of the extreme-value chain of the summary with Qats.Stats.summary (Float) ---------------------------------
    sl, sm = [], []
    for k in range(12 if chk.quick else 150):
        n = rng.choice([600, 1200])
        sig = dict(sig_seed=rng.randint(0, 10 ** 9), n=n, step=1. / 1024, level=rng.choice([0.0, -5.0, 3.0]))
        t, x = make_signal(**sig)
        ismin = rng.random() < 0.5
        sd = rng.choice([10800., 3600., 1000.])
        qs = [0.37, 0.57, 0.9]
        rng.shuffle(qs)                                 # quantiles in any order: reply compared position by position
        ts = TimeSeries("s", t, x)
        s_ = ts.stats(statsdur=sd, quantiles=tuple(qs), is_minima=ismin, include_sample=True)
        dur = float(t[-1] - t[0])
        sl.append("st.summary %d %s %s %s %s" % (ismin, fbits(sd), fbits(dur), ",".join(fbits(q) for q in qs), " ".join(fbits(v) for v in x)))
        sm.append((s_, dict(sig, statsdur=sd, is_minima=ismin, quantiles=list(qs)), list(qs)))
    for (s_, inp, qs), o in zip(sm, drv.run(sl)):
        chk.count("st.summary")
        if o.strip() == "ok none":
            if np.size(s_["sample"]) > 1:
                chk.disagree("st.summary", inp, o, "summary with %d maxima" % np.size(s_["sample"]))
            continue
        a, b, c = o[3:].split("|")
        mv = [unfbits(v) for v in a.split()] + [unfbits(v) for v in b.split()]
        im = [float(s_[k2]) for k2 in ("wloc", "wscale", "wshape", "gloc", "gscale")] + [float(s_.get(pkey(q), np.nan)) for q in qs]
        if int(c) != np.size(s_["sample"]) or not all(close(x1, x2, 1e-8) or (np.isnan(x1) and np.isnan(x2)) for x1, x2 in zip(mv, im)):
            chk.disagree("st.summary", inp, mv, im)
    # ---- statistics summary ------------------------------------------------------------------------------------------------
    S = 30 if chk.quick else 300
    cases = [c for c in corpus if c.get("kind") == "summary"]
    cases += [gen_summary(rng, k < (8 if chk.quick else 40), chk.seed) for k in range(S)]
    for inp in cases:
        chk.count("stats")
        chk.nontriv(repr(inp))
        try:
            fails = summary_clauses(inp, chk.dist)
        except Exception as e:
            fails = [("the statistics summary and its entry points must not raise", {}, "summary", repr(e))]
        for f in fails:
            chk.fail(f[0], dict(inp, **f[1]), f[2], f[3])
    chk.sample(cases[-1])


def replay(rp):
    inp = rp["input"]
    kind = inp.get("kind") or ("w2g" if "shape" in inp else None)
    if kind == "w2g":
        fails = [(f[0], f[1], f[2]) for f in w2g_clauses(inp)[0]]
    elif kind == "fit":
        fails = fit_clauses(inp)
    elif kind == "summary":
        fails = [(f[0], f[2], f[3]) for f in summary_clauses(inp)]
    else:
        print("unknown input kind; re-run with the run's seed: VERIF_SEED=%s ./check C17 %s" % (inp.get("verif_seed"), rp.get("tier", "quick")))
        return 1
    for f in fails:
        print("FAILS: %s\n   expected %s\n   observed %s" % f)
    print("replay: %d failing clause(s)" % len(fails))
    return 1 if fails else 0
