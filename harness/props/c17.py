"""
C17 — the extreme-value chain from peaks to quantiles is coherent.

Tie: translator (weibull2gumbel, Gumbel.fit_from_weibull_parameters; identities re-proved each run) + Float
correspondence of the three entry points with the generated formulas.
Search: gloc = Weibull (1-1/n)-quantile, gscale = 1/(n·pdf(gloc)) on the implementation; statistics summary
(`TimeSeries.stats`, `TsDB.stats`, `app.funcs.calculate_stats`): consistency with its parts, affine equivariance,
minima = mirrored maxima.
"""
import math

import numpy as np

from .. import core
from ..core import fbits, unfbits
from .c05 import close

USES_TRANSLATOR = True
ANCHOR_PREFIX = ("w2g_", "wfw_", "wb_invcdf", "wb_pdf")
RULE = ("seeded Weibull parameters (loc in [-20,20], scale log-uniform, shape in [0.6,6]) x n in [2, 1e6]; seeded multi-tone + noise "
        "signals (600-3000 samples, >= 2 global maxima) x affine maps with a = 2^k, b integer x windows / low-pass filter x "
        "maxima / minima x durations and quantiles; non-trivial = every case; distinct by input")


def signal(rng, n):
    t = np.arange(n) * 0.5
    x = np.zeros(n)
    for _ in range(rng.choice([2, 3, 5])):
        x += rng.uniform(0.3, 2.0) * np.sin(2 * np.pi * rng.uniform(0.01, 0.12) * t + rng.uniform(0, 6.28))
    nr = np.random.RandomState(rng.randint(0, 10 ** 6))
    x += 0.2 * nr.standard_normal(n)
    # dyadic quantisation so that x -> a*x + b (a = 2^k, b integer) is exact in floating point
    x = np.round(x * 1024) / 1024
    return t, x


def run(chk):
    from qats import TimeSeries, TsDB
    from qats.stats.weibull import Weibull, weibull2gumbel
    from qats.stats.gumbel import Gumbel
    from qats.app.funcs import calculate_stats
    chk.extra["rule"] = RULE
    chk.partial += ["statistics summary: composed of C11 (pipeline), C14 (maxima), C16 (pwm) and the identities proved here; its "
                    "consistency / equivariance / mirror clauses are checked on the implementation, not restated as one theorem"]
    rng = chk.rng
    drv = core.Driver()
    N = 200 if chk.quick else 3000
    lines, meta = [], []
    for _ in range(N):
        loc = rng.choice([0.0, round(rng.uniform(-20, 20), 3)])
        scale = round(10 ** rng.uniform(-1, 1.5), 4)
        shape = rng.choice([1.0, 2.0, round(rng.uniform(0.6, 6), 3)])
        n = float(rng.choice([2, 3, 10, 100, 2437, 10 ** 6, round(10 ** rng.uniform(0.4, 6), 2)]))
        meta.append((loc, scale, shape, n))
        lines.append("gen.w2g_loc %s" % " ".join(fbits(v) for v in (loc, n, scale, shape)))
        lines.append("gen.w2g_scale %s" % " ".join(fbits(v) for v in (n, scale, shape)))
        lines.append("gen.wfw_loc %s" % " ".join(fbits(v) for v in (n, loc, scale, shape)))
        lines.append("gen.wfw_scale %s" % " ".join(fbits(v) for v in (n, scale, shape)))
    outs = drv.run(lines)
    for i, (loc, scale, shape, n) in enumerate(meta):
        m = [unfbits(o.split()[1]) for o in outs[4 * i:4 * i + 4]]
        inp = dict(loc=loc, scale=scale, shape=shape, n=n)
        chk.count("w2g")
        chk.nontriv(repr(inp))
        g1 = weibull2gumbel(loc, scale, shape, n)
        g2 = Weibull(loc, scale, shape).gumbel_parameters(n=n)
        g3o = Gumbel.fit_from_weibull_parameters(loc, scale, shape, n)
        g3 = (g3o.loc, g3o.scale)
        if not (close(m[0], g1[0]) and close(m[1], g1[1]) and close(m[2], g3[0]) and close(m[3], g3[1])):
            chk.disagree("w2g", inp, m, [float(v) for v in g1 + g3])
        if not all(close(float(a), float(b), 1e-12) for a, b in zip(g1 + g1, g2 + g3)):
            chk.fail("the three entry points give identical Gumbel parameters", inp, [float(v) for v in g1],
                     [float(v) for v in g2 + g3])
        w = Weibull(loc, scale, shape)
        q = float(w.invcdf(p=[1 - 1 / n])[0])
        if abs(q - g1[0]) > 1e-9 * (abs(q) + scale) + scale * 1e-9:
            chk.fail("gloc is the Weibull 1-1/n quantile", inp, q, float(g1[0]))
        f = float(w.pdf(x=[g1[0]])[0])
        if not close(1 / (n * f), float(g1[1]), 1e-8):
            chk.fail("gscale == 1/(n * Weibull density at gloc)", inp, 1 / (n * f), float(g1[1]))
    # entry point on a fitted distribution (sample attached): an explicit n is honoured, the default is the sample size
    for _ in range(20 if chk.quick else 200):
        w0 = Weibull(round(rng.uniform(0, 5), 2), round(rng.uniform(0.5, 4), 2), rng.choice([1.5, 2.0, 3.0]))
        data = w0.rnd(size=rng.choice([30, 80]), seed=rng.randint(0, 10 ** 6))
        wf = Weibull.fit(data, method="pwm")
        if not all(np.isfinite(wf.params)):
            continue
        nn = float(rng.choice([7, 1000, 12345]))
        chk.count("w2g-fitted")
        inp = dict(fitted=[float(v) for v in wf.params], n=nn, sample_size=int(data.size))
        g_exp, g_def = weibull2gumbel(*wf.params, nn), weibull2gumbel(*wf.params, data.size)
        g_got, g_got_def = wf.gumbel_parameters(n=nn), wf.gumbel_parameters()
        if not (all(close(float(a), float(b), 1e-12) for a, b in zip(g_exp, g_got)) and
                all(close(float(a), float(b), 1e-12) for a, b in zip(g_def, g_got_def))):
            chk.fail("the three entry points give identical Gumbel parameters (fitted distribution: explicit n honoured, default n = sample size)",
                     inp, [float(v) for v in g_exp + g_def], [float(v) for v in g_got + g_got_def])
    chk.sample(dict(loc=meta[0][0], scale=meta[0][1], shape=meta[0][2], n=meta[0][3]))
    # ---- correspondence of the extreme-value chain of the summary with Qats.Stats.summary (Float) ---------------------------------
    sl, sm = [], []
    for k in range(12 if chk.quick else 150):
        n = rng.choice([600, 1200])
        t, x = signal(rng, n)
        x = x + rng.choice([0.0, -5.0, 3.0])
        ismin = rng.random() < 0.5
        sd = rng.choice([10800., 3600., 1000.])
        qs = (0.37, 0.57, 0.9)
        ts = TimeSeries("s", t, x)
        s_ = ts.stats(statsdur=sd, quantiles=qs, is_minima=ismin, include_sample=True)
        dur = float(t[-1] - t[0])
        sl.append("st.summary %d %s %s %s %s" % (ismin, fbits(sd), fbits(dur), ",".join(fbits(q) for q in qs), " ".join(fbits(v) for v in x)))
        sm.append((s_, dict(signal_seed=k, n=n, statsdur=sd, is_minima=ismin)))
    for (s_, inp), o in zip(sm, drv.run(sl)):
        chk.count("st.summary")
        if o.strip() == "ok none":
            if np.size(s_["sample"]) > 1:
                chk.disagree("st.summary", inp, o, "summary with %d maxima" % np.size(s_["sample"]))
            continue
        a, b, c = o[3:].split("|")
        mv = [unfbits(v) for v in a.split()] + [unfbits(v) for v in b.split()]
        im = [float(s_[k2]) for k2 in ("wloc", "wscale", "wshape", "gloc", "gscale")] + [float(s_["p_%.2f" % (100 * q)]) for q in (0.37, 0.57, 0.9)]
        if int(c) != np.size(s_["sample"]) or not all(close(x1, x2, 1e-8) or (np.isnan(x1) and np.isnan(x2)) for x1, x2 in zip(mv, im)):
            chk.disagree("st.summary", inp, mv, im)
    # ---- statistics summary ------------------------------------------------------------------------------------------------
    S = 25 if chk.quick else 250
    for k in range(S):
        n = rng.choice([600, 1200, 3000])
        t, x = signal(rng, n)
        x = x + rng.choice([0.0, -5.0, 3.0])            # also signals at a negative level
        ts = TimeSeries("s", t, x)
        kw = {}
        mode = rng.random()
        if mode < 0.3:
            kw["twin"] = (float(t[n // 10]), float(t[-n // 10]))
        elif mode < 0.5:
            kw["filterargs"] = ("lp", 0.2)
        statsdur = rng.choice([10800., 3600., 1000.])
        quant = tuple(sorted(rng.sample([0.0, 0.1, 0.37, 0.5, 0.57, 0.9, 0.99], 3)))
        ismin = rng.random() < 0.4
        inp = dict(signal_seed=k, n=n, kwargs={a: list(b) if isinstance(b, tuple) else b for a, b in kw.items()},
                   statsdur=statsdur, quantiles=quant, is_minima=ismin, verif_seed=chk.seed)
        chk.count("stats")
        chk.nontriv(repr(inp))
        s = ts.stats(statsdur=statsdur, quantiles=quant, is_minima=ismin, include_sample=True, **kw)
        tt, xx = ts.get(**kw)
        if s["sample"] is None or np.size(s["sample"]) < 2:
            chk.dist("stats:too-few-maxima")
            continue
        chk.dist("stats:%s:%s" % ("min" if ismin else "max", "twin" if "twin" in kw else ("filter" if kw else "plain")))
        pv = [s["p_%.2f" % (100 * q)] for q in quant]
        ok = (s["min"] <= s["mean"] <= s["max"] and close(s["duration"], tt[-1] - tt[0], 1e-12) and s["start"] == tt[0] and
              s["end"] == tt[-1] and close(s["dtavg"], float(np.mean(np.diff(tt))), 1e-12) and
              s["min"] == xx.min() and s["max"] == xx.max() and close(s["mean"], float(xx.mean()), 1e-12))
        if not ok:
            chk.fail("summary consistent with its parts (min <= mean <= max, start/end/duration, mean step)", inp, "consistent",
                     {a: float(s[a]) for a in ("min", "mean", "max", "start", "end", "duration", "dtavg")})
        if not any(np.isnan(pv)):
            # (a quantile at probability 0 is the lower end of the support: -inf for maxima, +inf for the mirrored minima)
            inc = all(b > a for a, b in zip(pv, pv[1:])) if not ismin else all(b < a for a, b in zip(pv, pv[1:]))
            if not inc:
                chk.fail("quantile estimates monotone in the probability (increasing for maxima, mirrored for minima)", inp,
                         "monotone", [float(v) for v in pv])
            # chain: gumbel quantiles of the reported parameters
            nn = round(statsdur / (tt[-1] - tt[0]) * np.size(s["sample"]))
            gl, gs = weibull2gumbel(s["wloc"], s["wscale"], s["wshape"], nn)
            sign = -1.0 if ismin else 1.0
            exp = [sign * float(v) for v in Gumbel(gl, gs).invcdf(p=quant)]
            if not (close(gl, s["gloc"], 1e-12) and close(gs, s["gscale"], 1e-12) and all(close(a, b, 1e-12) for a, b in zip(exp, pv))):
                chk.fail("quantiles are those of the Gumbel derived from the reported Weibull parameters and n = round(statsdur/duration*#maxima)",
                         inp, exp, [float(v) for v in pv])
        # affine equivariance (exact map)
        a, b = rng.choice([0.5, 2.0, 4.0]), float(rng.randint(-8, 8))
        s2 = TimeSeries("s", t, a * x + b).stats(statsdur=statsdur, quantiles=quant, is_minima=ismin, include_sample=True,
                                                 **({} if "filterargs" in kw else kw))
        if "filterargs" not in kw and np.size(s2["sample"]) == np.size(s["sample"]) and all(np.isfinite(pv)):
            sign = -1.0 if ismin else 1.0
            # location-type fields of the fitted (possibly negated) sample
            loc_map = lambda v: a * v + sign * b
            tol = 1e-6
            checks = [("mean", a * s["mean"] + b), ("min", a * s["min"] + b), ("max", a * s["max"] + b), ("std", a * s["std"]),
                      ("skew", s["skew"]), ("kurt", s["kurt"]), ("tz", s["tz"]), ("wshape", s["wshape"]),
                      ("wloc", loc_map(s["wloc"])), ("wscale", a * s["wscale"]), ("gloc", loc_map(s["gloc"])), ("gscale", a * s["gscale"])]
            checks += [("p_%.2f" % (100 * q), a * s["p_%.2f" % (100 * q)] + b) for q in quant]
            bad = [(nm, float(e), float(s2[nm])) for nm, e in checks
                   if not ((np.isinf(e) and s2[nm] == e) or abs(s2[nm] - e) <= tol * (abs(e) + a * abs(s["wscale"]) + 1e-12))]
            if bad:
                chk.fail("summary transforms under x -> a*x+b as location/scale quantities; shape, skewness, kurtosis, tz invariant",
                         dict(inp, a=a, b=b), [(x0[0], x0[1]) for x0 in bad], [(x0[0], x0[2]) for x0 in bad])
        # mirror
        s3 = TimeSeries("s", t, -x).stats(statsdur=statsdur, quantiles=quant, is_minima=not ismin, include_sample=True,
                                          **({} if "filterargs" in kw else kw))
        if "filterargs" not in kw:
            same = all(close(float(s3[nm]), float(s[nm]), 1e-10) or (np.isnan(s3[nm]) and np.isnan(s[nm]))
                       for nm in ("wloc", "wscale", "wshape", "gloc", "gscale"))
            neg = all(close(float(s3["p_%.2f" % (100 * q)]), -float(s["p_%.2f" % (100 * q)]), 1e-10) or
                      (np.isnan(s3["p_%.2f" % (100 * q)]) and np.isnan(s["p_%.2f" % (100 * q)])) for q in quant)
            if not (same and neg and np.allclose(np.sort(s3["sample"]), np.sort(-s["sample"]))):
                chk.fail("minima variant is the mirror image of the maxima variant of the negated signal", inp,
                         [float(s[nm]) for nm in ("wloc", "wscale", "wshape", "gloc", "gscale")],
                         [float(s3[nm]) for nm in ("wloc", "wscale", "wshape", "gloc", "gscale")])
        # fan-out: database and GUI function
        if k < (8 if chk.quick else 40):
            db = TsDB()
            db.add(ts)
            d1 = db.stats(statsdur=statsdur, quantiles=quant, is_minima=ismin, **kw)
            key = list(d1.keys())[0]
            for nm in ("mean", "wloc", "gloc", "gscale"):
                if not (close(float(d1[key][nm]), float(s[nm]), 1e-12) or (np.isnan(d1[key][nm]) and np.isnan(s[nm]))):
                    chk.fail("TsDB.stats equals TimeSeries.stats", inp, float(s[nm]), float(d1[key][nm]))
            g = calculate_stats({"s": ts}, kw.get("twin", (t[0], t[-1])), kw.get("filterargs"), minima=ismin)["s"]
            ref = ts.stats(twin=kw.get("twin", (t[0], t[-1])), filterargs=kw.get("filterargs"), statsdur=10800.,
                           quantiles=(0.37, 0.57, 0.9), is_minima=ismin, include_sample=True)
            for nm in ("mean", "wloc", "gloc", "gscale", "p_90.00"):
                if not (close(float(g[nm]), float(ref[nm]), 1e-12) or (np.isnan(g[nm]) and np.isnan(ref[nm]))):
                    chk.fail("app.funcs.calculate_stats equals TimeSeries.stats with the GUI defaults", inp, float(ref[nm]), float(g[nm]))


def replay(rp):
    from qats.stats.weibull import Weibull, weibull2gumbel
    inp = rp["input"]
    bad = 0
    if "shape" in inp:
        w = Weibull(inp["loc"], inp["scale"], inp["shape"])
        g = weibull2gumbel(inp["loc"], inp["scale"], inp["shape"], inp["n"])
        q = float(w.invcdf(p=[1 - 1 / inp["n"]])[0])
        f = float(w.pdf(x=[g[0]])[0])
        print("gloc", g[0], "quantile", q, "gscale", g[1], "1/(n f)", 1 / (inp["n"] * f))
        if abs(q - g[0]) > 1e-8 * (abs(q) + inp["scale"]) or not close(1 / (inp["n"] * f), float(g[1]), 1e-8):
            bad += 1
    else:
        print("summary replays need the run's seed: VERIF_SEED=%s ./check C17 %s" % (inp.get("verif_seed"), rp.get("tier", "quick")))
        bad = 1
    print("replay: %d failing clause(s)" % bad)
    return 1 if bad else 0
