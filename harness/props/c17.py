"""
C17 — the extreme-value chain from peaks to quantiles is coherent.

Tie: translator (weibull2gumbel, Gumbel.fit_from_weibull_parameters; identities re-proved each run) + Float
correspondence of the three entry points with the generated formulas.
Search: gloc = Weibull (1-1/n)-quantile, gscale = 1/(n·pdf(gloc)) on the implementation; statistics summary
(`TimeSeries.stats`, `TsDB.stats`, `app.funcs.calculate_stats`): consistency with its parts, affine equivariance,
minima = mirrored maxima — on series with constant and non-constant time step, windowed / filtered / resampled, and through the
database entry points (`TsDB.stats`, `TsDB.stats_dataframe`) on SEVERAL series queried in turn for both variants; the same chain through the fitted-distribution entry points (`Weibull.fit`, `Weibull.fromsignal`,
`TimeSeries.fit_weibull`) on samples with and without exact ties.

Histories on ONE Weibull object (loc / scale / shape re-assigned between calls of gumbel_parameters with the same or a new n), every
numeric option in several spellings (n and statsdur as float / int / numpy scalar), and the qats.app.funcs wrapper called with the
flag by keyword, positionally, all by keyword and omitted.

FAULT POINTS: rejected calls of every kind the entry points can reject (a quantile / duration of the wrong type, a window outside
the record or not a pair, an unknown / incomplete filter, an unknown keyword or estimator, a name matching nothing or several series,
a foreign item in the GUI container, Weibull parameters / n / arguments outside the domain) are inserted into these histories — on
the same series, database, container and distribution objects — and all clauses are evaluated afterwards on the SAME objects
against summaries of fresh objects built from the caller's arrays; the caller's arrays must be unchanged. Every case runs in a
worker thread with a time limit: a query that does not return is a failing clause.

DESCRIPTIVE HALF (c17_moments): start / end / duration / dtavg / mean / std / skew / kurt / min / max / tz of the summary against
`Qats.Moments.describe` (Float `st.moments`, exact Rat `st.momentsq`) on the processed arrays, and the clauses proved about it
(consistency, affine equivariance, mirror) as oracles on the implementation.

Every generated case is a self-contained JSON dict (`kind` = w2g / fit / summary / moments) that `replay()` re-evaluates.
"""
import math
import random
import threading
import warnings

import numpy as np

from .. import core
from ..core import fbits, unfbits
from .c05 import close
from . import c17_moments

USES_TRANSLATOR = True
ANCHOR_PREFIX = ("w2g_", "wfw_", "wb_invcdf", "wb_pdf", "stats_n")
RULE = ("seeded Weibull parameters (loc in [-20,20], scale log-uniform, shape in [0.6,6]) x n in [2, 1e6] spelled float / int / "
        "numpy scalar x a history of 1-3 re-assignments of loc / scale / shape on the same Weibull object with the same or a new "
        "n asked again (fitted objects too); statsdur spelled float / int / numpy int / numpy float; app.funcs.calculate_stats "
        "called with the flag by keyword / positionally / all by keyword / omitted on a two-series container; fitted distributions on "
        "seeded samples (continuous / one decimal / integer-valued = exact ties; ndarray or list; drawn / ascending / descending) "
        "x pwm / msm; seeded multi-tone + noise signals (600-3000 samples, >= 2 global maxima, quantised to 1/1024, 1/8 or 1/2 = "
        "tied maxima; time step constant / two rates / seeded unequal steps / a gap) x affine maps with a = 2^k, b integer x windows / low-pass filter / resampling to a new step or time array (and combinations) x maxima / minima x durations x 2-4 "
        "quantiles listed in ANY order (tuple / list / ndarray) x a preceding different query on the same object; database fan-out on 2-4 series sharing one time array, added and requested in "
        "seeded orders, maxima and minima variants queried in turn on the same database (dict and dataframe); "
        "FAULT POINTS: 0-3 rejected calls per summary case on the same series before / between its queries (quantiles a number / None / "
        "text, duration None / text, window beyond the record / reversed / a scalar, filter unknown / incomplete / text / above Nyquist, "
        "resample int / text, unknown keyword, unknown estimator; with and without the case's own options; maxima and minima), on the "
        "database between its queries (same options, names matching nothing / several / partly unknown, index out of range) and on the "
        "GUI container (foreign item, bad window / filter); rejected calls on the Weibull object / module inside the parameter histories "
        "(n as text, default n without sample, density below loc, probability above 1, unknown estimator, shape as text, negative "
        "scale); windows as tuple / list / ndarray, filter arguments as tuple / list; every case in a worker thread with a time limit; "
        "LONG RECORDS (size-conditioned code paths): summary cases with n in {999,1000,1001,1023,1024,1025 | 4095,4096,4097 | 9999,"
        "10000,10001 | 65535,65537,70001} (quick: one per group), the extreme of the signal (spike or plateau of 2-5 equal samples, "
        "0.5 / 4 / 8 above the rest; below for minima) in the first / last samples, exactly at or across a multiple of 1000 / 1024 / "
        "4096 / 10000 / 65536, optional window / filter / resampling; all summary clauses plus: the extreme inside a complete cycle is "
        "the largest value of the sample of global maxima; "
        "non-trivial = every case; distinct by input")
QPOOL = [0.0, 0.05, 0.1, 0.37, 0.5, 0.57, 0.9, 0.95, 0.99]

# ---- worker thread with a time limit -------------------------------------------------------------------------------------------------
CASE_LIMIT = 20.0                                       # seconds (a case normally takes 0.01 - 1 s)
PROGRESS = {"call": None}                               # the call of the current case that was started last
HANGS = {"n": 0}


def at(label):
    PROGRESS["call"] = label


def guarded(fn, limit=CASE_LIMIT):
    """run fn() in a worker thread: ("ok", value) / ("raised", exception) / ("hang", label of the call started last)"""
    box = {}

    def work():
        try:
            with warnings.catch_warnings():
                box["v"] = fn()
        except BaseException as e:                      # noqa
            box["e"] = e
    PROGRESS["call"] = None
    th = threading.Thread(target=work, daemon=True)
    th.start()
    th.join(limit)
    if th.is_alive():
        HANGS["n"] += 1
        return "hang", PROGRESS["call"]
    if "e" in box:
        return "raised", box["e"]
    return "ok", box["v"]


RETURNS = "every query returns (also after a call on the same objects / module was rejected)"


# ---- fault points: calls the entry points reject -------------------------------------------------------------------------------------
# options of TimeSeries.stats / TsDB.stats that are rejected (or, for a few, accepted with a degenerate answer): by name
BAD_STATS = ("quantiles-number", "quantiles-none", "quantiles-text", "quantiles-above-one", "statsdur-none", "statsdur-text",
             "twin-beyond", "twin-reversed", "twin-scalar", "filter-unknown", "filter-short", "filter-text", "filter-above-nyquist",
             "resample-int", "resample-text", "unknown-keyword")
BAD_TS_OTHER = ("fit_weibull:method-unknown", "fit_weibull:twin-beyond", "get:twin-scalar", "get:filter-unknown", "max:twin-scalar",
                "min:filter-short")
BAD_DB = ("names-nomatch", "names-ambiguous", "names-partly-unknown", "ind-out-of-range")
BAD_GUI = ("container-foreign-item", "twin-scalar", "filter-unknown", "filter-short", "twin-beyond")
BAD_WEIBULL = ("n-text", "n-default-without-sample", "pdf-below-loc", "invcdf-above-one", "fit-method-unknown", "w2g-shape-text",
               "gumbel-scale-negative", "scale-negative-then-restored", "fromsignal-no-maxima")


def bad_options(bad, t):
    """the rejected option(s) `bad` as keyword arguments of TimeSeries.stats / .get for a series with time array t"""
    t0, t1 = float(t[0]), float(t[-1])
    return {"quantiles-number": dict(quantiles=0.9), "quantiles-none": dict(quantiles=None),
            "quantiles-text": dict(quantiles=(0.5, "0.9")), "quantiles-above-one": dict(quantiles=(0.5, 1.5)),
            "statsdur-none": dict(statsdur=None), "statsdur-text": dict(statsdur="3h"),
            "twin-beyond": dict(twin=(t1 + 10., t1 + 20.)), "twin-reversed": dict(twin=(t1, t0)),
            "twin-scalar": dict(twin=0.5 * (t0 + t1)), "filter-unknown": dict(filterargs=("xx", 0.2)),
            "filter-short": dict(filterargs=("lp",)), "filter-text": dict(filterargs="lp"),
            "filter-above-nyquist": dict(filterargs=("lp", 50.)), "resample-int": dict(resample=1),
            "resample-text": dict(resample="0.5"), "unknown-keyword": dict(smoothing=3),
            "method-unknown": dict(method="nope")}[bad]


def attempt(dist, label, fn):
    """a call that the implementation is expected to reject; whether it raises or returns is not a clause of the property (only
    recorded in the input distribution) — what the property says about the objects afterwards is evaluated by the caller"""
    at("rejected call: " + label)
    try:
        with np.errstate(all="ignore"), warnings.catch_warnings():
            warnings.simplefilter("ignore")
            fn()
        how = "returned"
    except Exception:
        how = "rejected"
    if dist:
        dist("fault:%s:%s" % (label.split(" ")[0], how))
    return how


def ts_faults(faults, where, o, t, kw, dist=None):
    """the rejected calls of the case listed for position `where`, made on the TimeSeries object o (the case's own window /
    filter / resampling options are passed along when the fault says so)"""
    for ft in faults or []:
        if ft.get("at") != where or ft.get("on", "ts") != "ts":
            continue
        bad, flag = ft["bad"], bool(ft.get("flag"))
        own = dict(kw) if ft.get("with_kw") else {}
        if ":" in bad:
            entry, b = bad.split(":")
            opts = dict(own, **bad_options(b, t))
            if entry == "fit_weibull":
                opts = {k: v for k, v in opts.items() if k in ("twin", "method")}
            attempt(dist, "TimeSeries.%s:%s" % (entry, b), lambda: getattr(o, entry)(**opts))
        else:
            opts = dict(dict(statsdur=3600., quantiles=(0.37, 0.9)), **dict(own, **bad_options(bad, t)))
            attempt(dist, "TimeSeries.stats:%s %s%s" % (bad, "minima" if flag else "maxima", " +options" if own else ""),
                    lambda: o.stats(is_minima=flag, include_sample=bool(ft.get("sample")), **opts))


def db_faults(faults, db, names, t, kw, dist=None):
    """rejected calls on a database holding several series (rejected before the fan-out or part-way through it)"""
    for ft in faults or []:
        if ft.get("on") != "db":
            continue
        bad, flag = ft["bad"], bool(ft.get("flag"))
        fn = db.stats_dataframe if ft.get("dataframe") else db.stats
        if bad == "names-nomatch":
            call = lambda: fn(names="nosuch*", is_minima=flag)
        elif bad == "names-ambiguous":
            call = lambda: db.get(name="s*")
        elif bad == "names-partly-unknown":
            call = lambda: fn(names=[names[0], "nosuch"], quantiles=0.5, is_minima=flag)
        elif bad == "ind-out-of-range":
            call = lambda: fn(ind=[0, 99], is_minima=flag)
        else:
            own = dict(kw) if ft.get("with_kw") else {}
            opts = dict(dict(statsdur=3600., quantiles=(0.37, 0.9)), **dict(own, **bad_options(bad, t)))
            call = lambda: fn(names=(names if ft.get("listed") else None), is_minima=flag, **opts)
        attempt(dist, "TsDB.stats:%s %s" % (bad, "minima" if flag else "maxima"), call)


def gui_faults(faults, cont, t, twin, fargs, dist=None):
    from qats.app.funcs import calculate_stats
    for ft in faults or []:
        if ft.get("on") != "gui":
            continue
        bad, flag = ft["bad"], bool(ft.get("flag"))
        if bad == "container-foreign-item":
            c2 = dict(cont, zz=None)                    # the last item is not a series: rejected part-way through the container
            call = lambda: calculate_stats(c2, twin if ft.get("with_kw") else None, fargs if ft.get("with_kw") else None, flag)
        elif bad.startswith("twin"):
            call = lambda: calculate_stats(cont, bad_options(bad, t)["twin"], fargs, flag)
        else:
            call = lambda: calculate_stats(cont, twin, bad_options(bad, t)["filterargs"], flag)
        attempt(dist, "calculate_stats:%s %s" % (bad, "minima" if flag else "maxima"), call)


def weibull_fault(bad, w, dist=None):
    """a rejected call on the Weibull object w / the module's functions with its parameters"""
    from qats.stats import weibull as wb
    from qats.stats.gumbel import Gumbel
    loc, scale, shape = [float(v) for v in w.params]

    def neg_scale():
        w.scale = -scale
        try:
            w.cdf(x=[loc + 1.0])
            w.pdf(x=[loc - 1.0])
        finally:
            w.scale = scale                             # (the harness restores the parameter it set)
    call = {"n-text": lambda: w.gumbel_parameters(n="100"),
            "n-default-without-sample": lambda: wb.Weibull(loc, scale, shape).gumbel_parameters(),
            "pdf-below-loc": lambda: w.pdf(x=[loc - 1.0]),
            "invcdf-above-one": lambda: w.invcdf(p=[0.5, 1.5]),
            "fit-method-unknown": lambda: wb.Weibull.fit([1.0, 2.0, 3.0, 5.0], method="nope"),
            "w2g-shape-text": lambda: wb.weibull2gumbel(loc, scale, "2", 100),
            "gumbel-scale-negative": lambda: Gumbel.fit_from_weibull_parameters(loc, -scale, shape, 100),
            "scale-negative-then-restored": neg_scale,
            "fromsignal-no-maxima": lambda: wb.Weibull.fromsignal(np.array([1.0, 1.0, 1.0]), method="pwm")}[bad]
    attempt(dist, "Weibull:" + bad, call)


def gen_faults(rng, fanout):
    """0-3 rejected calls for a summary case: on the series (before the case's query or between its queries), on the database and
    on the GUI container (cases with fan-out)"""
    faults = []
    if rng.random() < 0.75:
        for _ in range(rng.choice([1, 1, 2, 3])):
            bad = rng.choice(BAD_STATS + BAD_STATS + BAD_TS_OTHER)
            faults.append(dict(on="ts", at=rng.choice(["before", "before", "mid"]), bad=bad, flag=rng.random() < 0.5,
                               with_kw=rng.random() < 0.4, sample=rng.random() < 0.3))
    if fanout:
        for _ in range(rng.choice([1, 2])):
            faults.append(dict(on="db", bad=rng.choice(BAD_STATS + BAD_DB), flag=rng.random() < 0.5, with_kw=rng.random() < 0.3,
                               listed=rng.random() < 0.5, dataframe=rng.random() < 0.3))
        faults.append(dict(on="gui", bad=rng.choice(BAD_GUI), flag=rng.random() < 0.5, with_kw=rng.random() < 0.5))
    return faults


TMODES = ("uniform", "two-rate", "jitter", "gap")


def make_time(tseed, n, tmode="uniform"):
    """time array of n samples with dyadic values (exact in floating point): constant step 0.5 / fine sampling (0.25) first and
    coarse (0.5) afterwards / seeded steps from {0.25, 0.5, 0.75, 1.0} / constant step with a block of samples missing"""
    if tmode == "uniform":
        return np.arange(n) * 0.5
    rng = random.Random(tseed * 7 + 3)
    if tmode == "two-rate":
        k = rng.randint(n // 5, n // 2)
        dt = np.r_[np.full(k, 0.25), np.full(n - 1 - k, 0.5)]
    elif tmode == "jitter":
        nr = np.random.RandomState(rng.randint(0, 10 ** 6))
        dt = nr.choice([0.25, 0.5, 0.5, 0.75, 1.0], size=n - 1)
    elif tmode == "gap":
        dt = np.full(n - 1, 0.5)
        dt[rng.randint(n // 3, 2 * n // 3)] = float(rng.choice([8, 40, 100]))
    else:
        raise ValueError(tmode)
    return np.r_[0.0, np.cumsum(dt)]


def make_signal(sig_seed, n, step=1. / 1024, level=0.0, tmode="uniform", tseed=None, event=None):
    """seeded multi-tone + noise signal, dyadic quantisation so that x -> a*x + b (a = 2^k, b integer) is exact in floating
    point; a coarse step gives plateaus and global maxima with exactly equal values. `tmode` selects the sampling (constant or
    non-constant time step), `tseed` the seed of the time array (default: the signal's)"""
    rng = random.Random(sig_seed)
    t = make_time(sig_seed if tseed is None else tseed, n, tmode)
    x = np.zeros(n)
    for _ in range(rng.choice([2, 3, 5])):
        x += rng.uniform(0.3, 2.0) * np.sin(2 * np.pi * rng.uniform(0.01, 0.12) * t + rng.uniform(0, 6.28))
    nr = np.random.RandomState(rng.randint(0, 10 ** 6))
    x += 0.2 * nr.standard_normal(n)
    x = np.round(x / step) * step + level
    for ev in ([event] if isinstance(event, dict) else event or []):
        # long records: the interesting event (the extreme, a plateau of `width` equal samples when flat) at a chosen position --
        # the first / last samples, exactly at / across a multiple of 1000 / 1024 / 4096 / ...; height a multiple of 1/2 (exact)
        p0 = ev["pos"] if ev["pos"] >= 0 else n + ev["pos"]
        p1 = min(n, p0 + ev["width"])
        if ev.get("flat"):
            x[p0:p1] = (np.max(x) if ev["height"] > 0 else np.min(x)) + ev["height"]
        else:
            x[p0:p1] += ev["height"]
    return t, x


def pkey(q):
    return "p_%.2f" % (100 * q)


# number spellings of a numeric option: the same number as Python float / Python int / numpy scalar. ("int" spellings only for
# integer-valued numbers; float32 only where the value is exactly representable and the option enters float64 arithmetic)
SPELL = {"float": float, "int": lambda v: int(round(v)), "np.float64": np.float64, "np.int64": lambda v: np.int64(round(v)),
         "np.int32": lambda v: np.int32(round(v)), "np.float32": np.float32}
SD_TYPES = ("float", "float", "int", "int", "np.float64", "np.int64", "np.int32", "np.float32")


def spell(v, typ):
    v = float(v)
    if typ in ("int", "np.int64", "np.int32") and v != round(v):
        typ = "float"
    return SPELL[typ or "float"](v)


def fl(v):
    return [float(u) for u in v]


def allclose(a, b, rel):
    a, b = list(a), list(b)
    return len(a) == len(b) and all(close(float(u), float(v), rel) for u, v in zip(a, b))


# ---- fitted distribution -----------------------------------------------------------------------------------------------------------
def fit_data(inp):
    from qats.stats.weibull import Weibull
    data = Weibull(*inp["w0"]).rnd(size=inp["size"], seed=inp["seed"])
    if inp.get("decimals") is not None:
        data = np.round(data, inp["decimals"])
    if inp.get("order") == "ascending":
        data = np.sort(data)
    elif inp.get("order") == "descending":
        data = np.sort(data)[::-1].copy()
    return data


def fit_clauses(inp, dist=None):
    """failing clauses [(oracle, expected, observed)] of the entry point 'distribution fitted to a sample of n peaks'"""
    from qats.stats import weibull as wb
    data = fit_data(inp)
    m = int(data.size)
    nn = inp["n"]
    try:
        ref = tuple(float(v) for v in getattr(wb, inp["method"])(np.array(data)))
        if not all(np.isfinite(ref)) or ref[1] <= 0 or ref[2] <= 0:
            return []
        g_exp, g_def = wb.weibull2gumbel(*ref, nn), wb.weibull2gumbel(*ref, m)
        if not all(np.isfinite(fl(g_exp + g_def))):
            return []
    except Exception:                                   # degenerate sample: no reference chain
        return []
    fails = []
    arg = data.tolist() if inp.get("aslist") else data.copy()
    flt = list(inp.get("faults") or [])
    try:
        at("Weibull.fit(sample)")
        wf = wb.Weibull.fit(arg, method=inp["method"])
        g_got_def0 = wf.gumbel_parameters()
        for bad in flt[:1]:                             # a rejected call on the fitted object / the module in between
            weibull_fault(bad, wf, dist)
        at("Weibull.gumbel_parameters on the fitted object")
        g_got = wf.gumbel_parameters(n=nn)
        g_got_def = wf.gumbel_parameters()              # the default must not remember the explicit n
        for bad in flt[1:]:
            weibull_fault(bad, wf, dist)
        at("Weibull.fit(sample), same sample object again")
        wf2 = wb.Weibull.fit(arg, method=inp["method"])  # same sample object again
        obs = dict(params=fl(wf.params), params_again=fl(wf2.params), held=int(np.size(wf.data)))
    except Exception as e:
        return [("Weibull.fit(sample).gumbel_parameters is an entry point of the chain (must not raise)", "parameters", repr(e))]
    if not (allclose(ref, wf.params, 1e-12) and allclose(ref, wf2.params, 1e-12) and obs["held"] == m):
        fails.append(("the Weibull peak distribution of Weibull.fit(sample) is the estimator's fit to all n peaks of the sample "
                      "(ties included) and holds n peaks", dict(params=list(ref), held=m), obs))
    if not (allclose(g_exp, g_got, 1e-12) and allclose(g_def, g_got_def, 1e-12) and allclose(g_def, g_got_def0, 1e-12)):
        fails.append(("the three entry points give identical Gumbel parameters (fitted distribution: explicit n honoured, default "
                      "n = sample size)", fl(g_exp + g_def), fl(g_got + g_got_def + g_got_def0)))
    if not (np.array_equal(np.asarray(arg, dtype=float), data) and np.array_equal(np.asarray(wf.data, dtype=float).ravel(), data)):
        fails.append(("the peaks handed to Weibull.fit — the caller's sample and the sample held by the fitted object — are the same "
                      "after the queries (the chain is evaluated on the peaks given)", fl(data[:5]),
                      dict(caller=fl(np.asarray(arg, dtype=float)[:5]), held=fl(np.asarray(wf.data, dtype=float).ravel()[:5]))))
    # history on the SAME fitted object: its public parameters are re-assigned (peaks mapped by y = a*x + b, a > 0, and / or a
    # new shape) and the Gumbel parameters asked again for the same n and the default n
    for k, st in enumerate(inp.get("history") or []):
        try:
            cur = [float(v) for v in wf.params]
            new = [st["a"] * cur[0] + st["b"], st["a"] * cur[1], cur[2] * st.get("shape_factor", 1.0)]
            wf.loc, wf.scale, wf.shape = new
            e_n, e_d = wb.weibull2gumbel(*new, nn), wb.weibull2gumbel(*new, m)
            if not all(np.isfinite(fl(e_n + e_d))):
                break
            if st.get("fault"):
                weibull_fault(st["fault"], wf, dist)
            at("Weibull.gumbel_parameters on the re-parameterised fitted object")
            g_n, g_d = wf.gumbel_parameters(n=spell(nn, st.get("ntype"))), wf.gumbel_parameters()
        except Exception as e:
            fails.append(("Weibull.gumbel_parameters on a re-parameterised fitted distribution (must not raise)", "parameters", repr(e)))
            break
        if not (allclose(e_n, g_n, 1e-12) and allclose(e_d, g_d, 1e-12)):
            fails.append(("identically through every entry point: after the parameters of the same (fitted) Weibull object are "
                          "re-assigned, gumbel_parameters (explicit n and default n = sample size) gives the Gumbel parameters of the "
                          "distribution the object describes NOW (history step %d: loc, scale, shape = %r)" % (k + 1, new),
                          fl(e_n + e_d), fl(g_n + g_d)))
    return fails


# ---- statistics summary ------------------------------------------------------------------------------------------------------------
def summary_kwargs(inp):
    """keyword arguments of TimeSeries.get() for the case; `resample` is a float (new constant step) or
    {"linspace": [start, stop, num], "aslist": bool} (new time array, as ndarray or list)"""
    kw = {}
    for k, v in (inp.get("kwargs") or {}).items():
        if k == "resample":
            if isinstance(v, dict):
                arr = np.linspace(*v["linspace"])
                kw[k] = arr.tolist() if v.get("aslist") else arr
            else:
                kw[k] = float(v)
        elif k == "twin":
            # the same window as tuple / list / ndarray
            kw[k] = {"tuple": tuple, "list": list, "array": np.array}[inp.get("twtype", "tuple")]([float(u) for u in v])
        elif k == "filterargs":
            kw[k] = list(v) if inp.get("ftype") == "list" else tuple(v)
        else:
            kw[k] = tuple(v) if isinstance(v, (list, tuple)) else v
    return kw


def summary_quantiles(inp):
    q = [float(v) for v in inp["quantiles"]]
    return {"tuple": tuple(q), "list": list(q), "array": np.array(q)}[inp.get("qtype", "tuple")]


STAT_FIELDS = ("start", "end", "duration", "dtavg", "mean", "std", "skew", "kurt", "min", "max", "tz",
               "wloc", "wscale", "wshape", "gloc", "gscale")


def num(v):
    try:
        return float(v)
    except (TypeError, ValueError):
        return float("nan")


def db_clauses(inp, t, x, kw, quant, qlist, dist=None):
    """failing clauses of the database entry points on a database holding SEVERAL series built from the same time array (the
    case's signal, its affine image, its negation, another signal), added and requested in seeded orders; both variants
    (maxima, minima) are queried one after the other on the same database: every series' summary must be the one
    TimeSeries.stats gives for that series with the same options, and the minima summary of a series the mirror image of the
    maxima summary of its negation"""
    from qats import TimeSeries, TsDB
    fails = []
    rng = random.Random(inp["sig_seed"] * 31 + 5)
    statsdur, ismin = spell(inp["statsdur"], inp.get("sdtype")), inp["is_minima"]
    xs = {"s": x, "s_affine": inp["a"] * x + inp["b"], "s_neg": -x,
          "other": make_signal(inp["sig_seed"] + 1, inp["n"], inp.get("step", 1. / 1024), inp.get("level", 0.0) + 1.0,
                               inp.get("tmode", "uniform"), tseed=inp["sig_seed"])[1]}
    members = ["s", "s_neg"] + rng.sample(["s_affine", "other"], rng.choice([0, 1, 2]))
    rng.shuffle(members)
    db = TsDB()
    for nm in members:
        db.add(TimeSeries(nm, t, xs[nm]))
    sel = rng.choice(["all", "listed", "listed"])
    req = None if sel == "all" else rng.sample(members, len(members))           # any order, not the order of insertion
    wanted = members if req is None else req
    if dist:
        dist("db:%d-series:%s" % (len(members), sel))
    fields = list(STAT_FIELDS) + [pkey(q) for q in qlist]
    res = {}
    for step, flag in enumerate((ismin, not ismin, ismin)):
        entry = "TsDB.stats_dataframe" if step == 2 else "TsDB.stats"
        common = dict(statsdur=statsdur, quantiles=quant, is_minima=flag, **kw)
        if step == 1:
            # fault points: calls the database rejects (before or part-way through the fan-out); the same database is used again
            db_faults(inp.get("faults"), db, wanted, t, kw, dist)
        at("%s on %d series (%s), query %d on the same database" % (entry, len(wanted), "minima" if flag else "maxima", step + 1))
        try:
            d = (db.stats_dataframe if step == 2 else db.stats)(names=req, **common)
            got = {nm: {f: d[nm][f] for f in fields + ["is_minima"]} for nm in wanted if nm in d}
        except Exception as e:
            fails.append(("%s on several series is an entry point of the chain (must not raise)" % entry,
                          dict(series=wanted, variant="minima" if flag else "maxima"), "summaries", repr(e)))
            continue
        if sorted(got) != sorted(wanted):
            fails.append(("%s returns one summary per selected series" % entry, dict(series=wanted), sorted(wanted), sorted(got)))
        for nm in got:
            ref = TimeSeries(nm, t, xs[nm]).stats(**common)
            bad = [f for f in fields if not close(num(got[nm][f]), num(ref[f]), 1e-12)]
            if bool(got[nm]["is_minima"]) != bool(flag):
                bad.append("is_minima")
            if bad:
                fails.append(("%s gives for EVERY selected series the summary of TimeSeries.stats with the same options (statsdur, "
                              "quantiles, maxima/minima variant, window/resampling/filter)" % entry,
                              dict(series=nm, position=wanted.index(nm), of=len(wanted), variant="minima" if flag else "maxima"),
                              {f: (bool(flag) if f == "is_minima" else num(ref[f])) for f in bad},
                              {f: (bool(got[nm][f]) if f == "is_minima" else num(got[nm][f])) for f in bad}))
        if step < 2:
            res[flag] = got
    if "filterargs" not in kw and len(res) == 2:
        for flag in (True, False):
            for nm, mirror in (("s", "s_neg"), ("s_neg", "s")):
                if nm in res[flag] and mirror in res[not flag]:
                    g, m = res[flag][nm], res[not flag][mirror]
                    same = all(close(num(g[f]), num(m[f]), 1e-10) for f in ("wloc", "wscale", "wshape", "gloc", "gscale"))
                    neg = all(close(num(g[pkey(q)]), -num(m[pkey(q)]), 1e-10) for q in qlist)
                    if not (same and neg):
                        names_ = ["wloc", "wscale", "wshape", "gloc", "gscale"] + [pkey(q) for q in qlist]
                        fails.append(("TsDB.stats: the minima variant of a series is the mirror image of the maxima variant of the "
                                      "negated series held by the same database", dict(series=nm, variant="minima" if flag else "maxima"),
                                      [num(m[f]) for f in names_[:5]] + [-num(m[f]) for f in names_[5:]], [num(g[f]) for f in names_]))
    return fails


GUI_FIELDS = STAT_FIELDS + ("p_37.00", "p_57.00", "p_90.00")


def gui_clauses(ts, tsneg, twin, fargs, ismin, dist=None, faults=None):
    """failing clauses of the application's wrappers qats.app.funcs.calculate_stats(container, twin, fargs, minima) on a
    container of two series (a signal and its negation), called in every convention the signature documents — flag by keyword,
    flag as fourth positional argument, everything by keyword, flag omitted (= maxima): each call is the entry point
    TimeSeries.stats with the GUI's duration (3 h) and quantiles for the requested variant, and the minima variant is the mirror
    image of the maxima variant of the negated series"""
    from qats.app.funcs import calculate_stats
    fails = []
    cont = {"s": ts, "s_neg": tsneg}
    refs = {}
    for flag in (ismin, not ismin):
        refs[flag] = {nm: o.stats(twin=twin, filterargs=fargs, statsdur=10800., quantiles=(0.37, 0.57, 0.9), is_minima=flag,
                                  include_sample=True) for nm, o in cont.items()}
    calls = [("fourth argument positional", ismin, lambda: calculate_stats(cont, twin, fargs, ismin)),
             ("fourth argument positional", not ismin, lambda: calculate_stats(cont, twin, fargs, not ismin)),
             ("all arguments by keyword", not ismin, lambda: calculate_stats(container=cont, twin=twin, fargs=fargs, minima=not ismin)),
             ("flag omitted", False, lambda: calculate_stats(cont, twin, fargs))]
    got = {}
    gui_faults(faults, cont, ts.t, twin, fargs, dist)
    for how, flag, call in calls:
        if dist:
            dist("gui:calculate_stats:%s" % how)
        at("app.funcs.calculate_stats, %s, %s" % (how, "minima" if flag else "maxima"))
        try:
            g = call()
            bad = {}
            for nm in cont:
                r = refs[flag][nm]
                b = [f for f in GUI_FIELDS if not (close(num(g[nm][f]), num(r[f]), 1e-12) or (np.isnan(num(g[nm][f])) and np.isnan(num(r[f]))))]
                if bool(g[nm]["is_minima"]) != bool(flag):
                    b.append("is_minima")
                if np.size(g[nm]["sample"]) != np.size(r["sample"]):
                    b.append("sample")
                if b:
                    bad[nm] = b
            got[(how, flag)] = g
        except Exception as e:
            fails.append(("app.funcs.calculate_stats(container, twin, fargs, minima) is an entry point of the chain in every calling "
                          "convention (must not raise)", dict(call=how, minima=bool(flag)), "summaries", repr(e)))
            continue
        if bad:
            def val(d, f):
                return bool(d["is_minima"]) if f == "is_minima" else int(np.size(d["sample"])) if f == "sample" else num(d[f])
            fails.append(("app.funcs.calculate_stats(container, twin, fargs, minima) — %s — is TimeSeries.stats of every series "
                          "with the GUI's duration and quantiles for the requested variant (maxima / minima)" % how,
                          dict(call=how, minima=bool(flag)),
                          {nm: {f: val(refs[flag][nm], f) for f in b} for nm, b in bad.items()},
                          {nm: {f: val(g[nm], f) for f in b} for nm, b in bad.items()}))
    gmin, gmax = got.get(("fourth argument positional", True)), got.get(("fourth argument positional", False))
    if fargs is None and gmin is not None and gmax is not None:
        for nm, mirror in (("s", "s_neg"), ("s_neg", "s")):
            a, m = gmin[nm], gmax[mirror]
            if np.size(a["sample"]) < 2 or not all(np.isfinite(num(a[f])) for f in ("gloc", "gscale", "p_90.00")):
                continue
            same = all(close(num(a[f]), num(m[f]), 1e-10) for f in ("wloc", "wscale", "wshape", "gloc", "gscale"))
            neg = all(close(num(a[f]), -num(m[f]), 1e-10) for f in ("p_37.00", "p_57.00", "p_90.00"))
            if not (same and neg):
                fl_ = ("wloc", "wscale", "wshape", "gloc", "gscale", "p_37.00", "p_57.00", "p_90.00")
                fails.append(("app.funcs.calculate_stats(.., True): the minima variant is the mirror image of the maxima variant "
                              "(.., False) of the negated signal", dict(series=nm),
                              [num(m[f]) for f in fl_[:5]] + [-num(m[f]) for f in fl_[5:]], [num(a[f]) for f in fl_]))
    return fails


def summary_clauses(inp, dist=None):
    """failing clauses [(oracle, extra_input, expected, observed)] of the statistics summary for one self-contained case"""
    from qats import TimeSeries, TsDB
    from qats.stats.weibull import Weibull, weibull2gumbel
    from qats.stats.gumbel import Gumbel
    from qats.app.funcs import calculate_stats
    fails = []
    tmode = inp.get("tmode", "uniform")
    t, x = make_signal(inp["sig_seed"], inp["n"], inp.get("step", 1. / 1024), inp.get("level", 0.0), tmode, event=inp.get("event"))
    n = inp["n"]
    kw = summary_kwargs(inp)
    sdv, ismin = float(inp["statsdur"]), inp["is_minima"]
    statsdur = spell(sdv, inp.get("sdtype"))            # the duration as float / int / numpy scalar: the same number
    qlist = [float(v) for v in inp["quantiles"]]
    quant = summary_quantiles(inp)
    sign = -1.0 if ismin else 1.0
    ts = TimeSeries("s", t, x)
    faults = inp.get("faults")
    t_given, x_given = t.copy(), x.copy()               # what the caller handed over
    try:
        if inp.get("prior"):
            # history: a different query on the same object first
            at("TimeSeries.stats (a different query first)")
            ts.stats(statsdur=3600. if sdv != 3600. else 1000., quantiles=(0.5, 0.1), is_minima=not ismin,
                     twin=(float(t[n // 4]), float(t[-1])))
        # fault points: calls on the same object that are rejected (invalid option, window outside the record, unknown filter …)
        ts_faults(faults, "before", ts, t, kw, dist)
        at("TimeSeries.stats (the case's query)")
        s = ts.stats(statsdur=statsdur, quantiles=quant, is_minima=ismin, include_sample=True, **kw)
        tt, xx = ts.get(**kw)
    except Exception as e:
        return [("TimeSeries.stats is an entry point of the chain (must not raise)", {}, "summary", repr(e))]
    # its parts, taken from the arrays the series was built from (no processing / a window only: the samples inside the window)
    if "resample" not in kw and "filterargs" not in kw:
        tw = kw.get("twin", (t_given[0], t_given[-1]))
        msk = (t_given >= tw[0]) & (t_given <= tw[1])
        tg, xg = t_given[msk], x_given[msk]
        okg = (s["start"] == tg[0] and s["end"] == tg[-1] and s["min"] == xg.min() and s["max"] == xg.max() and
               abs(float(s["mean"]) - float(xg.mean())) <= 1e-12 * float(np.abs(xg).max() + 1.0))
        if not okg:
            fails.append(("summary consistent with its parts: start / end / min / mean / max are those of the signal the series was "
                          "built from (inside the window)", {},
                          dict(start=float(tg[0]), end=float(tg[-1]), min=float(xg.min()), mean=float(xg.mean()), max=float(xg.max())),
                          {a: float(s[a]) for a in ("start", "end", "min", "mean", "max")}))
    # consistency with its parts: the summary describes the processed series (tt, xx) = get(**kwargs) — windowed, resampled,
    # filtered — whatever the sampling of the stored series
    nt = int(np.size(tt))
    ok = (s["min"] <= s["mean"] <= s["max"] and close(s["duration"], tt[-1] - tt[0], 1e-12) and s["start"] == tt[0] and
          s["end"] == tt[-1] and close(s["dtavg"], float(np.mean(np.diff(tt))), 1e-12) and
          close(float(s["dtavg"]) * (nt - 1), float(s["end"] - s["start"]), 1e-9) and
          s["min"] == xx.min() and s["max"] == xx.max() and close(s["mean"], float(xx.mean()), 1e-12))
    if not ok:
        fails.append(("summary consistent with its parts (min <= mean <= max, start/end/duration, mean step: dtavg == mean step of "
                      "the processed series, dtavg*(samples-1) == duration)", {},
                      dict(start=float(tt[0]), end=float(tt[-1]), duration=float(tt[-1] - tt[0]), dtavg=float(np.mean(np.diff(tt))),
                           min=float(xx.min()), mean=float(xx.mean()), max=float(xx.max()), samples=nt),
                      {a: float(s[a]) for a in ("start", "end", "duration", "dtavg", "min", "mean", "max")}))
    proc = "+".join(k for k in ("twin", "resample", "filterargs") if k in kw) or "plain"
    if s["sample"] is None or np.size(s["sample"]) < 2:
        if dist:
            dist("stats:too-few-maxima:%s:%s" % (tmode, proc))
        return fails
    msize = int(np.size(s["sample"]))
    ties = msize - int(np.unique(s["sample"]).size)
    if dist:
        dist("stats:%s:%s:%s:%s:%s" % ("min" if ismin else "max", tmode, proc, "tied-peaks" if ties else "distinct-peaks",
                                       "q-ascending" if qlist == sorted(qlist) else "q-unordered"))
        dist("stats:statsdur-as-%s" % type(statsdur).__name__)
    if "resample" not in kw and "filterargs" not in kw:
        # consistent with its parts: when the extreme of the (windowed) signal lies between two crossings of the mean level in the
        # same direction -- the signal is on the other side of the mean somewhere before it and, after it, goes to the other side
        # and comes back -- it is the global maximum (minimum) of its cycle, hence the largest (smallest) value of the sample
        tw = kw.get("twin", (t_given[0], t_given[-1]))
        xg = sign * x_given[(t_given >= tw[0]) & (t_given <= tw[1])]
        mg = math.fsum(xg) / xg.size
        k0, k1 = int(np.argmax(xg)), xg.size - 1 - int(np.argmax(xg[::-1]))          # first / last position of the extreme
        below_after = np.nonzero(xg[k1:] < mg)[0]
        complete = bool(np.any(xg[:k0] < mg)) and below_after.size > 0 and bool(np.any(xg[k1 + below_after[0]:] > mg))
        if complete and abs(float(np.min(np.abs(xg - mg)))) > 1e-9:
            got = float(np.max(sign * np.asarray(s["sample"], dtype=float)))
            if got != float(xg[k0]):
                fails.append(("summary consistent with its parts: the %s of the signal lies in a complete cycle between crossings of the "
                              "mean level, so it is the %s value of the sample of global %s the distributions are fitted to (position "
                              "%d..%d of %d samples)" % ("minimum" if ismin else "maximum", "smallest" if ismin else "largest",
                                                         "minima" if ismin else "maxima", k0, k1, xg.size), {},
                              sign * float(xg[k0]), sign * got))
    missing = [pkey(q) for q in qlist if pkey(q) not in s]
    if missing:
        return [("the summary has one estimate p_XX per requested quantile", {}, [pkey(q) for q in qlist], missing)]
    pv = [float(s[pkey(q)]) for q in qlist]
    dur = float(tt[-1] - tt[0])
    wpar = fl(s[k] for k in ("wloc", "wscale", "wshape"))
    nn = round(sdv / (tt[-1] - tt[0]) * msize)
    if not any(np.isnan(pv)):
        # (a quantile at probability 0 is the lower end of the support: -inf for maxima, +inf for the mirrored minima)
        byq = sorted(zip(qlist, pv))
        inc = all((sign * b[1] > sign * a[1]) for a, b in zip(byq, byq[1:]) if b[0] > a[0])
        if not inc:
            fails.append(("quantile estimates monotone in the probability (increasing for maxima, mirrored for minima), whatever "
                          "the order they are requested in", {}, "monotone", [list(v) for v in byq]))
        # chain: gumbel quantiles of the reported parameters
        gl, gs = weibull2gumbel(s["wloc"], s["wscale"], s["wshape"], nn)
        exp = [sign * float(v) for v in Gumbel(gl, gs).invcdf(p=np.array(qlist))]
        if not (close(gl, s["gloc"], 1e-12) and close(gs, s["gscale"], 1e-12) and all(close(a, b, 1e-12) for a, b in zip(exp, pv))):
            fails.append(("quantiles are those of the Gumbel derived from the reported Weibull parameters and n = "
                          "round(statsdur/duration*#maxima): p_XX is its XX %% quantile (statsdur = %r)" % (statsdur,), {},
                          dict(gloc=float(gl), gscale=float(gs), p=dict(zip(map(pkey, qlist), exp))),
                          dict(gloc=float(s["gloc"]), gscale=float(s["gscale"]), p=dict(zip(map(pkey, qlist), pv)))))
        # the property's defining clauses on the reported numbers
        # (pwm can return a negative scale and shape for a sample: not a Weibull distribution, outside the quantifier)
        if nn >= 2 and all(np.isfinite(wpar)) and wpar[1] > 0 and wpar[2] > 0 and np.isfinite(s["gloc"]) and np.isfinite(s["gscale"]):
            w = Weibull(*wpar)
            q1 = float(w.invcdf(p=[1 - 1 / nn])[0])
            f1 = float(w.pdf(x=[float(s["gloc"])])[0])
            f1 = f1 if f1 > 0 else 1e-300                # (gloc outside the support: density 0)
            if abs(q1 - s["gloc"]) > 1e-9 * (abs(q1) + wpar[1]) + wpar[1] * 1e-9 or not close(1 / (nn * f1), float(s["gscale"]), 1e-8):
                fails.append(("reported gloc is the 1-1/n quantile of the reported Weibull and gscale == 1/(n * density there)", {},
                              [q1, 1 / (nn * f1)], [float(s["gloc"]), float(s["gscale"])]))
    # entry points on the same (possibly tied) peaks: fitted distribution from the signal, and the summary with statsdur = duration
    ts_faults(faults, "mid", ts, t, kw, dist)           # (fault points between the queries on the same object)
    at("fitted-distribution entry points / TimeSeries.stats with statsdur = duration on the same object")
    if all(np.isfinite(wpar)):
        try:
            ws = [("Weibull.fromsignal", Weibull.fromsignal(sign * xx, method="pwm"))]
            if "filterargs" not in kw and "resample" not in kw:         # (fit_weibull only takes a time window)
                tsf = ts if not ismin else TimeSeries("s", t, -x)
                ws.append(("TimeSeries.fit_weibull", tsf.fit_weibull(twin=kw.get("twin"), method="pwm")))
            sd = ts.stats(statsdur=dur, quantiles=quant, is_minima=ismin, **kw)       # n == number of peaks
            for nm, w in ws:
                if not (allclose(w.params, wpar, 1e-12) and int(np.size(w.data)) == msize):
                    fails.append(("the Weibull peak distribution is the same through every entry point (%s vs. summary: parameters "
                                  "and number of peaks)" % nm, {}, dict(params=wpar, peaks=msize),
                                  dict(params=fl(w.params), peaks=int(np.size(w.data)))))
                if np.isfinite(s["gloc"]) and np.isfinite(s["gscale"]) and nn >= 2:
                    g_n, g_d = w.gumbel_parameters(n=nn), w.gumbel_parameters()
                    if not (allclose(g_n, (s["gloc"], s["gscale"]), 1e-12) and allclose(g_d, (sd["gloc"], sd["gscale"]), 1e-12)):
                        fails.append(("Gumbel parameters identical through every entry point (%s.gumbel_parameters(n) / default n = "
                                      "number of peaks vs. summary with statsdur / statsdur = duration)" % nm, {},
                                      fl([s["gloc"], s["gscale"], sd["gloc"], sd["gscale"]]), fl(g_n + g_d)))
        except Exception as e:
            fails.append(("fitted-distribution entry points of the chain must not raise", {}, "parameters", repr(e)))
    # affine equivariance (exact map)
    at("TimeSeries.stats of the affine image / the negated signal (fresh objects)")
    a, b = inp["a"], inp["b"]
    if inp.get("unit"):
        # the same record in another unit (strain instead of stress, mm instead of km): an exact power-of-two factor, offset in that unit
        a, b = a * 2.0 ** inp["unit"], b * 2.0 ** inp["unit"]
    kw2 = {} if "filterargs" in kw else kw
    s2 = TimeSeries("s", t, a * x + b).stats(statsdur=statsdur, quantiles=quant, is_minima=ismin, include_sample=True, **kw2)
    if "filterargs" not in kw and np.size(s2["sample"]) == msize and all(np.isfinite(pv)):
        # location-type fields of the fitted (possibly negated) sample
        loc_map = lambda v: a * v + sign * b
        tol = 1e-6
        checks = [("mean", a * s["mean"] + b), ("min", a * s["min"] + b), ("max", a * s["max"] + b), ("std", a * s["std"]),
                  ("skew", s["skew"]), ("kurt", s["kurt"]), ("tz", s["tz"]), ("wshape", s["wshape"]),
                  ("wloc", loc_map(s["wloc"])), ("wscale", a * s["wscale"]), ("gloc", loc_map(s["gloc"])), ("gscale", a * s["gscale"])]
        checks += [(pkey(q), a * s[pkey(q)] + b) for q in qlist]
        bad = [(nm, float(e), float(s2[nm])) for nm, e in checks
               if not ((np.isinf(e) and s2[nm] == e) or abs(s2[nm] - e) <= tol * (abs(e) + a * abs(s["wscale"]) + 1e-12 * min(1.0, a)))]
        if bad:
            fails.append(("summary transforms under x -> a*x+b as location/scale quantities; shape, skewness, kurtosis, tz invariant",
                          {}, [(x0[0], x0[1]) for x0 in bad], [(x0[0], x0[2]) for x0 in bad]))
    # mirror
    s3 = TimeSeries("s", t, -x).stats(statsdur=statsdur, quantiles=quant, is_minima=not ismin, include_sample=True, **kw2)
    if "filterargs" not in kw:
        same = all(close(float(s3[nm]), float(s[nm]), 1e-10) for nm in ("wloc", "wscale", "wshape", "gloc", "gscale"))
        neg = all(close(float(s3[pkey(q)]), -float(s[pkey(q)]), 1e-10) for q in qlist)
        if not (same and neg and np.allclose(np.sort(s3["sample"]), np.sort(-s["sample"]))):
            fails.append(("minima variant is the mirror image of the maxima variant of the negated signal", {},
                          [float(s[nm]) for nm in ("wloc", "wscale", "wshape", "gloc", "gscale")] + [-v for v in pv],
                          [float(s3[nm]) for nm in ("wloc", "wscale", "wshape", "gloc", "gscale")] + [float(s3[pkey(q)]) for q in qlist]))
    # fan-out: database and GUI function
    if inp.get("fanout"):
        try:
            db = TsDB()
            db.add(ts)
            d1 = db.stats(statsdur=statsdur, quantiles=quant, is_minima=ismin, **kw)
            key = list(d1.keys())[0]
            names = ["mean", "wloc", "wscale", "wshape", "gloc", "gscale"] + [pkey(q) for q in qlist]
            badn = [nm for nm in names if nm not in d1[key] or not close(float(d1[key][nm]), float(s[nm]), 1e-12)]
            if badn:
                fails.append(("TsDB.stats equals TimeSeries.stats", {}, {nm: float(s[nm]) for nm in badn},
                              {nm: float(d1[key].get(nm, np.nan)) for nm in badn}))
            fails += db_clauses(inp, t, x, kw, quant, qlist, dist)
            twin = kw.get("twin", (t[0], t[-1]))
            fargs = kw.get("filterargs")
            g = calculate_stats({"s": ts}, twin, fargs, minima=ismin)["s"]
            ref = ts.stats(twin=twin, filterargs=fargs, statsdur=10800., quantiles=(0.37, 0.57, 0.9), is_minima=ismin,
                           include_sample=True)
            names = ("mean", "wloc", "gloc", "gscale", "p_37.00", "p_57.00", "p_90.00")
            badn = [nm for nm in names if not close(float(g[nm]), float(ref[nm]), 1e-12)]
            if badn:
                fails.append(("app.funcs.calculate_stats equals TimeSeries.stats with the GUI defaults", {},
                              {nm: float(ref[nm]) for nm in badn}, {nm: float(g[nm]) for nm in badn}))
            fails += gui_clauses(ts, TimeSeries("s_neg", t, -x), twin, fargs, ismin, dist, inp.get("faults"))
            # GUI defaults obey the chain as well
            if all(np.isfinite([float(g[nm]) for nm in names])) and np.size(g["sample"]) >= 2:
                ng = round(10800. / (g["end"] - g["start"]) * np.size(g["sample"]))
                gl, gs = weibull2gumbel(g["wloc"], g["wscale"], g["wshape"], ng)
                exp = [sign * float(v) for v in Gumbel(gl, gs).invcdf(p=[0.37, 0.57, 0.9])]
                got = [float(g[nm]) for nm in ("p_37.00", "p_57.00", "p_90.00")]
                if not (close(float(gl), float(g["gloc"]), 1e-12) and close(float(gs), float(g["gscale"]), 1e-12) and allclose(exp, got, 1e-12)):
                    fails.append(("app.funcs.calculate_stats: quantiles are those of the Gumbel derived from the reported Weibull "
                                  "parameters and n", {}, [float(gl), float(gs)] + exp, [float(g["gloc"]), float(g["gscale"])] + got))
        except Exception as e:
            fails.append(("TsDB.stats / calculate_stats are entry points of the chain (must not raise)", {}, "summary", repr(e)))
    # the arrays of the caller and of the series after all queries (rejected ones included): later summaries describe the same signal
    changed = [nm for nm, u, v in (("signal array given", x, x_given), ("time array given", t, t_given),
                                   ("signal held by the series", ts.x, x_given), ("time held by the series", ts.t, t_given),
                                   ("quantiles given", np.asarray(quant, dtype=float), np.array(qlist)))
               if not np.array_equal(np.asarray(u), v)]
    rs = (inp.get("kwargs") or {}).get("resample")
    if isinstance(rs, dict) and not np.array_equal(np.asarray(kw["resample"], dtype=float), np.linspace(*rs["linspace"])):
        changed.append("resampling times given")
    if changed:
        fails.append(("the summary describes the signal given: the caller's arrays and the series' own arrays are the same after the "
                      "queries (rejected calls included)", {}, "unchanged", changed))
    return fails


def gen_summary(rng, fanout, seed):
    n = rng.choice([600, 1200, 3000])
    sig_seed = rng.randint(0, 10 ** 9)
    tmode = rng.choice(["uniform", "uniform", "uniform", "two-rate", "jitter", "gap"])     # constant / non-constant time step
    t = make_time(sig_seed, n, tmode)
    kw = {}
    mode = rng.random()
    if mode < 0.3:
        kw["twin"] = [float(t[n // 10]), float(t[-n // 10])]
    elif mode < 0.5:
        kw["filterargs"] = ["lp", 0.2]
    elif mode < 0.6:
        kw["twin"] = [float(t[n // 10]), float(t[-n // 10])]
        kw["filterargs"] = ["lp", 0.2]
    if rng.random() < 0.3:
        # summary of the resampled series: new constant step (finer, equal to, coarser than the stored one) or a new time array
        if "twin" in kw or rng.random() < 0.6:
            kw["resample"] = rng.choice([0.25, 0.5, 0.3, 0.8, 1.0, 1.5])
        else:
            t0, t1 = float(t[n // 20]), float(t[-n // 20])
            kw["resample"] = dict(linspace=[t0, t1, int((t1 - t0) / rng.choice([0.4, 0.5, 1.0])) + 1], aslist=rng.random() < 0.5)
    quant = rng.sample(QPOOL, rng.choice([2, 3, 3, 4]))
    order = rng.random()
    if order < 0.35:
        quant = sorted(quant)                           # ascending, as the default
    elif order < 0.5:
        quant = sorted(quant, reverse=True)
    return dict(kind="summary", sig_seed=sig_seed, n=n, tmode=tmode, step=rng.choice([1. / 1024, 1. / 1024, 0.125, 0.5]),
                level=rng.choice([0.0, -5.0, 3.0]),           # also signals at a negative level
                kwargs=kw, statsdur=rng.choice([10800., 3600., 1000.]), sdtype=rng.choice(SD_TYPES), quantiles=quant,
                qtype=rng.choice(["tuple", "tuple", "list", "array"]), is_minima=rng.random() < 0.4,
                a=rng.choice([0.5, 2.0, 4.0]), b=float(rng.randint(-8, 8)), prior=rng.random() < 0.4, fanout=fanout, verif_seed=seed,
                unit=rng.choice([0, 0, 0, -40, -34, 30]),
                twtype=rng.choice(["tuple", "tuple", "list", "array"]), ftype=rng.choice(["tuple", "list"]),
                faults=gen_faults(rng, fanout))


LONG_GROUPS = ((999, 1000, 1001, 1023, 1024, 1025), (4095, 4096, 4097), (9999, 10000, 10001), (65535, 65537, 70001))
LONG_BLOCKS = (1000, 1024, 4096, 10000, 65536)


def gen_long_summary(rng, n, seed, fanout=False):
    """summary case on a LONG record (size-conditioned code paths): the extreme of the signal (a spike, or a plateau of equal
    samples) in the first / last samples, exactly at a multiple of 1000 / 1024 / 4096 / 10000 / 65536 or spanning it"""
    inp = gen_summary(rng, fanout, seed)
    ismin = inp["is_minima"]
    blocks = [B for B in LONG_BLOCKS if B + 40 < n]
    # two events per record: the extreme the summary's variant is about (maximum, or minimum for minima) and the opposite extreme;
    # one of them in the first / last samples, the other at / across a block boundary (short records: mid-record)
    ends, inner = rng.choice(["first", "last", "last"]), rng.choice(["at", "span", "span"] if blocks else ["interior"])
    wheres = [ends, inner] if rng.random() < 0.5 else [inner, ends]
    events = []
    for where, sgn in zip(wheres, (-1.0, 1.0) if ismin else (1.0, -1.0)):
        width = rng.choice([1, 2, 3, 5])
        if where == "first":
            pos = rng.choice([0, 1, 2])
        elif where == "last":
            pos = -(width + rng.choice([0, 0, 1, 2]))
        elif where == "interior":
            pos = n // 2
        else:
            B = rng.choice(blocks[-2:])
            m = B * rng.randint(1, (n - 40) // B)
            pos = m if where == "at" else m - rng.randint(1, width - 1) if width > 1 else m - 1
        events.append(dict(pos=pos, width=width, height=sgn * rng.choice([0.5, 4.0, 8.0]), flat=width > 1))
    kw = {}
    mode = rng.random()
    if mode < 0.25:
        kw["twin"] = [0.5 * (n // 50), 0.5 * (n - 1)] if ends == "last" else [0.0, 0.5 * (n - 1 - n // 50)]
    elif mode < 0.35:
        kw["filterargs"] = ["lp", 0.2]
    elif mode < 0.45:
        kw["resample"] = rng.choice([0.25, 1.0])
    return dict(inp, n=n, tmode="uniform", kwargs=kw, long="+".join(wheres), event=events)


# ---- Weibull -> Gumbel formulas ------------------------------------------------------------------------------------------------------
def chain_clauses(w, g, n, where=""):
    """the property's defining clauses for the Gumbel parameters g derived from the Weibull object w (as it is now) and n"""
    fails = []
    scale = float(w.scale)
    q = float(w.invcdf(p=[1 - 1 / n])[0])
    if not abs(q - g[0]) <= 1e-9 * (abs(q) + scale) + scale * 1e-9:
        fails.append(("gloc is the Weibull 1-1/n quantile" + where, q, float(g[0])))
    f = float(w.pdf(x=[g[0]])[0])
    e = 1 / (n * f) if f > 0 else float("inf")         # (gloc outside the support: density 0)
    if not close(e, float(g[1]), 1e-8):
        fails.append(("gscale == 1/(n * Weibull density at gloc)" + where, e, float(g[1])))
    return fails


def w2g_clauses(inp, dist=None):
    from qats.stats.weibull import Weibull, weibull2gumbel
    from qats.stats.gumbel import Gumbel
    loc, scale, shape, n = inp["loc"], inp["scale"], inp["shape"], inp["n"]
    nsp = spell(n, inp.get("ntype"))                    # n as float / int / numpy scalar
    fails = []
    g1 = weibull2gumbel(loc, scale, shape, nsp)
    w = Weibull(loc, scale, shape)
    g2 = w.gumbel_parameters(n=nsp)
    g3o = Gumbel.fit_from_weibull_parameters(loc, scale, shape, nsp)
    g3 = (g3o.loc, g3o.scale)
    if not all(close(float(a), float(b), 1e-12) for a, b in zip(g1 + g1, g2 + g3)):
        fails.append(("the three entry points give identical Gumbel parameters", fl(g1), fl(g2 + g3)))
    fails += chain_clauses(w, g1, n)
    # history on the SAME Weibull object: parameters re-assigned between calls of gumbel_parameters (same n or a new n, in any
    # spelling); after every step the clauses hold for the distribution the object describes now
    for k, st in enumerate(inp.get("history") or []):
        for a_, v in st.get("set", {}).items():
            setattr(w, a_, v)
        cur, nk = fl(w.params), float(st.get("n", n))
        where = " (history step %d on one object: %s re-assigned, n = %r, now loc, scale, shape = %r)" % (
            k + 1, "+".join(sorted(st.get("set", {}))) or "nothing", nk, cur)
        if st.get("fault"):
            weibull_fault(st["fault"], w, dist)         # a rejected call on the same object / module first
        at("Weibull.gumbel_parameters / weibull2gumbel / Gumbel.fit_from_weibull_parameters, history step %d" % (k + 1))
        try:
            nks = spell(nk, st.get("ntype"))
            gk = w.gumbel_parameters(n=nks)
            r1 = weibull2gumbel(*cur, nks)
            r3o = Gumbel.fit_from_weibull_parameters(*cur, nks)
            r3 = (r3o.loc, r3o.scale)
        except Exception as e:
            fails.append(("the three entry points give identical Gumbel parameters (must not raise)" + where, "parameters", repr(e)))
            break
        if not all(np.isfinite(fl(r1 + r3))):
            break
        if not (allclose(r1, gk, 1e-12) and allclose(r3, gk, 1e-12)):
            fails.append(("the three entry points give identical Gumbel parameters" + where, fl(r1 + r3), fl(gk)))
        fails += chain_clauses(w, gk, nk, where)
    return fails, g1, g3


N_TYPES = ("float", "float", "int", "np.int64", "np.float64")
SHAPES = (1.0, 2.0, 0.8, 1.3, 3.5)


def gen_history(rng, loc, scale, shape, n):
    """1-3 re-parameterisations of one Weibull object: positive affine map of the peaks (loc -> a*loc+b, scale -> a*scale), a new
    shape, or nothing; mostly the SAME n asked again (possibly in another spelling), sometimes a new one"""
    hist = []
    for _ in range(rng.choice([1, 2, 2, 3])):
        what = rng.choice(["affine", "affine", "scale", "loc", "shape", "all", "nothing"])
        a, b = rng.choice([0.5, 2.0, 3.0]), float(rng.randint(-7, 7))
        st = {}
        if what in ("affine", "all"):
            loc, scale = a * loc + b, a * scale
            st.update(loc=loc, scale=scale)
        if what == "scale":
            scale = a * scale
            st.update(scale=scale)
        if what == "loc":
            loc = loc + (b or 1.0)
            st.update(loc=loc)
        if what in ("shape", "all"):
            shape = rng.choice([v for v in SHAPES if v != shape])
            st.update(shape=shape)
        if rng.random() < 0.2:
            n = float(rng.choice([2, 17, 1000, 2437]))
        hist.append(dict(set=st, n=n, ntype=rng.choice(N_TYPES)))
        if rng.random() < 0.4:
            hist[-1]["fault"] = rng.choice(BAD_WEIBULL)
    return hist


def run(chk):
    from qats import TimeSeries
    chk.extra["rule"] = RULE
    chk.partial += ["statistics summary: composed of C11 (pipeline), C14 (maxima), C16 (pwm) and the identities proved here; its "
                    "consistency / equivariance / mirror clauses are checked on the implementation, not restated as one theorem"]
    rng = chk.rng
    corpus = core.load_corpus("C17")
    drv = core.Driver()
    N = 200 if chk.quick else 3000
    lines, meta = [], []
    for _ in range(N):
        loc = rng.choice([0.0, round(rng.uniform(-20, 20), 3)])
        scale = round(10 ** rng.uniform(-1, 1.5), 4)
        shape = rng.choice([1.0, 2.0, round(rng.uniform(0.6, 6), 3)])
        n = float(rng.choice([2, 3, 10, 100, 2437, 10 ** 6, round(10 ** rng.uniform(0.4, 6), 2)]))
        meta.append((loc, scale, shape, n))
        lines.append("gen.w2g_loc %s" % " ".join(fbits(v) for v in (loc, n, scale, shape)))
        lines.append("gen.w2g_scale %s" % " ".join(fbits(v) for v in (n, scale, shape)))
        lines.append("gen.wfw_loc %s" % " ".join(fbits(v) for v in (n, loc, scale, shape)))
        lines.append("gen.wfw_scale %s" % " ".join(fbits(v) for v in (n, scale, shape)))
    outs = drv.run(lines)
    for i, (loc, scale, shape, n) in enumerate(meta):
        m = [unfbits(o.split()[1]) for o in outs[4 * i:4 * i + 4]]
        inp = dict(kind="w2g", loc=loc, scale=scale, shape=shape, n=n, ntype=rng.choice(N_TYPES),
                   history=gen_history(rng, loc, scale, shape, n))
        inp0 = inp if i == 0 else inp0
        chk.count("w2g")
        chk.dist("w2g:n-as-%s:history-%d" % (inp["ntype"] if n == round(n) else "float", len(inp["history"])))
        chk.nontriv(repr(inp))
        st_, val = guarded(lambda: w2g_clauses(inp, chk.dist))
        if st_ == "hang":
            chk.fail(RETURNS, inp, "returns within %g s" % CASE_LIMIT, "no return from: %s" % val)
            break
        if st_ == "raised":
            chk.fail("the three entry points give identical Gumbel parameters (must not raise)", inp, "parameters", repr(val))
            continue
        fails, g1, g3 = val
        if not (close(m[0], g1[0]) and close(m[1], g1[1]) and close(m[2], g3[0]) and close(m[3], g3[1])):
            chk.disagree("w2g", inp, m, [float(v) for v in g1 + g3])
        for f in fails:
            chk.fail(f[0], inp, f[1], f[2])
    # past failures: parameter / n histories on one Weibull object (clauses on the implementation)
    for inp in [c for c in corpus if c.get("kind") == "w2g"]:
        chk.count("w2g")
        chk.nontriv(repr(inp))
        chk.dist("w2g:corpus:history-%d" % len(inp.get("history") or []))
        st_, val = guarded(lambda: w2g_clauses(inp, chk.dist)[0])
        if st_ == "hang":
            chk.fail(RETURNS, inp, "returns within %g s" % CASE_LIMIT, "no return from: %s" % val)
            break
        fails = val if st_ == "ok" else [("the three entry points give identical Gumbel parameters (must not raise)", "parameters", repr(val))]
        for f in fails:
            chk.fail(f[0], inp, f[1], f[2])
    # entry point on a fitted distribution (sample attached): an explicit n is honoured, the default is the sample size.
    # Samples: continuous, logged with one decimal, integer-valued (exact ties), given as ndarray or list, any order
    fits = [c for c in corpus if c.get("kind") == "fit"]
    for _ in range(40 if chk.quick else 400):
        fits.append(dict(kind="fit", w0=[round(rng.uniform(0, 5), 2), round(rng.uniform(0.5, 4), 2), rng.choice([1.5, 2.0, 3.0])],
                         size=rng.choice([30, 80]), seed=rng.randint(0, 10 ** 6), decimals=rng.choice([None, None, 1, 0]),
                         order=rng.choice(["drawn", "ascending", "descending"]), aslist=rng.random() < 0.3,
                         method=rng.choice(["pwm", "pwm", "msm"]), n=float(rng.choice([7, 1000, 12345])),
                         history=[dict(a=rng.choice([0.5, 2.0, 3.0]), b=float(rng.randint(-7, 7)),
                                       shape_factor=rng.choice([1.0, 1.0, 1.25]), ntype=rng.choice(N_TYPES),
                                       fault=rng.choice((None, None) + BAD_WEIBULL))
                                  for _ in range(rng.choice([0, 1, 2]))],
                         faults=rng.sample(BAD_WEIBULL, rng.choice([0, 1, 2]))))
    for inp in fits:
        chk.count("w2g-fitted")
        chk.nontriv(repr(inp))
        chk.dist("fit:%s:%s" % (inp["method"], {None: "continuous", 1: "one-decimal", 0: "integer"}[inp.get("decimals")]))
        if HANGS["n"]:
            break
        st_, val = guarded(lambda: fit_clauses(inp, chk.dist))
        if st_ == "hang":
            chk.fail(RETURNS, inp, "returns within %g s" % CASE_LIMIT, "no return from: %s" % val)
            break
        for f in (val if st_ == "ok" else [("the fitted-distribution entry points must not raise", "parameters", repr(val))]):
            chk.fail(f[0], inp, f[1], f[2])
    chk.sample(inp0)
    chk.sample(fits[-1])
    # ---- correspondence of the extreme-value chain of the summary with Qats.Stats.summary (Float) ---------------------------------
    sl, sm = [], []
    for k in range(12 if chk.quick else 150):
        n = rng.choice([600, 1200])
        sig = dict(sig_seed=rng.randint(0, 10 ** 9), n=n, step=1. / 1024, level=rng.choice([0.0, -5.0, 3.0]))
        t, x = make_signal(**sig)
        ismin = rng.random() < 0.5
        sd = rng.choice([10800., 3600., 1000.])
        qs = [0.37, 0.57, 0.9]
        rng.shuffle(qs)                                 # quantiles in any order: reply compared position by position
        ts = TimeSeries("s", t, x)
        sdt = rng.choice(SD_TYPES)
        s_ = ts.stats(statsdur=spell(sd, sdt), quantiles=tuple(qs), is_minima=ismin, include_sample=True)
        dur = float(t[-1] - t[0])
        sl.append("st.summary %d %s %s %s %s" % (ismin, fbits(sd), fbits(dur), ",".join(fbits(q) for q in qs), " ".join(fbits(v) for v in x)))
        sm.append((s_, dict(sig, statsdur=sd, sdtype=sdt, is_minima=ismin, quantiles=list(qs)), list(qs)))
    for (s_, inp, qs), o in zip(sm, drv.run(sl)):
        chk.count("st.summary")
        if o.strip() == "ok none":
            if np.size(s_["sample"]) > 1:
                chk.disagree("st.summary", inp, o, "summary with %d maxima" % np.size(s_["sample"]))
            continue
        a, b, c = o[3:].split("|")
        mv = [unfbits(v) for v in a.split()] + [unfbits(v) for v in b.split()]
        im = [float(s_[k2]) for k2 in ("wloc", "wscale", "wshape", "gloc", "gscale")] + [float(s_.get(pkey(q), np.nan)) for q in qs]
        if int(c) != np.size(s_["sample"]) or not all(close(x1, x2, 1e-8) or (np.isnan(x1) and np.isnan(x2)) for x1, x2 in zip(mv, im)):
            chk.disagree("st.summary", inp, mv, im)
    # ---- statistics summary ------------------------------------------------------------------------------------------------
    S = 30 if chk.quick else 300
    cases = [c for c in corpus if c.get("kind") == "summary"]
    cases += [gen_summary(rng, k < (8 if chk.quick else 40), chk.seed) for k in range(S)]
    # long records (size-conditioned code paths): n just below / at / above 1000, 1024, 4096, 10000 and beyond 65536
    if chk.quick:
        long_n = [rng.choice(g) for g in LONG_GROUPS]
    else:
        long_n = [n_ for g in LONG_GROUPS for n_ in g] * 2
    for k, n_ in enumerate(long_n):
        cases.append(gen_long_summary(rng, n_, chk.seed, fanout=(k == 1) if chk.quick else k % 5 == 0))
        chk.dist("stats:long:n%d:%s" % (n_, cases[-1]["long"]))
    for inp in cases:
        chk.count("stats")
        chk.nontriv(repr(inp))
        if HANGS["n"]:                                  # (calls stopped returning: no point in waiting for every further case)
            chk.dist("stats:skipped-after-hang")
            continue
        st_, val = guarded(lambda: summary_clauses(inp, chk.dist))
        if st_ == "hang":
            fails = [(RETURNS, {}, "returns within %g s" % CASE_LIMIT, "no return from: %s" % val)]
        elif st_ == "raised":
            fails = [("the statistics summary and its entry points must not raise", {}, "summary", repr(val))]
        else:
            fails = val
        for f in fails:
            chk.fail(f[0], dict(inp, **f[1]), f[2], f[3])
    chk.sample(cases[-1])
    # ---- descriptive half of the summary: Qats.Moments (st.moments / st.momentsq) vs TimeSeries.stats + its clauses as oracles ----
    c17_moments.run_moments(chk, drv)
    from .gen_ties import run_statsn_tie
    run_statsn_tie(chk, drv)    # regenerated argument of round() in TimeSeries.stats against the n handed to weibull2gumbel


def replay(rp):
    inp = rp["input"]
    if inp.get("kind") == "moments":
        return c17_moments.replay_moments(rp)
    kind = inp.get("kind") or ("w2g" if "shape" in inp else None)
    if kind == "w2g":
        call = lambda: [(f[0], f[1], f[2]) for f in w2g_clauses(inp)[0]]
    elif kind == "fit":
        call = lambda: fit_clauses(inp)
    elif kind == "summary":
        call = lambda: [(f[0], f[2], f[3]) for f in summary_clauses(inp)]
    else:
        print("unknown input kind; re-run with the run's seed: VERIF_SEED=%s ./check C17 %s" % (inp.get("verif_seed"), rp.get("tier", "quick")))
        return 1
    st_, val = guarded(call)
    if st_ == "hang":
        fails = [(RETURNS, "returns within %g s" % CASE_LIMIT, "no return from: %s" % val)]
    elif st_ == "raised":
        fails = [("the entry points of the chain must not raise", "clauses evaluated", repr(val))]
    else:
        fails = val
    for f in fails:
        print("FAILS: %s\n   expected %s\n   observed %s" % f)
    print("replay: %d failing clause(s)" % len(fails))
    return 1 if fails else 0
