"""C08, oracle stream `big`: histories on LARGE registries (31 ... 300 series from a wide file of one of six formats, plus in-memory
series, plus the series of a second wide file brought in by `update`), long enough to cross 32 / 64 / 128 / 256 keys in both
directions.  Independent of the Lean model: a plain list of (key, origin) follows the registry.

The operations are generated from the plain model alone (so a case is reproduced from its seed), random ones alternating with a
scripted block (add, add of that name again, rename of the series just added, add under its new name, add under its former name,
clear, add of a registered name, add of a freed name): add (new / duplicate of a name that
is registered NOW, e.g. the new name of a renamed series / the former name of a renamed series, which is free again), rename (ok /
clash / unknown / ambiguous) of the series at the first / last position and at positions 31-33, 63-65, 127-129, 255-257, clear (one
key / several keys at such positions), update (deep / shallow, subset of the other database in a given order; clash with a key
brought in earlier, placed LAST in the request), copy (deep / shallow, all / subset), getm / getl by names or index lists (store on /
off), get by index.  After EVERY operation:
  * size, listing, iteration order, containment and the three dictionaries describe the keys of the plain model, in its order;
  * a rejected operation raised the documented kind of error and left keys, cached objects (identity), parents and indices as
    they were; an operation the model accepts is accepted;
  * the series at the watched positions (first, last, around 32 / 64 / 128 / 256, three random ones) are retrievable by key and by
    index and hold the name and the data the plain model predicts;
  * store=False leaves no data behind (what was not cached is not cached afterwards), store=True makes later retrievals return the
    very same object."""
import os
import random
import shutil
import tempfile

import numpy as np

FMTS = ["pkl", "ts", "csv", "dat", "tda", "mat"]
SIZES = [31, 33, 63, 65, 127, 129, 255, 300]
EDGES = (0, 1, 31, 32, 33, 63, 64, 65, 127, 128, 129, 255, 256, 257)

T_COHERENT = "size, listing, iteration and per-series bookkeeping describe one set of unique keys in registration order"
T_DATA = "every listed series is retrievable and holds the data a plain dictionary model predicts"
T_REJECT = "a rejected operation (duplicate key, unknown or ambiguous name) leaves the database exactly as it was"
T_ACCEPT = "an operation on unique, registered names is carried out (the registry is the one a plain dictionary model predicts)"
T_STORE_TRUE = "with caching enabled later retrievals return the very same object"
T_STORE_FALSE = "retrieval with caching disabled leaves no data behind"


def positions(n, r, extra=3):
    pos = {p for p in EDGES if p < n} | {n - 1, n - 2}
    for _ in range(extra):
        pos.add(r.randrange(n))
    return sorted(p for p in pos if 0 <= p < n)


def run_case(case, limit=4):
    """[(clause, detail, expected, observed)]"""
    from qats import TimeSeries, TsDB
    from . import c01, c01_long
    from .c08 import coherent
    r = random.Random(case["seed"])
    bad = []
    root = tempfile.mkdtemp(prefix="qv08b_")
    try:
        nsamp = 4
        specs, paths = [], []
        for which, (fmt, k) in enumerate(((case["fmt"], case["k"]), (case["fmt2"], case["k2"]))):
            sp = c01_long.make_spec(dict(fmt=fmt, n=nsamp, k=k, seed=case["seed"] + which, layout="wide"))
            sp["dir"] = "d%d" % which
            sp["base"] = "big%d_elmfor" % which
            specs.append(sp)
            paths.append(c01.write_file(root, sp))
        tols = [1e-6 if sp["fmt"] in ("ts", "tda") else 1e-12 for sp in specs]
        mem = {}

        def mem_series(i, name):
            t = np.arange(nsamp) * 0.5
            x = 5.0e6 + 16.0 * i + np.arange(nsamp)
            mem[i] = (t, x)
            return TimeSeries(name, t.copy(), x.copy())

        def truth(org):
            if org[0] == "file":
                sp = specs[org[1]]
                return np.asarray(sp["time"], dtype=float), np.asarray(sp["cols"][org[2]], dtype=float), tols[org[1]]
            t, x = mem[org[1]]
            return t, x, 1e-12

        def holds(ts, org):
            t, x, tol = truth(org)
            a, b = np.asarray(ts.t, dtype=float), np.asarray(ts.x, dtype=float)
            return a.shape == t.shape and b.shape == x.shape and bool(np.all(np.abs(a - t) <= tol * np.maximum(1, np.abs(t)))) and \
                bool(np.all(np.abs(b - x) <= tol * np.maximum(1, np.abs(x))))

        # plain models: lists of [key, name, origin]
        A, B = TsDB(), TsDB()
        mA, mB = [], []
        steps = []

        def snap(db):
            return (list(db.register_keys), [(k, id(v)) for k, v in db.register.items()], list(db.register_parent.items()),
                    [(k, repr(v)) for k, v in db.register_indices.items()], db.n)

        def fail(clause, what, exp, obs):
            bad.append((clause, dict(step=len(steps), op=steps[-1] if steps else None, what=what), exp, obs))

        def audit(db, model, tag, deep=True):
            keys = [e[0] for e in model]
            probs = []
            try:
                probs = coherent(db)
                if list(db.register_keys) != keys:
                    got = list(db.register_keys)
                    i = next((i for i, (a, b) in enumerate(zip(got, keys)) if a != b), min(len(got), len(keys)))
                    probs.append("register_keys differ from the plain model at position %d of %d / %d: %s vs %s" % (
                        i, len(got), len(keys), os.path.basename(got[i]) if i < len(got) else None,
                        os.path.basename(keys[i]) if i < len(keys) else None))
            except Exception as e:      # noqa
                probs.append("inspection raised %s: %s" % (type(e).__name__, str(e)[:120]))
            if probs:
                fail(T_COHERENT, tag, "coherent registry equal to the plain model (%d keys)" % len(keys), probs[:3])
                return False
            if not deep or not keys:
                return True
            for p in positions(len(keys), r):
                key, name, org = model[p]
                was = db.register.get(key)
                try:
                    ts = db.get(name=key, store=False)
                    ti = db.get(ind=p, store=False)
                    inside = key in db
                except Exception as e:      # noqa
                    fail(T_DATA, "%s: position %d (%s)" % (tag, p, os.path.basename(key)), "series", "raised %s: %s" % (
                        type(e).__name__, str(e)[:120]))
                    return False
                if not inside:
                    fail(T_COHERENT, "%s: containment of the key at position %d" % (tag, p), True, False)
                    return False
                for how, s in (("by key", ts), ("by index", ti)):
                    if s.name != name or not holds(s, org):
                        fail(T_DATA, "%s: position %d of %d %s" % (tag, p, len(keys), how), dict(name=name, origin=list(org)),
                             dict(name=s.name, x=[float(v) for v in np.asarray(s.x).ravel()[:4]]))
                        return False
                if was is None and db.register.get(key) is not None:
                    fail(T_STORE_FALSE, "%s: position %d" % (tag, p), None, "a series is cached")
                    return False
                if was is not None and (ts is not was or ti is not was):
                    fail(T_STORE_TRUE, "%s: position %d" % (tag, p), "the cached object", "another object")
                    return False
            return True

        def attempt(db, model, fn, expect, tag):
            """expect: None = the model accepts the operation; else the exception class a rejection raises.  Returns (ok, result)"""
            before = snap(db)
            try:
                res = fn()
            except Exception as e:      # noqa
                if expect is None:
                    fail(T_ACCEPT, tag, "done", "raised %s: %s" % (type(e).__name__, str(e)[:160]))
                    return False, None
                if not isinstance(e, expect):
                    fail(T_REJECT, tag + " (kind of error)", expect.__name__, "%s: %s" % (type(e).__name__, str(e)[:160]))
                    return False, None
                after = snap(db)
                if after != before:
                    w = [nm for nm, a, b in zip(("register_keys", "register (objects)", "register_parent", "register_indices", "n"),
                                                before, after) if a != b]
                    fail(T_REJECT, tag, "unchanged", "changed: " + ", ".join(w))
                    return False, None
                return True, None
            if expect is not None:
                fail(T_REJECT, tag, "raises " + expect.__name__, "accepted")
                return False, None
            return True, res

        def rel(key):
            return key.split(os.path.sep)[-1]

        # ---- the history ---------------------------------------------------------------------------------------------------
        steps.append(["load", case["fmt"], case["k"]])
        ok, _ = attempt(A, mA, lambda: A.load(paths[0], read=bool(case["read"])), None, "load")
        if not ok:
            return bad
        mA += [[paths[0] + os.path.sep + nm, nm, ("file", 0, j)] for j, nm in enumerate(specs[0]["names"])]
        B.load(paths[1])
        mB += [[paths[1] + os.path.sep + nm, nm, ("file", 1, j)] for j, nm in enumerate(specs[1]["names"])]
        if not audit(A, mA, "after load"):
            return bad
        nmem, nren = 0, 0
        freed = []                  # names that were registered once and are free now (renamed away / cleared)
        brought = []                # keys of B already brought into A
        kinds = ["add", "add", "add_dup", "rename", "rename", "rename_clash", "rename_unknown", "rename_ambiguous", "clear", "clear_many",
                 "update", "update", "update_clash", "copy", "getm", "getm", "geti", "add_freed", "add_renamed"]
        # scripted blocks between the random operations: a name must be taken / free according to the registry as it is NOW
        block = ["add", "add_dup", "rename_last", "add_renamed", "add_freed", "clear", "add_dup", "add_freed"]
        plan = []
        while len(plan) < case["nops"]:
            plan += block + [r.choice(kinds) for _ in range(r.randint(4, 8))]
        for kind in plan[:case["nops"]]:
            n = len(mA)
            keysA = [e[0] for e in mA]
            edge = positions(n, r, extra=2) if n else []
            if n < 8 and kind.startswith("clear"):
                kind = "add"
            try:
                common = A.common
            except Exception:           # noqa
                common = ""
            if kind in ("add", "add_freed"):
                if kind == "add_freed" and freed:
                    name = freed.pop(r.randrange(len(freed)))
                else:
                    nmem += 1
                    name = "m%d" % nmem
                key = os.path.join(common, name)
                if key in keysA:
                    continue
                nmem += 1
                ts = mem_series(nmem, name)
                steps.append(["add", name])
                ok, _ = attempt(A, mA, lambda: A.add(ts), None, "add of a name that is not registered")
                if ok:
                    mA.append([key, name, ("mem", nmem)])
            elif kind in ("add_dup", "add_renamed"):
                cands = [e for e in mA if os.path.join(common, e[1]) == e[0]]
                if kind == "add_renamed":
                    cands = [e for e in cands if e[1].startswith("r")]
                if not cands:
                    continue
                e = cands[-1] if r.random() < 0.7 else r.choice(cands)
                nmem += 1
                ts = mem_series(nmem, e[1])
                steps.append(["add_dup", e[1]])
                attempt(A, mA, lambda: A.add(ts), KeyError, "add of a name that is registered")
            elif kind in ("rename", "rename_last"):
                p = r.choice(edge) if kind == "rename" else n - 1
                nren += 1
                new = "r%d" % nren
                old = mA[p]
                newkey = os.path.join(os.path.dirname(old[0]), new)
                steps.append(["rename", p, rel(old[0]), new])
                ok, _ = attempt(A, mA, lambda: A.rename(old[0], new), None, "rename to a free name")
                if ok:
                    freed.append(old[1])
                    mA[p] = [newkey, new, old[2]]
            elif kind == "rename_clash":
                p = r.choice(edge)
                same_dir = [e for i, e in enumerate(mA) if i != p and os.path.dirname(e[0]) == os.path.dirname(mA[p][0])]
                if not same_dir:
                    continue
                other = same_dir[-1] if r.random() < 0.5 else r.choice(same_dir)
                steps.append(["rename_clash", p, rel(mA[p][0]), rel(other[0])])
                attempt(A, mA, lambda: A.rename(mA[p][0], rel(other[0])), ValueError, "rename to a name that is taken")
            elif kind == "rename_unknown":
                steps.append(["rename_unknown"])
                attempt(A, mA, lambda: A.rename("no_such_series", "zz"), LookupError, "rename of an unknown name")
            elif kind == "rename_ambiguous":
                steps.append(["rename_ambiguous"])
                attempt(A, mA, lambda: A.rename("*", "zz"), ValueError, "rename of an ambiguous name")
            elif kind == "clear":
                p = r.choice(edge)
                steps.append(["clear", p, rel(mA[p][0])])
                ok, _ = attempt(A, mA, lambda: A.clear(names=mA[p][0], display=False), None, "clear of one key")
                if ok:
                    freed.append(mA[p][1])
                    del mA[p]
            elif kind == "clear_many":
                ps = r.sample(edge, min(len(edge), r.randint(2, 5)))
                ks = [mA[p][0] for p in ps]
                steps.append(["clear_many", ps])
                ok, _ = attempt(A, mA, lambda: A.clear(names=ks, display=False), None, "clear of several keys")
                if ok:
                    mA[:] = [e for e in mA if e[0] not in ks]
            elif kind in ("update", "update_clash"):
                rest = [e for e in mB if e[0] not in brought and e[0] not in keysA]
                if len(rest) < 3:
                    continue
                m = min(len(rest), r.choice([1, 2, 7, 33]))
                take = r.sample(rest, m)
                if r.random() < 0.5:
                    take[0] = rest[-1] if rest[-1] not in take else take[0]
                shallow = r.random() < 0.5
                names = [e[0] for e in take]
                if kind == "update_clash":
                    inA = [k for k in brought if k in keysA]
                    if not inA:
                        continue
                    names = names + [inA[-1]]               # the clash comes last in the request
                    steps.append(["update_clash", len(names), shallow])
                    attempt(A, mA, lambda: A.update(B, names=names, shallow=shallow), KeyError, "update with a key that is registered")
                    continue
                steps.append(["update", [rel(k) for k in names[:6]], len(names), shallow])
                ok, _ = attempt(A, mA, lambda: A.update(B, names=names, shallow=shallow), None, "update with new keys")
                if ok:
                    for e in take:
                        mA.append([e[0], e[1], e[2]])
                        brought.append(e[0])
                    if shallow:
                        for e in take:
                            if A.register.get(e[0]) is not B.register.get(e[0]) or A.register.get(e[0]) is None:
                                fail(T_DATA, "shallow update: " + rel(e[0]), "the series object of the other database", "another object")
                                break
            elif kind == "copy":
                shallow = r.random() < 0.5
                sub = None if r.random() < 0.4 else [mA[p][0] for p in r.sample(edge, min(len(edge), r.randint(1, 6)))]
                steps.append(["copy", None if sub is None else [rel(k) for k in sub], shallow])
                ok, C = attempt(A, mA, lambda: A.copy(names=sub, shallow=shallow), None, "copy")
                if ok:
                    mC = list(mA) if sub is None else [next(e for e in mA if e[0] == k) for k in sub]
                    if audit(C, mC, "the copy", deep=True):
                        for e in mC[:3] + mC[-3:]:
                            a, c = A.register.get(e[0]), C.register.get(e[0])
                            if c is None or a is None or (c is a) != shallow:
                                fail(T_DATA, "copy(shallow=%s): %s" % (shallow, rel(e[0])),
                                     "the same object" if shallow else "an object of its own", "not so")
                                break
            elif kind == "getm":
                store = r.random() < 0.5
                ps = r.sample(edge, min(len(edge), r.randint(2, 8)))
                byind = r.random() < 0.5
                steps.append(["getm", ps, store, byind])
                cached = {mA[p][0]: A.register.get(mA[p][0]) for p in ps}
                kw = dict(ind=ps) if byind else dict(names=[mA[p][0] for p in ps])
                ok, got = attempt(A, mA, lambda: A.getm(store=store, fullkey=True, **kw), None, "getm of registered series")
                if ok:
                    if list(got.keys()) != [mA[p][0] for p in ps]:
                        fail(T_DATA, "getm: keys of the container", [rel(mA[p][0]) for p in ps], [rel(k) for k in got.keys()])
                    else:
                        for p in ps:
                            key, name, org = mA[p]
                            s = got[key]
                            if s.name != name or not holds(s, org):
                                fail(T_DATA, "getm: position %d" % p, dict(name=name, origin=list(org)), dict(name=s.name))
                                break
                            now = A.register.get(key)
                            if cached[key] is not None and s is not cached[key]:
                                fail(T_STORE_TRUE, "getm: position %d" % p, "the cached object", "another object")
                                break
                            if cached[key] is None and not store and now is not None:
                                fail(T_STORE_FALSE, "getm(store=False): position %d" % p, None, "a series is cached")
                                break
                            if store and now is not s:
                                fail(T_STORE_TRUE, "getm(store=True): position %d" % p, "the returned object is cached", "it is not")
                                break
            elif kind == "geti":
                p = r.choice(edge)
                steps.append(["geti", p])
                ok, s = attempt(A, mA, lambda: A.get(ind=p, store=True), None, "get by index")
                if ok:
                    key, name, org = mA[p]
                    if s.name != name or not holds(s, org) or A.get(name=key) is not s:
                        fail(T_DATA, "get(ind=%d of %d)" % (p, n), dict(name=name, origin=list(org)), dict(name=s.name))
            if len(bad) >= limit:
                break
            if not audit(A, mA, "after the operation"):
                break
            if len(bad) >= limit:
                break
        if not bad:
            # iteration: one series per key, in listing order, each the object cached under its key afterwards
            steps.append(["iter"])
            try:
                items = list(A)
                if len(items) != len(mA) or any(A.register.get(e[0]) is not s or s.name != e[1] or not holds(s, e[2])
                                                for e, s in zip(mA, items)):
                    fail(T_COHERENT, "iteration", "one series per key in listing order, with its data", "not so")
            except Exception as e:      # noqa
                fail(T_DATA, "iteration", "series", "raised %s: %s" % (type(e).__name__, str(e)[:120]))
    finally:
        shutil.rmtree(root, ignore_errors=True)
    return bad


def gen_cases(rng, quick):
    sizes = list(SIZES)
    rng.shuffle(sizes)
    sizes = sizes[:4] if quick else sizes * 3
    out = []
    for k in sizes:
        out.append(dict(kind="big", fmt=rng.choice(FMTS), k=k, fmt2=rng.choice(FMTS), k2=rng.choice([40, 70, 140]),
                        read=rng.random() < 0.3, nops=rng.choice([25, 40]), seed=rng.randrange(10 ** 6)))
    return out


def run_big(chk):
    for case in gen_cases(chk.rng, chk.quick):
        chk.count("big-registry")
        chk.dist("big: k=%d" % case["k"])
        try:
            bad = run_case(case)
        except Exception as e:      # noqa
            bad = [("a history on a large registry can be evaluated", {}, "result", "raised %s: %s" % (type(e).__name__, str(e)[:300]))]
        chk.nontriv(("big", case["k"], case["seed"]))
        for clause, detail, exp, obs in bad[:1]:
            chk.fail(clause, dict(case, detail=detail), exp, obs, clause="big")


def replay_big(inp):
    case = {k: v for k, v in inp.items() if k != "detail"}
    bad = run_case(case, limit=5)
    for clause, detail, exp, obs in bad[:5]:
        print("FAILS: %s: %s\n   expected %s\n   observed %s" % (clause, detail, str(exp)[:300], str(obs)[:300]))
    print("replay: %d failing clause(s)" % len(bad))
    return 1 if bad else 0
