"""
C03, clause "counting the extracted turning points with end points included reproduces the count of the original series",
evaluated on the implementation exactly where `find_reversals_spec_plateaus` / `recount_find_reversals_plateaus`
(lean/Qats/Props/C03.lean) say it holds — signals WITH plateaus included:

  hypothesis  pts = list(reversals(x)),  len(pts) >= 2,  E = find_reversals(x)[0],  E[0] == pts[0],  E[-1] == pts[-1]
  conclusion  list(reversals(E, endpoints=True)) == pts   and   count_cycles(E, endpoints=True) == count_cycles(x)
              and every extracted index carries its value (x[idx[k]] == E[k])

A failure is reported with clause "recount-find_reversals-plateaus" (NOT the clause of the F8b matcher: inside the theorem's
hypothesis nothing is excused).  Additionally the matcher of F8b is evaluated on every short signal satisfying the hypothesis:
it must answer False there (the finding covers only the excluded shape).
Inputs: all words over {0,1,2,3} of length 2..6 (thorough ..7) and seeded walks of 7..60 samples over small integers / halves
in which a sample repeats its predecessor with probability 0.2..0.6 (plateaus in ascents, descents, at extrema, at both ends).
"""
import itertools
import random
from fractions import Fraction

import numpy as np

CLAUSE = "recount-find_reversals-plateaus"


def has_plateau(x):
    return any(x[i] == x[i + 1] for i in range(len(x) - 1))


def evaluate(x):
    """x: list of Fractions (exact in binary64). -> (status, detail); status in 'raises', 'outside', 'ok', 'fails'"""
    from qats.signal import find_reversals
    from qats.fatigue.rainflow import reversals
    from .c03 import table, show
    xs = [float(v) for v in x]
    try:
        E, idx = find_reversals(np.array(xs))
        E, idx = [float(v) for v in E], [int(i) for i in idx]
        pts = [float(v) for v in reversals(xs)]
    except Exception as e:
        return "raises", "err:" + type(e).__name__
    if len(pts) < 2 or not E or E[0] != pts[0] or E[-1] != pts[-1]:
        return "outside", None
    try:
        if any(i < 0 or i >= len(xs) or xs[i] != v for i, v in zip(idx, E)) or len(idx) != len(E):
            return "fails", ("x[idx] == values", "idx=%s values=%s" % (idx, E))
        again = [float(v) for v in reversals(E, endpoints=True)]
        if again != pts:
            return "fails", ("reversals(E, endpoints=True) = %s" % pts, str(again))
        base, got = table(xs), table(E, True)
        if base != got:
            return "fails", (show(base), show(got))
    except Exception as e:
        return "fails", ("no exception", "err:" + type(e).__name__)
    return "ok", None


def gen_seeded(rng, count):
    out = []
    for _ in range(count):
        n = rng.randint(7, 60)
        prep = rng.choice([0.2, 0.4, 0.6])
        unit = rng.choice([Fraction(1), Fraction(1, 2), Fraction(4)])
        top = rng.choice([2, 3, 5, 9])
        x = [Fraction(rng.randint(0, top))]
        while len(x) < n:
            x.append(x[-1] if rng.random() < prep else Fraction(rng.randint(0, top)))
        if rng.random() < 0.3:                                  # plateau at the very start / end
            x = [x[0]] * rng.randint(1, 3) + x + [x[-1]] * rng.randint(1, 3)
        out.append([unit * v for v in x])
    return out


def run_stream(chk):
    from .c03 import is_f8b_shape
    rng = random.Random("C03 plateaus %d" % chk.seed)          # own stream: chk.rng's sequence stays as it was
    nmax = 6 if chk.quick else 7
    cases = [[Fraction(v) for v in w] for n in range(2, nmax + 1) for w in itertools.product([0, 1, 2, 3], repeat=n)]
    nshort = len(cases)
    cases += gen_seeded(rng, 150 if chk.quick else 3000)
    inside = plate = 0
    chk.partial[:] = [t for t in chk.partial if not t.startswith("find_reversals_spec_partial")] + [
        "find_reversals_spec_plateaus / recount_find_reversals_plateaus: proved for every signal (plateaus allowed) with >= 2 turning "
        "points whose first / last extracted value is the first / last turning point; the excluded shape is known finding F8b "
        "(a descending plateau, or a plateau at the very start followed by a descent, before the first or after the last turning point)"]
    for k, x in enumerate(cases):
        st, det = evaluate(x)
        chk.count("find_reversals-plateaus")
        inp = dict(kind="plateaus", series=[str(v) for v in x])
        if st == "raises":
            chk.fail("reversals / find_reversals must not raise", inp, "turning points", det, clause=CLAUSE)
            continue
        if st == "outside":
            continue
        inside += 1
        if has_plateau(x):
            plate += 1
            chk.nontriv("plateau:" + ",".join(inp["series"]))
        if st == "fails":
            chk.fail("first/last extracted value = first/last turning point, >= 2 turning points: reversals(find_reversals(x)[0], "
                     "endpoints=True) == reversals(x), same cycle table, x[idx] == values (find_reversals_spec_plateaus)",
                     inp, det[0], det[1], clause=CLAUSE)
        # the F8b matcher must not cover a signal inside the theorem's hypothesis (short signals; a seeded part of the rest)
        if k < nshort and (len(x) <= 5 or k % 4 == chk.seed % 4) or k >= nshort and k % 5 == 0:
            chk.count("F8b-matcher-outside-theorem")
            if is_f8b_shape(inp["series"]):
                chk.disagree("F8b-matcher-outside-theorem", inp, "hypothesis of find_reversals_spec_plateaus holds",
                             "is_f8b_shape answers True")
    chk.dist("plateau stream: %d signals, %d inside the hypothesis of the theorem, %d of them with plateaus"
             % (len(cases), inside, plate))


def replay_case(inp, report):
    x = [Fraction(v) for v in inp["series"]]
    st, det = evaluate(x)
    if st == "raises":
        report("reversals / find_reversals must not raise", inp, "turning points", det, CLAUSE)
    elif st == "fails":
        report("recount from find_reversals inside the hypothesis of find_reversals_spec_plateaus", inp, det[0], det[1], CLAUSE)
    else:
        print("plateau clause: %s" % st)
