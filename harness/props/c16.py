"""
C16 — estimators are equivariant, moment-exact and consistent; minima mirror maxima.

Tie: translator (closed forms of pwm / pwm2 / msm, skewness equation) + Float correspondence of `weibull.mlj`, the
closed-form estimators, and — for the iterative Gumbel estimators — of the very callables handed to fsolve / leastsq
(captured by wrapping the solvers) with the model's estimating equations / residual vectors.
Search: equivariance, moment exactness, recovery of exact large samples (measurement), minima = mirrored maxima; the same
clauses on samples given in other representations (integer dtypes, lists, views) and after every step of a history of fits
(re-used GumbelMin object, sequences of class-level / module-level calls); samples laid out as two-dimensional arrays
(row (1, n), column (n, 1), row / column views of a table of extremes); the application-level wrappers
`qats.app.funcs.calculate_gumbel_fit` / `calculate_stats` on containers of time series with zero, large positive and large
negative mean level (mirror of minima / maxima, equivariance, repeated calls on one container); the signal-level entries
that produce a fitted Weibull distribution (`Weibull.fromsignal`, `TimeSeries.fit_weibull`, `Weibull.fit(ts.maxima())`) on
signals with zero / slightly / strongly negative and positive mean level: equivariance under x -> a*x+b of the SIGNAL,
equality with the fit of the sample of global maxima, moment exactness, repeated calls on the same series / array.
Fault points: histories contain REJECTED requests (unknown / non-string method name, wrong call signature, unusable sample,
`fit_from_weibull_parameters` of GumbelMin) on the same object / the same module; the clauses are evaluated again on the
steps that follow (a GumbelMin object re-fitted on the sample it holds must still describe the sample of its last accepted
request).  First use / shared state: before anything else is fitted in the process, samples of sizes not used anywhere else
are fitted FIRST in an integer / list representation (then as float64, then a second float sample of the same size), with
exact quantile samples (recovery clause) and random samples (equivariance, flat equality, mirror), method names spelled
positionally / by keyword / as numpy strings.  Every history / first-use case runs in a worker thread with a time limit: a
request that does not return is a failing clause.
"""
import contextlib
import io
import math
import sys
import threading

import numpy as np

from .. import core
from ..core import fbits, unfbits
from .c05 import close

USES_TRANSLATOR = True
ANCHOR_PREFIX = ("wb_pwm", "wb_msm", "gu_", "gm_", "ecdf_median", "wb_mean", "wb_std", "wb_skew")
RULE = ("seeded samples (n in 8..400) drawn from Weibull / Gumbel / GumbelMin with random parameters, x affine maps a in "
        "{0.5,2,3.7,…}, b in [-50,50]; exact quantile samples of 10^4 points for the recovery measurement; "
        "the same samples in other representations (integer-valued in units of scale/8 as int64/int32/int16 arrays and lists of "
        "Python ints, lists / tuples of floats, non-contiguous views) through the module-level and the class entry; histories "
        "of 7-10 fits (one GumbelMin object: sample via constructor / fit(data=) / .data assignment / kept, methods mixed; "
        "sequences of Weibull.fit / Gumbel.fit / module calls) with the clauses evaluated after every step; two-dimensional "
        "layouts (row (1,n), column (n,1), row / column views of a 3-row / 3-column table) with flat-equality, equivariance and "
        "mirror clauses; containers of 2-12 time series (noise around a mean level of 0, +-5, +-60, +-2000 standard deviations, "
        "optional time window) through app.funcs.calculate_gumbel_fit / calculate_stats with minima=False/True; signals (narrow-banded "
        "sums of 40 cosines or smoothed noise, 1500-6000 points, mean level 0, +-0.1..3, +-60 standard deviations, float64 array / "
        "strided view / read-only array, optional time window) through Weibull.fromsignal / TimeSeries.fit_weibull / "
        "Weibull.fit(ts.maxima()) with methods msm, pwm (pwm2 when all global maxima are positive), shifts b that move the "
        "mean level below / across / above zero; rejected requests (method names 'pwm'/'pwm2'/'lsq'/''/'m s m', method=None / 3, "
        "too many positional arguments, misspelled keyword, empty / string / None sample, constant sample for the Weibull msm, "
        "GumbelMin.fit_from_weibull_parameters) inserted into every history, each followed by accepted requests (GumbelMin: a re-fit "
        "on the sample the object holds); first-use cases at the start of the run (sample sizes 64..900 drawn without "
        "replacement and different from every size used later: 8,20,50,120,400,10^4; representation int64 / int32 / int16 / "
        "list of ints / list of floats / float64 fitted before or after the float64 spelling; exact quantile samples in units "
        "of scale/1000, n >= 300, or random samples in units of scale/8; a second float64 sample of the same size afterwards); "
        "corpus cases first; "
        "population moments: Gumbel / GumbelMin objects with (loc, scale) from a fixed pool (|loc|/scale from 0 to 2000, scale "
        "0.01..1000) plus seeded random pairs, beta0, beta1, M101, variance by scipy quadrature of the object's own pdf / cdf, the "
        "real pwm / msm called on two-point samples that carry exactly these moments; "
        "long samples (size-conditioned code paths): n in {999,1000,1001,1023,1024,1025 | 4095,4096,4097 | 9999,10000,10001 | 65535,"
        "65537,70001,131073} (quick: one size per group, thorough: all), random or exact-quantile samples whose three largest values "
        "and smallest value are swapped to the first / last elements or to the positions m, m-1, m+1 around the largest multiple m of "
        "1000 / 1024 / 4096 / 10000 / 65536 below n, or handed over sorted; every method of the distribution: equivariance, "
        "reversed order, msm moments against exactly rounded sums, mirror, recovery; model correspondence of the closed forms on "
        "the same samples (n <= 4097 in quick); "
        "non-trivial = every sample (all have distinct values); distinct by (distribution, parameters, n, seed)")


def fl(o):
    return [unfbits(t) for t in o.split()[1:]]


def capture(module, name):
    """wrap module.<name> (fsolve / leastsq) to record the function and extra args it is called with"""
    rec = {}
    orig = getattr(module, name)

    def wrapper(func, *a, **kw):
        rec["func"], rec["args"], rec["x0"] = func, kw.get("args", a[1] if len(a) > 1 else ()), (a[0] if a else None)
        out = orig(func, *a, **kw)
        rec["out"] = out
        return out
    setattr(module, name, wrapper)
    return rec, lambda: setattr(module, name, orig)


def qmods():
    from qats.stats import weibull, gumbel, gumbelmin
    return dict(mod=dict(wb=weibull, gu=gumbel, gm=gumbelmin),
                cls=dict(wb=weibull.Weibull, gu=gumbel.Gumbel, gm=gumbelmin.GumbelMin))


def make_sample(Q, info):
    cls = Q["cls"][info["dist"]]
    d = cls(info["loc"], info["scale"], info.get("shape", 2.0)) if info["dist"] == "wb" else cls(info["loc"], info["scale"])
    if info.get("exact"):         # the n quantiles at the plotting positions (i+0.5)/n, in an order fixed by the seed
        n = info["n"]
        x = np.asarray(d.invcdf(p=(np.arange(n) + 0.5) / n), dtype=float)
        return x[np.random.RandomState(info["seed"]).permutation(n)]
    return d.rnd(size=info["n"], seed=info["seed"])


def run_limited(fn, limit):
    """run fn() in a worker thread; returns (finished, value-or-exception).  A call that hangs (e.g. on a lock that an
    earlier failed request did not release) must not hang the check."""
    box = {}
    saved = sys.stdout

    def work():
        try:
            box["v"] = fn()
        except BaseException as e:                                 # noqa
            box["e"] = e
    th = threading.Thread(target=work, daemon=True)
    th.start()
    th.join(limit)
    if th.is_alive():
        sys.stdout = saved                                         # the stuck thread may sit inside a redirect_stdout block
        return False, None
    if "e" in box:
        raise box["e"]
    return True, box.get("v")


METHODS = {"wb": ("msm", "pwm", "pwm2"), "gu": ("msm", "pwm", "lse", "mle"), "gm": ("msm", "lse", "mle")}
A_POOL = [0.5, 2.0, 4.0, 3.7, 0.125, 16.0]


def layout(kind, name):
    return ("scale", "shape") if name == "pwm2" else ("loc", "scale", "shape") if kind == "wb" else ("loc", "scale")


def fit_via(Q, kind, name, data, entry, spelling=None):
    """one fit through the module-level estimator or through the class (`Weibull.fit`, `Gumbel.fit`, `GumbelMin().fit`);
    returns the parameters in the order of layout(kind, name).  `spelling`: the same request written differently
    ("positional": fit(data, name); "keyword": fit(data=..., method=...) / estimator(x=...); "np.str_": the method name as
    a numpy string)"""
    with np.errstate(all="ignore"):
        if entry == "module":
            f = getattr(Q["mod"][kind], name)
            return tuple(float(v) for v in (f(x=data) if spelling == "keyword" else f(data)))
        mname = np.str_(name) if spelling == "np.str_" else name
        if kind == "gm":
            g = Q["cls"]["gm"]()
            with contextlib.redirect_stdout(io.StringIO()):    # GumbelMin.fit prints when the estimator raises TypeError
                if spelling == "positional":
                    g.fit(data, mname)
                else:
                    g.fit(data=data, method=mname)
            return float(g.location), float(g.scale)
        if spelling == "positional":
            o = Q["cls"][kind].fit(data, mname)
        elif spelling == "keyword":
            o = Q["cls"][kind].fit(data=data, method=mname)
        else:
            o = Q["cls"][kind].fit(data, method=mname)
        p = tuple(float(v) for v in o.params)
        return p[1:] if name == "pwm2" else p


def tol_of(name):
    return 1e-7 if name in ("msm", "pwm", "pwm2") else 2e-4


def transformed(kind, name, p, a, b):
    """parameters the property demands for the sample a*x+b, given the fit p of x"""
    lay = layout(kind, name)
    return tuple(a * v + b if c == "loc" else a * v if c == "scale" else v for c, v in zip(lay, p))


def same_fit(kind, name, exp, got, tol):
    lay = layout(kind, name)
    if len(got) != len(exp) or not all(math.isfinite(v) for v in got):
        return False
    sc = abs(exp[lay.index("scale")])
    for c, e, g in zip(lay, exp, got):
        lim = tol * (sc + abs(e)) if c == "loc" else tol * sc if c == "scale" else max(tol, 1e-6) * abs(e)
        if not abs(g - e) <= lim:
            return False
    return True


def container_of(lab, v):
    if lab in ("int64", "int32", "int16"):
        return np.asarray(v).astype(lab)
    if lab == "float64":
        return np.array(v, dtype=float)
    if lab == "list-int":
        return [int(t) for t in v]
    if lab == "list-float":
        return [float(t) for t in v]
    if lab == "tuple-float":
        return tuple(float(t) for t in v)
    if lab == "reversed-view":
        return np.array(v, dtype=float)[::-1]
    if lab == "strided-view":
        buf = np.zeros(2 * len(v))
        buf[::2] = v
        return buf[::2]
    if lab == "row-2d":                                            # one row kept two-dimensional, shape (1, n)
        return np.array(v, dtype=float)[None, :]
    if lab == "column-2d":                                         # shape (n, 1)
        return np.array(v, dtype=float)[:, None]
    if lab == "table-row-view":                                    # row of a table of extremes (one row per quantity), a view
        w = np.array(v, dtype=float)
        return np.vstack([0.5 * w[::-1], w, w + 1.0])[1:2, :]
    if lab == "table-column-view":                                 # column of a table (one column per quantity), strided view
        w = np.array(v, dtype=float)
        return np.column_stack([0.5 * w[::-1], w, w + 1.0])[:, 1:2]
    raise ValueError(lab)


LAYOUTS_2D = ("row-2d", "column-2d", "table-row-view", "table-column-view")
COLUMN_LAYOUTS = ("column-2d", "table-column-view")
ORDER_STAT_METHODS = ("pwm", "pwm2", "lse")       # sort along the last axis: defined for samples laid out along the last axis only


def negated(c):
    return -c if isinstance(c, np.ndarray) else type(c)(-t for t in c)


def eval_container(Q, inp):
    """the sample given in another representation (integer dtype, list / tuple of Python numbers, non-contiguous view,
    two-dimensional row / column): the fit equals the fit of the same values as a flat float64 array (x -> 1*x+0),
    equivariance holds starting from that representation, and the minima fit of it is the mirror of the maxima fit of its
    negation (same representation).  Returns [(oracle, expected, observed)], None when the sample is outside the
    estimator's domain."""
    kind, name, lab, entry = inp["dist"], inp["method"], inp["container"], inp["entry"]
    two_d = lab in LAYOUTS_2D
    if lab in COLUMN_LAYOUTS and name in ORDER_STAT_METHODS:
        return None                                # documented domain limit (see chk.assumptions)
    x = make_sample(Q, inp)
    v = np.round(x / inp["quantum"]) if inp.get("quantum") else x
    c = container_of(lab, v)
    try:
        ref = fit_via(Q, kind, name, np.array(c, dtype=float).ravel(), entry)   # same values, same order, flat contiguous float64
    except Exception:
        return None
    if not all(math.isfinite(t) for t in ref):
        return None
    out, tol = [], tol_of(name)
    try:
        got = fit_via(Q, kind, name, c, entry)
    except Exception as e:
        if two_d:
            return None                            # the estimator refuses two-dimensional samples: outside its domain
        return [("estimator must not raise on a valid sample (%s, given as %s)" % (name, lab), list(ref), type(e).__name__)]
    if not same_fit(kind, name, ref, got, tol):
        out.append(("fit(1*x+0) == fit(x): sample given as %s is fitted like the same values as float64 array (method %s, %s entry)"
                    % (lab, name, entry), list(ref), list(got)))
    if isinstance(c, np.ndarray):
        a, b = inp["a"], inp["b"]
        y = a * c + b
        try:
            q = fit_via(Q, kind, name, y, entry)
        except Exception as e:
            return out + [("estimator must not raise on a valid sample (fit of a*x+b, x given as %s)" % lab, list(ref), type(e).__name__)]
        exp = transformed(kind, name, got, a, b)
        if not same_fit(kind, name, exp, q, tol):
            out.append(("fit(a*x+b) == (a*loc+b, a*scale[, shape]) for method %s, x given as %s" % (name, lab), list(exp), list(q)))
    if kind in ("gu", "gm") and name in ("msm", "lse", "mle"):
        okind = "gu" if kind == "gm" else "gm"
        try:
            other = fit_via(Q, okind, name, negated(c), entry)
        except Exception:
            other = None
        if other is not None and all(math.isfinite(t) for t in other):
            exp = (-other[0], other[1])
            mtol = 1e-9 if name == "msm" else 5e-4 if inp.get("quantum") else tol
            if not same_fit(kind, name, exp, got, mtol):
                out.append(("the %s fit of the sample is the mirror of the %s fit of the negated sample (%s, %s entry, both given as %s)"
                            % ("GumbelMin" if kind == "gm" else "Gumbel", "Gumbel" if kind == "gm" else "GumbelMin", name, entry, lab),
                            list(exp), list(got)))
    return out


GM_REJECTS_WITH_DATA = ("unknown-method", "method-not-a-string", "too-many-arguments", "misspelled-keyword")
GM_REJECTS = GM_REJECTS_WITH_DATA + ("unknown-method-no-data", "fit-from-weibull-parameters")
STATELESS_REJECTS = ("unknown-method", "method-not-a-string", "too-many-arguments", "misspelled-keyword", "empty-sample",
                     "string-sample", "none-sample")
# names no estimator table of the distribution contains, whatever the letter case.  Upper-case spellings of VALID names are
# deliberately not in the pool: on the unchanged tree the entry points test `method.lower()` but look up `options[method]`,
# so `GumbelMin().fit(y, method="MSM")` passes the name test, stores y and then fails with KeyError (reported as a defect of
# qats; it is not a rejected request in the sense used here).
BAD_NAMES = {"wb": ("lsq", "pwm3", "", "m s m", "moments"), "gu": ("pwm2", "lsq", "", "m s m", "moments"),
             "gm": ("pwm", "pwm2", "lsq", "", "m s m")}


def do_reject(Q, kind, g, st, y):
    """issue one request that the entry point must reject; `y` is the sample handed over with it (never the current one).
    Returns True when the request raised.  GumbelMin: on the object g of the history; Weibull / Gumbel: class or module."""
    why, bad = st["why"], st.get("bad")
    badm = None if bad == "<None>" else 3 if bad == "<3>" else bad
    if why not in GM_REJECTS + STATELESS_REJECTS + ("constant-sample",):
        raise ValueError("unknown kind of rejected request: %r" % (why,))
    with np.errstate(all="ignore"), contextlib.redirect_stdout(io.StringIO()):
        try:
            if kind == "gm":
                if why in ("unknown-method", "method-not-a-string"):
                    g.fit(data=y, method=badm)
                elif why == "unknown-method-no-data":
                    g.fit(method=badm)
                elif why == "too-many-arguments":
                    g.fit(y, st["method"], False, None)
                elif why == "misspelled-keyword":
                    g.fit(data=y, metod=st["method"])
                else:
                    g.fit_from_weibull_parameters(float(np.min(y)) - 1.0, float(np.std(y)), 2.0, int(np.size(y)))
            else:
                cls, f = Q["cls"][kind], getattr(Q["mod"][kind], st["method"])
                if why in ("unknown-method", "method-not-a-string"):
                    cls.fit(y, method=badm)
                elif why == "too-many-arguments":
                    cls.fit(y, st["method"], False, None) if st.get("entry") == "class" else f(y, None)
                elif why == "misspelled-keyword":
                    cls.fit(y, metod=st["method"]) if st.get("entry") == "class" else f(data=y)
                else:
                    smp = {"empty-sample": np.array([], dtype=float), "string-sample": np.array(["a", "b", "c", "d", "e"]),
                           "none-sample": None, "constant-sample": np.full(np.size(y), float(np.mean(y)))}[why]
                    cls.fit(smp, method=st["method"]) if st.get("entry") == "class" else f(smp)
        except Exception:                                         # noqa
            return True
    return False


def eval_history(Q, inp):
    """a sequence of fits: on ONE GumbelMin object (sample passed to the constructor / to fit / assigned to .data, fitted again
    with the same or another method), or a sequence of Weibull.fit / Gumbel.fit / module-level calls.  After every step the
    parameters must be the mirror image of the Gumbel fit of the negated CURRENT sample and the affine image of the first fit
    with that method; objects returned earlier keep their parameters.  Returns [(oracle, expected, observed)]."""
    kind = inp["dist"]
    x = make_sample(Q, inp)
    out, base, kept = [], {}, []
    g = None
    after_reject = ""
    for i, st in enumerate(inp["steps"]):
        name, a, b, via = st["method"], st["a"], st["b"], st["via"]
        tol = tol_of(name)
        y = a * x + b
        if via == "reject":
            # a request the entry point rejects (it raises): nothing is fitted, the sample of the object (GumbelMin) is the
            # one of its last accepted request; the steps that follow are judged exactly as before
            if kind == "gm" and g is None:
                g = Q["cls"]["gm"]()
            raised = do_reject(Q, kind, g, st, y)
            if raised:
                after_reject = "; after the rejected request of step %d (%s)" % (i, st["why"])
                continue
            if kind == "gm" and st["why"] in GM_REJECTS_WITH_DATA:
                break                                             # the request was accepted: the object holds another sample now
            continue
        try:
            fresh = fit_via(Q, kind, name, np.array(y), "class")
        except Exception:
            fresh = None                                          # outside the estimator's domain
        try:
            with np.errstate(all="ignore"):
                if kind == "gm":
                    if via == "new":
                        g = Q["cls"]["gm"](data=y)
                        g.fit(method=name)
                    elif via == "new-arg":
                        g = Q["cls"]["gm"]()
                        g.fit(data=y, method=name)
                    elif via == "attr":
                        g.data = y
                        g.fit(method=name)
                    elif via == "arg":
                        g.fit(data=y, method=name)
                    else:                                         # "keep": fit again on the sample the object holds
                        g.fit(method=name)
                    got = (float(g.location), float(g.scale))
                elif via == "class":
                    o = Q["cls"][kind].fit(y, method=name)
                    got = tuple(float(t) for t in o.params)
                    kept.append((i, name, o, got))
                    got = got[1:] if name == "pwm2" else got
                else:
                    got = fit_via(Q, kind, name, y, "module")
        except Exception as e:
            if fresh is not None:
                out.append(("step %d (%s, %s): the estimator must not raise on a sample a fresh fit accepts" % (i, name, via),
                            list(fresh), type(e).__name__))
            if kind == "gm":
                break
            continue
        if fresh is None or not all(math.isfinite(t) for t in fresh):
            continue
        if name not in base:
            base[name] = (a, b, got)
        else:
            a0, b0, p0 = base[name]
            r = a / a0
            exp = transformed(kind, name, p0, r, b - r * b0)
            if not same_fit(kind, name, exp, got, tol):
                out.append(("step %d: fit(a*x+b) == (a*loc+b, a*scale[, shape]) for method %s (%s; earlier fits in the same history%s)"
                            % (i, name, "same GumbelMin object, sample via " + via if kind == "gm" else via + " entry", after_reject),
                            list(exp), list(got)))
        if kind in ("gu", "gm") and name in ("msm", "lse", "mle"):
            try:
                other = fit_via(Q, "gu" if kind == "gm" else "gm", name, -np.array(y), "class")
            except Exception:
                other = None
            if other is not None:
                exp = (-other[0], other[1])
                if not same_fit(kind, name, exp, got, 1e-9 if name == "msm" else tol):
                    out.append(("step %d: the %s fit of the current sample is the mirror of the %s fit of the negated sample (%s, %s%s)"
                                % (i, "GumbelMin" if kind == "gm" else "Gumbel", "Gumbel" if kind == "gm" else "GumbelMin", name,
                                   "same object, sample via " + via if kind == "gm" else via + " entry", after_reject),
                                list(exp), list(got)))
        if name == "msm" and kind in ("gu", "gm") and all(math.isfinite(t) for t in got) and got[1] > 0:
            # the method of moments reproduces mean and standard deviation of the CURRENT sample (for a re-used GumbelMin
            # object: the sample of its last accepted request)
            d = Q["cls"][kind](got[0], got[1])
            m, sd = float(np.mean(y)), float(np.std(y, ddof=1))
            if not (abs(float(d.mean) - m) <= 1e-9 * (abs(m) + sd) and close(float(d.std), sd, 1e-9)):
                out.append(("step %d: msm reproduces mean and standard deviation of the current sample (%s%s)"
                            % (i, "same GumbelMin object, sample via " + via if kind == "gm" else via + " entry", after_reject),
                            [m, sd], [float(d.mean), float(d.std)]))
    for i, name, o, p in kept:
        now = tuple(float(t) for t in o.params)
        if now != p:
            out.append(("the object returned by step %d (%s) keeps its parameters when other samples are fitted later" % (i, name),
                        list(p), list(now)))
    return out


def recovered(kind, name, truth, est):
    """the recovery clause (a measurement): parameters of a sample that follows the distribution exactly, n >= 300, are
    recovered within 10 % of the scale (location: of scale + 0.1 |location|; shape: 10 %); measured worst case on the
    unchanged tree for n >= 300: 5 % (Weibull msm), < 1 % for the other methods"""
    lay = layout(kind, name)
    if len(est) != len(truth) or not all(math.isfinite(v) for v in est):
        return False
    sc = abs(truth[lay.index("scale")])
    for c, t, e in zip(lay, truth, est):
        lim = 0.1 * (sc + 0.1 * abs(t)) if c == "loc" else 0.1 * sc if c == "scale" else 0.1 * abs(t)
        if not abs(e - t) <= lim:
            return False
    return True


def eval_firstuse(Q, inp):
    """first use of a sample size in the process / second objects: the sample is fitted FIRST in the given representation
    (integer dtype, list, float64) -- or first as flat float64 (`order`) --, then in the other one; then a*x+b; then a second,
    unrelated float64 sample of the same size and its affine image.  Clauses: flat equality fit(1*x+0) == fit(x),
    equivariance, minima mirror maxima, recovery of the parameters when the sample follows the distribution exactly (values
    in units of scale/1000), the caller's sample is left unchanged.  Returns [(oracle, expected, observed)], None when a
    random sample is outside the estimator's domain."""
    kind, name, lab, entry, sp = inp["dist"], inp["method"], inp["container"], inp["entry"], inp.get("spelling")
    x = make_sample(Q, inp)
    unit = inp.get("quantum") or 1.0
    v = np.round(x / unit) if inp.get("quantum") else x
    c = container_of(lab, v)
    keep = np.array(c)
    flat = np.array(c, dtype=float).ravel()
    out, tol = [], tol_of(name)
    how = "%s, %s entry%s" % (name, entry, ", method name / arguments spelled %s" % sp if sp else "")

    def fin(p_):
        return isinstance(p_, tuple) and all(math.isfinite(t) for t in p_)

    def attempt(data, spelling=None):
        try:
            return fit_via(Q, kind, name, data, entry, spelling)
        except Exception as e:                                    # noqa
            return "%s: %s" % (type(e).__name__, e)
    ref = attempt(flat) if inp.get("order") == "float-first" else None
    got = attempt(c, sp)
    if ref is None:
        ref = attempt(flat)
    if inp.get("exact"):
        truth = tuple(inp[k] / unit if k != "shape" else inp[k] for k in layout(kind, name))
        given_first = inp.get("order") != "float-first"
        for what, est, first in (("given as %s" % lab, got, given_first), ("given as flat float64 array", ref, not given_first)):
            if isinstance(est, str) or not recovered(kind, name, truth, est):
                out.append(("every method recovers the parameters of a large sample that follows the distribution exactly (%d "
                            "quantiles in units of scale/1000, %s, fitted %s; %s; within 10 %%)"
                            % (inp["n"], what, "first" if first else "second", how),
                            list(truth), est if isinstance(est, str) else list(est)))
    elif not fin(got) and not fin(ref):
        return None
    if isinstance(got, str) or isinstance(ref, str):
        if isinstance(got, str) != isinstance(ref, str):
            out.append(("fit(1*x+0) == fit(x): sample given as %s is fitted like the same values as float64 array (%s)" % (lab, how),
                        ref if isinstance(ref, str) else list(ref), got if isinstance(got, str) else list(got)))
        return out
    if fin(ref) != fin(got) or (fin(ref) and not same_fit(kind, name, ref, got, tol)):
        out.append(("fit(1*x+0) == fit(x): sample given as %s is fitted like the same values as float64 array (%s; the %s "
                    "spelling fitted first, first sample of size %d in the process)"
                    % (lab, how, "float64" if inp.get("order") == "float-first" else lab, inp["n"]), list(ref), list(got)))
    if fin(got):
        a, b = inp["a"], inp["b"]
        q = attempt(a * np.asarray(c) + b)
        exp = transformed(kind, name, got, a, b)
        if isinstance(q, str) or not same_fit(kind, name, exp, q, tol):
            out.append(("fit(a*x+b) == (a*loc+b, a*scale[, shape]) for method %s, x given as %s (fitted as the first sample of size "
                        "%d in the process; %s entry)" % (name, lab, inp["n"], entry), list(exp), q if isinstance(q, str) else list(q)))
        if kind in ("gu", "gm") and name in ("msm", "lse", "mle"):
            okind = "gu" if kind == "gm" else "gm"
            try:
                other = fit_via(Q, okind, name, negated(c), entry)
            except Exception:                                     # noqa
                other = None
            if fin(other):
                exp = (-other[0], other[1])
                mtol = 1e-9 if name == "msm" else 5e-4 if inp.get("quantum") else tol
                if not same_fit(kind, name, exp, got, mtol):
                    out.append(("the %s fit of the sample is the mirror of the %s fit of the negated sample (%s, both given as %s)"
                                % ("GumbelMin" if kind == "gm" else "Gumbel", "Gumbel" if kind == "gm" else "GumbelMin", how, lab),
                                list(exp), list(got)))
    # a second, unrelated float64 sample of the same size (second object / second call)
    sec = inp.get("second")
    if sec:
        info2 = dict(sec, dist=kind, n=inp["n"])
        z = make_sample(Q, info2)
        p2 = attempt(np.array(z))
        if sec.get("exact"):
            truth = tuple(sec[k] for k in layout(kind, name))
            if isinstance(p2, str) or not recovered(kind, name, truth, p2):
                out.append(("every method recovers the parameters of a large sample that follows the distribution exactly (%d "
                            "quantiles, float64, fitted after a sample of the same size given as %s; %s; within 10 %%)"
                            % (inp["n"], lab, how), list(truth), p2 if isinstance(p2, str) else list(p2)))
        if fin(p2):
            q2 = attempt(sec["a"] * z + sec["b"])
            exp = transformed(kind, name, p2, sec["a"], sec["b"])
            if isinstance(q2, str) or not same_fit(kind, name, exp, q2, tol):
                out.append(("fit(a*x+b) == (a*loc+b, a*scale[, shape]) for method %s, float64 sample fitted after a sample of the "
                            "same size (%d) given as %s (%s entry)" % (name, inp["n"], lab, entry), list(exp),
                            q2 if isinstance(q2, str) else list(q2)))
    now = np.array(c)
    if now.shape != keep.shape or not np.array_equal(now, keep):
        out.append(("fitting leaves the caller's sample unchanged (given as %s)" % lab, "unchanged", "modified"))
    return out


FIRST_LABS_EXACT = ("int64", "list-int", "int32", "float64", "int64", "list-float")
FIRST_LABS_RANDOM = ("int32", "int64", "list-int", "int16", "tuple-float", "float64")
SPELLINGS = (None, "positional", "keyword", "np.str_")


def gen_firstuse(rng, sizes, kind, name, j):
    """one first-use case for (distribution, method); j rotates representation / order / spelling"""
    exact = name == "pwm2" or j % 2 == 0
    n = sizes["big" if exact else "small"].pop()                   # sizes: shuffled pools of sizes not used yet in this process
    lab = (FIRST_LABS_EXACT if exact else FIRST_LABS_RANDOM)[(j // 2 + (3 if name == "pwm2" else 0)) % 6]
    loc, scale = round(rng.uniform(-20, 20), 2), round(10 ** rng.uniform(-0.5, 1.3), 3)
    info = dict(case="firstuse", dist=kind, loc=loc, scale=scale, n=n, seed=rng.randint(0, 10 ** 6), exact=exact)
    if kind == "wb":
        info["shape"] = rng.choice([1.0, 1.5, 2.0, 3.0])
        info["loc"] = 0.0 if (name == "pwm2" and exact) else max(loc, 0.1) if (name == "pwm2" or rng.random() < 0.5) else loc
    integer = "int" in lab
    quantum = scale / 1000.0 if exact else scale / 8.0 if integer else None
    sc_units = 1000.0 if exact else 8.0 if integer else scale
    a = rng.choice(A_POOL + ([2, 3] if integer else [2.0, 3.0]))
    b = 0.0 if name == "pwm2" else float(round(rng.uniform(1, 10) * rng.choice([-1, 1]) * a * sc_units))
    if isinstance(a, int):
        b = int(b)
    info2 = dict(loc=round(rng.uniform(-20, 20), 2), scale=round(10 ** rng.uniform(-0.5, 1.3), 3), seed=rng.randint(0, 10 ** 6),
                 exact=exact, a=rng.choice(A_POOL))
    if kind == "wb":
        info2["shape"] = rng.choice([1.0, 1.5, 2.0, 3.0])
        info2["loc"] = 0.0 if (name == "pwm2" and exact) else max(info2["loc"], 0.1) if name == "pwm2" else info2["loc"]
    info2["b"] = 0.0 if name == "pwm2" else float(round(rng.uniform(1, 10) * rng.choice([-1, 1]) * info2["a"] * info2["scale"], 2))
    entry = "class" if lab.startswith(("list", "tuple")) else rng.choice(["module", "class"])
    return dict(info, container=lab, method=name, entry=entry, spelling=SPELLINGS[(j + j // 4) % 4], a=a, b=b, quantum=quantum,
                order="float-first" if j % 5 == 4 else "given-first", second=info2)


def app_series(inp, a=1.0, b=0.0, sign=1.0):
    """the time series of an application-level case: k series of n points, noise of standard deviation sigma (white or
    5-point smoothed) around the mean level `level`*sigma; then mapped by x -> sign*(a*x+b)"""
    from collections import OrderedDict
    from qats import TimeSeries
    t = np.arange(inp["n"]) * inp["dt"]
    c = OrderedDict()
    for i in range(inp["k"]):
        rs = np.random.RandomState(inp["seed"] + i)
        w = rs.normal(0.0, 1.0, inp["n"])
        if inp.get("smooth"):
            w = np.convolve(w, np.ones(5) / math.sqrt(5.0), mode="same")
        x = inp["sigma"] * w + inp["level"] * inp["sigma"]
        c["ts%d" % i] = TimeSeries("ts%d" % i, t.copy(), sign * (a * x + b))
    return c


W_KEYS = ("wloc", "wscale", "wshape", "gloc", "gscale")


def eval_app(Q, inp):
    """the application-level computations (qats.app.funcs.calculate_gumbel_fit / calculate_stats) on a container of time series:
    the fit of the minima is the mirror image of the fit of the maxima of the negated series, the fit is the Gumbel pwm fit of
    the sample of extremes, x -> a*x+b on every series transforms location / scale as the property says, and a second call
    on the same container gives the same answer.  Returns [(oracle, expected, observed)]."""
    from qats.app import funcs
    from qats.stats import gumbel
    twin = tuple(inp["twin"]) if inp.get("twin") else None
    a, b = inp["a"], inp["b"]
    out = []
    cont, neg, aff = app_series(inp), app_series(inp, sign=-1.0), app_series(inp, a, b)
    orig = {k: ts.x.copy() for k, ts in cont.items()}

    def near(e, g, sc, tol):
        return (math.isnan(e) and math.isnan(g)) or abs(g - e) <= tol * (abs(sc) + abs(e))

    with np.errstate(all="ignore"):
        if inp["wrapper"] == "gumbel":
            def gfit(c, minima):
                r = funcs.calculate_gumbel_fit(c, twin, None, minima=minima)
                return float(r["loc"]), float(r["scale"]), np.array(r["sample"], dtype=float)
            for minima in inp["order"]:
                what = "minima=True" if minima else "minima=False"
                lo, sc, smp = gfit(cont, minima)
                ext = np.array([(ts.get(twin=twin)[1].min() if minima else ts.get(twin=twin)[1].max()) for ts in cont.values()])
                # the fitted sample: the maxima, or the negated minima
                want = np.sort(-ext if minima else ext)
                if smp.shape != want.shape or not np.allclose(np.sort(smp), want, rtol=1e-12, atol=0.0):
                    out.append(("calculate_gumbel_fit(%s): the fitted sample is the sample of %s of the series"
                                % (what, "negated minima" if minima else "maxima"), want.tolist(), smp.tolist()))
                el, es = (float(t) for t in gumbel.pwm(want))
                if not (near(el, lo, es, 1e-9) and near(es, sc, es, 1e-9)):
                    out.append(("calculate_gumbel_fit(%s): (loc, scale) is the Gumbel pwm fit of the %s" %
                                (what, "negated minima (mirror of the minima fit)" if minima else "maxima"), [el, es], [lo, sc]))
                # mirror through the wrapper itself: minima of x <-> maxima of -x
                ml, ms, msmp = gfit(neg, not minima)
                if not (near(ml, lo, ms, 1e-9) and near(ms, sc, ms, 1e-9)):
                    out.append(("calculate_gumbel_fit(%s) of the series equals calculate_gumbel_fit(%s) of the negated series "
                                "(minima mirror maxima)" % (what, "minima=False" if minima else "minima=True"), [ml, ms], [lo, sc]))
                # equivariance through the wrapper (the returned parameters describe the flipped sample when minima=True)
                ql, qs, _ = gfit(aff, minima)
                exl, exs = (a * lo - b, a * sc) if minima else (a * lo + b, a * sc)
                if not (near(exl, ql, exs, 1e-7) and near(exs, qs, exs, 1e-7)):
                    out.append(("calculate_gumbel_fit(%s) of a*x+b == (a*loc%sb, a*scale)" % (what, "-" if minima else "+"),
                                [exl, exs], [ql, qs]))
            # the same container again: same answer, series untouched
            first = gfit(cont, inp["order"][0])
            again = gfit(cont, inp["order"][0])
            if first[:2] != again[:2]:
                out.append(("calculate_gumbel_fit called twice on the same container gives the same fit", list(first[:2]), list(again[:2])))
        else:
            def sfit(c, minima):
                return funcs.calculate_stats(c, twin, None, minima=minima)
            for minima in inp["order"]:
                what = "minima=True" if minima else "minima=False"
                r, m, q = sfit(cont, minima), sfit(neg, not minima), sfit(aff, minima)
                for nm in r:
                    pr, pm, pq = r[nm], m[nm], q[nm]
                    got = [float(pr[k]) for k in W_KEYS]
                    mir = [float(pm[k]) for k in W_KEYS]
                    sc = got[1] if math.isfinite(got[1]) else 1.0
                    # the statistics report the Weibull / Gumbel parameters of the flipped extremes for minima: identical
                    # to those of the maxima of the negated series; samples and quantiles change sign
                    if not all(near(e, g, sc, 1e-9) for e, g in zip(mir, got)):
                        out.append(("calculate_stats(%s) of %s: Weibull / Gumbel parameters equal those of calculate_stats(%s) of the "
                                    "negated series (minima mirror maxima)" % (what, nm, "minima=False" if minima else "minima=True"),
                                    mir, got))
                    s1, s2 = np.sort(np.asarray(pr["sample"], dtype=float)), np.sort(-np.asarray(pm["sample"], dtype=float))
                    if s1.shape != s2.shape or not np.allclose(s1, s2, rtol=1e-12, atol=0.0):
                        out.append(("calculate_stats(%s) of %s: the sample of extremes is the negated sample of the negated series"
                                    % (what, nm), s2.tolist()[:6], s1.tolist()[:6]))
                    pk = sorted(k for k in pr if k.startswith("p_"))
                    if not all(near(-float(pm[k]), float(pr[k]), sc, 1e-9) for k in pk):
                        out.append(("calculate_stats(%s) of %s: extreme quantiles are the negated quantiles of the negated series"
                                    % (what, nm), [-float(pm[k]) for k in pk], [float(pr[k]) for k in pk]))
                    # equivariance (same number of extremes on both sides, finite fits)
                    aq = [float(pq[k]) for k in W_KEYS]
                    if np.size(pq["sample"]) != np.size(pr["sample"]) or not all(math.isfinite(t) for t in got + aq):
                        continue
                    sb = -b if minima else b
                    exp = [a * got[0] + sb, a * got[1], got[2], a * got[3] + sb, a * got[4]]
                    lim = [1e-6 * (abs(exp[1]) + abs(exp[0])), 1e-6 * abs(exp[1]), 1e-6 * abs(exp[2]),
                           1e-6 * (abs(exp[1]) + abs(exp[3])) * max(1.0, 1.0 / min(got[2], 1.0)), 1e-6 * abs(exp[4]) * max(1.0, 1.0 / min(got[2], 1.0))]
                    if not all(abs(g - e) <= l for e, g, l in zip(exp, aq, lim)):
                        out.append(("calculate_stats(%s) of a*x+b (%s): (wloc, wscale, wshape, gloc, gscale) == (a*wloc%sb, a*wscale, "
                                    "wshape, a*gloc%sb, a*gscale)" % (what, nm, "-" if minima else "+", "-" if minima else "+"), exp, aq))
    for k, ts in cont.items():
        if not np.array_equal(ts.x, orig[k]):
            out.append(("the application-level computation leaves the time series unchanged", "x of %s unchanged" % k, "modified"))
            break
    return out


def signal_of(inp):
    """time vector and signal of a signal-level case: a narrow-banded sum of 40 cosines with Rayleigh amplitudes and uniform
    phases (`sig` = "cosines") or 9-point smoothed white noise ("noise"), normalised to standard deviation `sigma`, around the
    mean level `level`*sigma"""
    rs = np.random.RandomState(inp["seed"])
    n, dt = inp["n"], inp["dt"]
    t = np.arange(n) * dt
    if inp["sig"] == "cosines":
        w = np.zeros(n)
        for om in np.linspace(0.5, 1.5, 40):
            w += rs.rayleigh(0.3) * np.cos(om * (0.1 / dt) * 4.0 * t + rs.uniform(0.0, 2.0 * np.pi))
    else:
        w = np.convolve(rs.normal(0.0, 1.0, n + 8), np.ones(9) / 3.0, mode="valid")
    w = (w - w.mean()) / w.std()
    return t, inp["sigma"] * w + inp["level"] * inp["sigma"]


def signal_repr(lab, x):
    if lab == "strided-view":
        buf = np.zeros(2 * x.size)
        buf[::2] = x
        return buf[::2]
    if lab == "read-only":
        y = np.array(x)
        y.setflags(write=False)
        return y
    return np.array(x)


SIGNAL_ENTRIES = ("fromsignal", "fit_weibull", "maxima+fit")


def eval_signal(Q, inp):
    """the entries that fit a Weibull distribution to the global maxima of a SIGNAL (`Weibull.fromsignal`,
    `TimeSeries.fit_weibull`, `Weibull.fit(ts.maxima())`): mapping the signal by x -> a*x+b maps its global maxima the same
    way, so location and scale transform and the shape stays (pwm2: b = 0); the fit is the fit of the sample of global
    maxima (`find_maxima(x)`, all of them: no threshold); msm reproduces mean / standard deviation / skewness of that sample;
    a second call on the same series / array gives the same parameters and leaves the signal untouched.
    Returns [(oracle, expected, observed)]."""
    from qats import TimeSeries
    from qats.signal import find_maxima
    W = Q["cls"]["wb"]
    a, b = inp["a"], inp["b"]
    twin = tuple(inp["twin"]) if inp.get("twin") else None
    t, x0 = signal_of(inp)
    lab = inp.get("repr", "ndarray")
    x, y = signal_repr(lab, x0), signal_repr(lab, a * x0 + b)
    keep_x = np.array(x)
    ts = {"x": TimeSeries("sig", t.copy(), x), "y": TimeSeries("sig", t.copy(), y)}
    win = {k: np.array(v.get(twin=twin)[1]) for k, v in ts.items()}         # the (windowed) signal the fit is about
    sample = {k: np.array(find_maxima(v)[0], dtype=float) for k, v in win.items()}
    out = []

    def params(o, name):
        p = tuple(float(v) for v in o.params)
        return p[1:] if name == "pwm2" else p

    def fit(entry, which, name):
        with np.errstate(all="ignore"):
            if entry == "fromsignal":
                o = W.fromsignal(win[which] if twin else (x if which == "x" else y), method=name)
            elif entry == "fit_weibull":
                o = ts[which].fit_weibull(twin=twin, method=name)
            else:
                o = W.fit(ts[which].maxima(local=False, threshold=None, twin=twin, rettime=False), method=name)
        return params(o, name)

    for name in inp["methods"]:
        if name == "pwm2" and (b != 0.0 or not (sample["x"].size and np.all(sample["x"] > 0))):
            continue
        tol = tol_of(name)
        ref = {}
        for k in ("x", "y"):
            try:
                with np.errstate(all="ignore"):
                    ref[k] = params(W.fit(sample[k], method=name), name)
            except Exception:
                ref[k] = None
        if ref["x"] is None or ref["y"] is None or not all(math.isfinite(v) for v in ref["x"] + ref["y"]):
            continue                                   # the sample of global maxima is outside the estimator's domain
        for entry in inp["entries"]:
            what = {"fromsignal": "Weibull.fromsignal(x, method=%r)", "fit_weibull": "TimeSeries.fit_weibull(method=%r)",
                    "maxima+fit": "Weibull.fit(ts.maxima(), method=%r)"}[entry] % name
            got = {}
            for k in ("x", "y"):
                try:
                    got[k] = fit(entry, k, name)
                except Exception as e:
                    out.append(("%s must not raise on a signal whose sample of global maxima Weibull.fit accepts (signal %s)"
                                % (what, "x" if k == "x" else "a*x+b"), list(ref[k]), "%s: %s" % (type(e).__name__, e)))
            if len(got) < 2:
                continue
            exp = transformed("wb", name, got["x"], a, b)
            if not same_fit("wb", name, exp, got["y"], tol):
                out.append(("%s of the signal a*x+b == (a*loc+b, a*scale, shape) of the fit of the signal x (the global maxima "
                            "transform with the signal)" % what, list(exp), list(got["y"])))
            for k in ("x", "y"):
                if not same_fit("wb", name, ref[k], got[k], tol):
                    out.append(("%s is the %s fit of the sample of ALL global maxima of the signal (find_maxima(x), no threshold); "
                                "signal %s, %d maxima, %d of them below zero"
                                % (what, name, "x" if k == "x" else "a*x+b", sample[k].size, int(np.sum(sample[k] < 0))),
                                list(ref[k]), list(got[k])))
            if name == "msm":
                for k in ("x", "y"):
                    m = sample[k]
                    d = W(*got[k])
                    m3 = float(np.mean((m - m.mean()) ** 3) / m.var() ** 1.5)
                    if not (abs(d.mean - m.mean()) <= 1e-7 * (abs(m.mean()) + m.std()) and close(d.std, m.std(), 1e-7)
                            and abs(d.skew - m3) < 1e-6 * max(1.0, abs(m3))):
                        out.append(("%s reproduces mean, standard deviation and skewness of the sample of global maxima (signal %s)"
                                    % (what, "x" if k == "x" else "a*x+b"), [float(m.mean()), float(m.std()), m3],
                                    [float(d.mean), float(d.std), float(d.skew)]))
            try:
                again = fit(entry, "x", name)
            except Exception as e:
                again = type(e).__name__
            if again != got["x"]:
                out.append(("%s called again on the same series / array gives the same parameters" % what, list(got["x"]),
                            list(again) if isinstance(again, tuple) else again))
    if not (np.array_equal(np.asarray(x), keep_x) and np.array_equal(ts["x"].x, keep_x)):
        out.append(("fitting leaves the signal unchanged", "x unchanged", "modified"))
    return out


SIGNAL_LEVELS = [-1.0, 0.0, 1.0, -0.5, 0.3, -3.0, 3.0, -60.0, 60.0, -0.1]


def gen_signal(rng, i):
    sigma = round(10 ** rng.uniform(-1, 2), 3)
    level = SIGNAL_LEVELS[i % len(SIGNAL_LEVELS)]
    a = rng.choice(A_POOL)
    # shifts: a few standard deviations either way; one that puts the mean level one standard deviation below zero;
    # one far above; none
    b = [float(round(rng.uniform(-10, 10) * a * sigma, 3)), -a * sigma * (level + 1.0), float(round(100 * a * sigma)) + 1.0, 0.0][(i // 2) % 4]
    n = rng.choice([1500, 3000, 6000])
    dt = rng.choice([0.1, 0.2, 0.5])
    twin = None if rng.random() < 0.6 else [round(0.15 * n * dt, 1), round(0.85 * n * dt, 1)]
    return dict(case="signal", sig="cosines" if i % 3 != 2 else "noise", seed=rng.randint(0, 10 ** 6), n=n, dt=dt, sigma=sigma,
                level=level, a=a, b=b, twin=twin, repr=["ndarray", "ndarray", "strided-view", "read-only"][rng.randrange(4)],
                methods=["msm", "pwm", "pwm2"], entries=list(SIGNAL_ENTRIES))


APP_LEVELS = [0.0, 5.0, -5.0, 60.0, -60.0, 2000.0, -2000.0, 0.0, 4.0]


def gen_app(rng, i):
    sigma = round(10 ** rng.uniform(-1, 2), 3)
    n = rng.choice([200, 400, 1200])
    dt = rng.choice([0.1, 0.5, 1.0])
    a = rng.choice(A_POOL)
    b = rng.choice([float(round(rng.uniform(-10, 10) * a * sigma)), float(round(100 * a * sigma)) + 1.0, -float(round(100 * a * sigma)) - 1.0])
    twin = None if rng.random() < 0.5 else [round(0.2 * n * dt, 1), round(0.9 * n * dt, 1)]
    wrapper = "gumbel" if i % 3 != 2 else "stats"
    level = APP_LEVELS[i % len(APP_LEVELS)]
    if wrapper == "stats":                  # three-parameter Weibull pwm: float error of the location ~ (mean/std)^2 eps
        level = max(-200.0, min(200.0, level))
    return dict(case="app", wrapper=wrapper, seed=rng.randint(0, 10 ** 6), k=rng.choice([2, 3, 6, 12]),
                n=n, dt=dt, sigma=sigma, level=level, smooth=rng.random() < 0.5, twin=twin, a=a, b=b,
                order=rng.choice([[True, False], [False, True], [True]]))


def gen_history(rng, kind, info, positive):
    """random history for one sample; the first step of every method is recorded as that method's reference"""
    sc = info["scale"]
    names = [m for m in METHODS[kind] if m != "pwm2" or positive]
    steps, cur = [], (1.0, 0.0)
    for i in range(rng.choice([3, 4, 6])):
        name = rng.choice(names)
        if kind == "gm":
            via = rng.choice(["new", "new-arg"]) if i == 0 else rng.choice(["attr", "attr", "arg", "keep", "keep"])
        else:
            via = rng.choice(["class", "class", "module"])
        if via != "keep":                       # "keep": the object is fitted again to the sample it already holds
            if i == 0 or rng.random() < 0.25:
                cur = (1.0, 0.0)
            else:
                a = rng.choice(A_POOL)
                cur = (a, 0.0 if name == "pwm2" else float(round(rng.uniform(-10, 10) * a * sc)))
        steps.append(dict(method=name, a=cur[0], b=cur[1], via=via))
        if rng.random() < 0.4:
            steps += gen_reject(rng, kind, names, cur, sc)
    # the same method twice in a row on different samples / the same sample, and a return to the first sample at the end
    m = rng.choice([n for n in names if n != "pwm2"])
    a = rng.choice(A_POOL)
    b = float(round(rng.uniform(-10, 10) * a * sc))
    tail = [dict(method=m, a=1.0, b=0.0, via="attr" if kind == "gm" else "class"),
            dict(method=m, a=a, b=b, via="attr" if kind == "gm" else "class")] + \
        gen_reject(rng, kind, names, (a, b), sc) + \
        [dict(method=m, a=a, b=b, via="keep" if kind == "gm" else "module"),
         dict(method=m, a=1.0, b=0.0, via="arg" if kind == "gm" else "class")]
    return steps + tail


def gen_reject(rng, kind, names, cur, sc):
    """one rejected request (handed a sample different from the current one a*x+b, cur = (a, b)), followed -- for a GumbelMin
    object -- by a re-fit on the sample the object holds"""
    name = rng.choice([n for n in names if n != "pwm2"])
    why = rng.choice(GM_REJECTS if kind == "gm" else STATELESS_REJECTS + (("constant-sample",) if kind == "wb" and name == "msm" else ()))
    a2 = rng.choice([t for t in A_POOL if t != cur[0]])
    st = dict(method=name, via="reject", why=why, a=a2, b=cur[1] + float(round(rng.uniform(2, 10) * a2 * sc)) + 1.0)
    if why.startswith("unknown-method"):
        st["bad"] = rng.choice(BAD_NAMES[kind])
    elif why == "method-not-a-string":
        st["bad"] = rng.choice(["<None>", "<3>"])
    if kind != "gm":
        st["entry"] = "class" if why in ("unknown-method", "method-not-a-string") else rng.choice(["class", "module"])
        return [st]
    return [st, dict(method=rng.choice(names), a=cur[0], b=cur[1], via="keep")]


# ---- long samples: size-conditioned code paths ------------------------------------------------------------------------------------
# Sizes just below / at / just above 1000, 1024, 4096, 10000 and beyond 65536; the extremes of the sample sit in the first / last
# elements of the array handed over, or exactly at / next to / across a multiple of the block length (1000, 1024, 4096, 10000,
# 65536).  The multiset of values is that of an ordinary random (or exact-quantile) sample: only positions are arranged.
LONG_GROUPS = ((999, 1000, 1001, 1023, 1024, 1025), (4095, 4096, 4097), (9999, 10000, 10001), (65535, 65537, 70001, 131073))
LONG_BLOCKS = (1000, 1024, 4096, 10000, 65536)
LONG_PLACES = ("first", "last", "edge", "edge-sorted")


def fsum_moments(x):
    """mean, population variance, third central moment of x by exactly rounded sums (math.fsum)"""
    n = float(len(x))
    m = math.fsum(x) / n
    d = [float(v) - m for v in x]
    return m, math.fsum(t * t for t in d) / n, math.fsum(t * t * t for t in d) / n


def long_sample(Q, inp):
    """the sample of a long case: make_sample (random, or exact quantiles in seeded order), then the three largest values and the
    smallest one are swapped into the positions named by `place` ('edge': around the largest multiple m of `block` below n:
    largest at m, second at m-1, third at 0, smallest at m+1 or m-2; 'edge-sorted': the array is handed over SORTED, so the
    order statistics next to every block boundary are the neighbours in value)"""
    x = np.array(make_sample(Q, inp), dtype=float)
    n, place = x.size, inp["place"]
    if place == "edge-sorted":
        return np.sort(x)
    B = inp.get("block") or 1024
    m = ((n - 1) // B) * B
    if place == "edge" and m >= 3:
        tg = [m, m - 1, 0, m + 1 if m + 1 < n else m - 2]
    elif place == "first":
        tg = [0, 1, 2, 3]
    else:
        tg = [n - 1, n - 2, n - 3, n - 4]
    for r, t in enumerate(tg[:3]):
        i = int(np.argsort(x)[-1 - r])
        x[i], x[t] = x[t], x[i]
    i = int(np.argmin(x))
    x[i], x[tg[3]] = x[tg[3]], x[i]
    return x


def eval_long(Q, inp):
    """clauses of the property on ONE long sample, for every method of the distribution: equivariance under x -> a*x+b; the same
    sample handed over in another order (reversed) is the same sample (x -> 1*x+0); the method of moments reproduces mean,
    standard deviation (and skewness) computed with exactly rounded sums; minima mirror maxima; exact-quantile samples:
    recovery of the parameters.  Returns [(oracle, expected, observed)]."""
    kind, entry = inp["dist"], inp.get("entry", "module")
    x = long_sample(Q, inp)
    n = x.size
    keep = x.copy()
    a, b = inp["a"], inp["b"]
    out = []
    where = "n=%d, extremes placed '%s'%s" % (n, inp["place"], ", block %d" % inp["block"] if inp.get("block") else "")

    def attempt(k, name, data):
        try:
            r = fit_via(Q, k, name, data, entry)
            return r if all(math.isfinite(t) for t in r) else "non-finite: %r" % (r,)
        except Exception as e:                                    # noqa
            return "%s: %s" % (type(e).__name__, e)

    mom = None
    for name in inp.get("methods") or METHODS[kind]:
        tol = tol_of(name)
        if name == "pwm2" and not np.all(x > 0):
            continue
        p = attempt(kind, name, x)
        if isinstance(p, str):
            out.append(("estimator must not raise / return non-finite parameters on a long sample of the distribution (%s, %s)"
                        % (name, where), "fit", p))
            continue
        bb = 0.0 if name == "pwm2" else b
        q = attempt(kind, name, a * x + bb)
        exp = transformed(kind, name, p, a, bb)
        if isinstance(q, str) or not same_fit(kind, name, exp, q, tol):
            out.append(("fit(a*x+b) == (a*loc+b, a*scale[, shape]) for method %s on a long sample (%s)" % (name, where),
                        list(exp), q if isinstance(q, str) else list(q)))
        if not inp.get("lean"):
            r = attempt(kind, name, x[::-1].copy())
            if isinstance(r, str) or not same_fit(kind, name, p, r, tol):
                out.append(("fit(1*x+0) == fit(x): the same long sample handed over in reversed order is fitted alike (method %s, %s)"
                            % (name, where), list(p), r if isinstance(r, str) else list(r)))
        if name == "msm":
            if mom is None:
                mom = fsum_moments(x)
            m, v, m3 = mom
            if kind == "wb":
                d = Q["cls"]["wb"](*p)
                sd, sk = math.sqrt(v), m3 / v ** 1.5
                if not (abs(float(d.mean) - m) <= 1e-7 * (abs(m) + sd) and close(float(d.std), sd, 1e-7)
                        and abs(float(d.skew) - sk) < 1e-6 * max(1.0, abs(sk))):
                    out.append(("msm reproduces sample mean, standard deviation and skewness of a long sample (moments by exactly "
                                "rounded sums; %s)" % where, [m, sd, sk], [float(d.mean), float(d.std), float(d.skew)]))
            else:
                d = Q["cls"][kind](p[0], p[1])
                sd = math.sqrt(v * n / (n - 1.0))
                if not (abs(float(d.mean) - m) <= 1e-9 * (abs(m) + sd) and close(float(d.std), sd, 1e-9)):
                    out.append(("msm reproduces sample mean and (unbiased) standard deviation of a long sample (moments by exactly "
                                "rounded sums; %s, %s)" % ("Gumbel" if kind == "gu" else "GumbelMin", where),
                                [m, sd], [float(d.mean), float(d.std)]))
        if kind in ("gu", "gm") and name in ("msm", "lse", "mle"):
            okind = "gu" if kind == "gm" else "gm"
            other = attempt(okind, name, -x)
            if not isinstance(other, str):
                exp = (-other[0], other[1])
                if not same_fit(kind, name, exp, p, 1e-9 if name == "msm" else tol):
                    out.append(("the %s fit of a long sample is the mirror of the %s fit of the negated sample (%s, %s)"
                                % ("GumbelMin" if kind == "gm" else "Gumbel", "Gumbel" if kind == "gm" else "GumbelMin", name, where),
                                list(exp), list(p)))
        if inp.get("exact") and not (name == "pwm2" and inp["loc"] != 0.0):      # pwm2: the location is zero by assumption
            truth = tuple(inp[k] for k in layout(kind, name))
            if not recovered(kind, name, truth, p):
                out.append(("every method recovers the parameters of a large sample that follows the distribution exactly (%d "
                            "quantiles, %s; %s; within 10 %%)" % (n, name, where), list(truth), list(p)))
    if not np.array_equal(x, keep):
        out.append(("fitting leaves the caller's sample unchanged (long sample)", "unchanged", "modified"))
    return out


def gen_long(rng, n, i):
    kind = ("gu", "wb", "gm")[i % 3]
    scale = round(10 ** rng.uniform(-0.5, 1.3), 3)
    loc = round(rng.uniform(-20, 20), 2)
    info = dict(case="long", dist=kind, loc=loc, scale=scale, n=n, seed=rng.randint(0, 10 ** 6), exact=(i % 4 == 3))
    if kind == "wb":
        info["shape"] = rng.choice([1.0, 1.5, 2.0, 3.0])
        info["loc"] = (0.0 if info["exact"] and rng.random() < 0.5 else max(loc, 0.1)) if rng.random() < 0.6 else loc
    a = rng.choice(A_POOL)
    b = float(round(rng.uniform(2, 10) * rng.choice([-1, 1]) * a * scale, 2))
    blocks = [B for B in LONG_BLOCKS if B + 1 < n] or [None]
    place = LONG_PLACES[(i + rng.randrange(2)) % len(LONG_PLACES)] if blocks[0] else rng.choice(["first", "last", "edge-sorted"])
    return dict(info, a=a, b=b, place=place, block=rng.choice(blocks[-2:]) if place == "edge" else None,
                entry=rng.choice(["module", "class"]))


def run_long(chk, Q, drv, judge, weibull, gumbel, gumbelmin):
    rng = chk.rng
    # every size group x every distribution (quick: one size per pair, at most 70001; thorough: every size x every distribution)
    if chk.quick:
        plan = [(rng.choice(g if gi < 3 else g[:3]), d) for gi, g in enumerate(LONG_GROUPS) for d in range(3)]
    else:
        plan = [(n, d) for g in LONG_GROUPS for n in g for d in range(3)]
    lines, meta = [], []
    for k, (n, d) in enumerate(plan):
        inp = gen_long(rng, n, d + 3 * rng.randrange(4))
        if chk.quick and n > 20000:
            # quick: no reversed-order re-fit of the longest sample; Weibull: pwm2 shares mlj with pwm (each pwm takes ~0.7 s)
            inp["lean"] = True
            if inp["dist"] == "wb":
                inp["methods"] = ["msm", "pwm"]
        chk.dist("long.%s.n%d.%s" % (inp["dist"], n, inp["place"]))
        chk.nontriv("long:%s:%d:%d" % (inp["dist"], n, inp["seed"]))
        judge(eval_long, inp, "long." + inp["dist"])
        # correspondence with the model on the same long sample (closed forms; the line protocol handles 10^4 values in < 1 s)
        if n <= (4097 if chk.quick else 70001):
            try:
                x = long_sample(Q, inp)
                S = " ".join(fbits(v) for v in np.sort(x))
                U = " ".join(fbits(v) for v in x)
                with np.errstate(all="ignore"):
                    if inp["dist"] == "wb":
                        lines.append("est.wbpwm " + S); meta.append((inp, "wbpwm", list(weibull.pwm(x))))
                        if np.all(x > 0):
                            lines.append("est.wbpwm2 " + S); meta.append((inp, "wbpwm2", list(weibull.pwm2(x))))
                    else:
                        lines.append("est.gupwm " + S); meta.append((inp, "gupwm", list(gumbel.pwm(x))))
                        lines.append("est.gumsm " + U); meta.append((inp, "gumsm", list(gumbel.msm(x))))
                        lines.append("est.gmmsm " + U); meta.append((inp, "gmmsm", list(gumbelmin.msm(x))))
            except Exception as e:                                 # noqa
                chk.disagree("est.long", inp, "model value", "%s: %s" % (type(e).__name__, e))
    if lines:
        with np.errstate(all="ignore"):
            outs = drv.run(lines)
        for (inp, what, im), o in zip(meta, outs):
            chk.count("est.long." + what)
            try:
                m = fl(o)
            except Exception:                                      # noqa
                chk.disagree("est.long." + what, inp, o, "ok ...")
                continue
            # (location-type results are differences of large sums: their rounding error over 10^4 .. 10^5 terms -- left fold in the
            # model, pairwise summation in numpy -- is relative to the scale of the sample, not to the location itself)
            sc = max([abs(float(v)) for v in im[:2]] + [0.0]) if len(im) >= 2 else 0.0
            if len(m) != len(im) or not all(close(a_, float(b_), 1e-8) or abs(a_ - float(b_)) <= 1e-9 * sc for a_, b_ in zip(m, im)):
                chk.disagree("est.long." + what, inp, m, [float(v) for v in im])


# ---- population moments: the closed-form Gumbel estimators at the moments of the distribution itself ---------------------------
# Lean: Props/C16 gumbel_beta1, gumbel_m101, gumbel_pwm_population(_exact/_error), gumbelPwm_of_population_moments,
# population_sample_exists, gumbel_msm_population_loc_partial, gumbelMin_msm_population_loc_partial.
# The closed-form step of gumbel.pwm (b = (m0 - 2 m1)/log 2, a = m0 - c b) is NOT separately callable (m0, m1 are locals of
# pwm); it is reached in two ways: (i) the real gumbel.pwm on the two-point ascending sample [2 M101, 2 b0 - 2 M101], whose
# sample moments mk(.,0), mk(.,1) are exactly (b0, M101) (theorem population_sample_exists); (ii) the formulas gu_pwm_b,
# gu_pwm_a that the translator regenerates from the source on every run, executed by the Lean driver (est.gupwmform).
# msm: the real msm on the two-point sample [mean - d, mean + d], d = sqrt(var/2) (unbiased sample std = sqrt(var)), with
# mean and var by quadrature (the variance step pi^2/6 scale^2 is not proved in Lean: measured here).
POP_POOL = [(0.0, 1.0), (1.5, 2.0), (-20.0, 0.3), (1000.0, 7.0), (-3.3, 19.9), (0.0, 0.01), (-1.0e4, 50.0), (7.0, 1.0e3)]
POP_XS = (-2.0, -0.5, 0.0, 1.0, 3.0, 8.0)


def pop_quad(d, loc, scale, weight, minima=False):
    """integral of weight(x, pdf(x), cdf(x)) over the support that carries the mass (pdf < 1e-20/scale outside), pdf / cdf of the
    real distribution object"""
    from scipy.integrate import quad
    lo, hi, pts = -12.0, 50.0, [-2.0, 0.0, 3.0, 10.0]
    if minima:
        lo, hi, pts = -hi, -lo, [-v for v in reversed(pts)]

    def f(x):
        a = np.array([x])
        return float(weight(x, float(d.pdf(x=a)[0]), float(d.cdf(x=a)[0])))
    import warnings
    with warnings.catch_warnings():
        warnings.simplefilter("ignore")                            # "roundoff prevents the requested tolerance" (1e-13) is expected
        return float(quad(f, loc + lo * scale, loc + hi * scale, points=[loc + v * scale for v in pts],
                          epsabs=1e-13, epsrel=1e-13, limit=400)[0])


def eval_population(Q, inp):
    """returns dict(fails=[(oracle, expected, observed)], ties=[(stream, model, impl)], b0=, m101=, pwm_pair=, msm_pair=)"""
    loc, scale = float(inp["loc"]), float(inp["scale"])
    G, L2 = float(np.euler_gamma), math.log(2.0)
    gu, gm = Q["cls"]["gu"](loc, scale), Q["cls"]["gm"](loc, scale)
    fails, ties = [], []
    tol = 1e-7 * scale + 1e-9 * abs(loc)
    tq = 1e-9 * (scale + abs(loc))
    with np.errstate(all="ignore"):
        b0 = pop_quad(gu, loc, scale, lambda x, f, F: x * f)
        b1 = pop_quad(gu, loc, scale, lambda x, f, F: x * F * f)
        m101 = pop_quad(gu, loc, scale, lambda x, f, F: x * (1.0 - F) * f)
        var = pop_quad(gu, loc, scale, lambda x, f, F: (x - b0) ** 2 * f)
        n0 = pop_quad(gm, loc, scale, lambda x, f, F: x * f, minima=True)
        nvar = pop_quad(gm, loc, scale, lambda x, f, F: (x - n0) ** 2 * f, minima=True)
    # theorem values against the implementation's pdf / cdf (tie of the Lean statements to the real objects)
    for nm, model, impl in (("beta0 = loc + gamma*scale", loc + G * scale, b0),
                            ("beta1 = (loc + scale*log2 + gamma*scale)/2", 0.5 * (loc + scale * L2 + G * scale), b1),
                            ("M101 = (loc + gamma*scale - scale*log2)/2", 0.5 * (loc + G * scale - scale * L2), m101),
                            ("M101 = beta0 - beta1", b0 - b1, m101),
                            ("GumbelMin mean = loc - gamma*scale", loc - G * scale, n0)):
        if not abs(model - impl) <= tq:
            ties.append(("population.moment:" + nm, model, impl))
    sh = Q["cls"]["gu"](loc + scale * L2, scale)
    xs = np.array([loc + v * scale for v in POP_XS])
    with np.errstate(all="ignore"):
        F, f, Fs, fs = gu.cdf(x=xs), gu.pdf(x=xs), sh.cdf(x=xs), sh.pdf(x=xs)
    for i in range(len(xs)):
        if not close(float(F[i]) ** 2, float(Fs[i]), 1e-11):
            ties.append(("population.cdf^2 = cdf(loc + scale*log2)", float(Fs[i]), float(F[i]) ** 2))
        if not close(float(F[i] * f[i]), 0.5 * float(fs[i]), 1e-11):
            ties.append(("population.cdf*pdf = pdf(loc + scale*log2)/2", 0.5 * float(fs[i]), float(F[i] * f[i])))
    c = float(Q["mod"]["gu"]._euler_masceroni())
    if not abs(c - G) <= 1e-15:
        ties.append(("population.euler-mascheroni-literal", G, c))
    # the real estimators on two-point samples that carry the population moments exactly
    out = dict(fails=fails, ties=ties, b0=b0, m101=m101, pwm_pair=None, msm_pair=None, gm_mean=n0)
    pair = np.array([2.0 * m101, 2.0 * b0 - 2.0 * m101])
    try:
        with np.errstate(all="ignore"):
            est = [float(v) for v in Q["mod"]["gu"].pwm(pair)]
        out["pwm_pair"] = est
        if not (abs(est[0] - loc) <= tol and abs(est[1] - scale) <= tol):
            fails.append(("gumbel.pwm recovers (loc, scale) from the population probability-weighted moments (beta0 = E[X], "
                          "M101 = E[X(1-F)] by quadrature of the Gumbel object's pdf / cdf; fitted on the two-point sample "
                          "[2 M101, 2 beta0 - 2 M101] whose sample moments are exactly these) to 1e-7", [loc, scale], est))
    except Exception as e:                                         # noqa
        fails.append(("gumbel.pwm must not raise on the two-point sample carrying the population moments", "fit",
                      "%s: %s" % (type(e).__name__, e)))
    for kind, mean, v in (("gu", b0, var), ("gm", n0, nvar)):
        d = math.sqrt(max(v, 0.0) / 2.0)
        try:
            with np.errstate(all="ignore"):
                est = [float(t) for t in Q["mod"][kind].msm(np.array([mean - d, mean + d]))]
            if kind == "gu":
                out["msm_pair"] = est
            else:
                out["gm_msm_pair"] = est
            if not (abs(est[0] - loc) <= tol and abs(est[1] - scale) <= tol):
                fails.append(("%s.msm recovers (loc, scale) from the population mean and variance (quadrature of the object's pdf; "
                              "fitted on the two-point sample [mean - d, mean + d], d = sqrt(var/2)) to 1e-7"
                              % Q["mod"][kind].__name__, [loc, scale], est))
        except Exception as e:                                     # noqa
            fails.append(("%s.msm must not raise on the two-point sample carrying the population moments" % kind, "fit",
                          "%s: %s" % (type(e).__name__, e)))
    return out


def run_population(chk, Q, drv):
    rng = chk.rng
    cases = list(POP_POOL)
    for _ in range(6 if chk.quick else 60):
        cases.append((round(rng.uniform(-50, 50), 2), round(10 ** rng.uniform(-1.5, 1.5), 4)))
    lines, meta = [], []
    for loc, scale in cases:
        inp = dict(case="population", loc=loc, scale=scale)
        chk.dist("population.loc/scale~1e%+d" % (int(round(math.log10(abs(loc) / scale))) if loc else -99))
        chk.nontriv("population:%r:%r" % (loc, scale))
        try:
            r = eval_population(Q, inp)
        except Exception as e:                                     # never a harness crash
            chk.count("population.gu.pwm")
            chk.fail("evaluating the clauses must not raise (population moments)", inp, "moments", "%s: %s" % (type(e).__name__, e))
            continue
        chk.count("population.gu.pwm")
        chk.count("population.gu.msm")
        chk.count("population.gm.msm")
        for stream, model, impl in r["ties"]:
            chk.disagree(stream, inp, model, impl)
        for oracle, exp, obs in r["fails"]:
            chk.fail(oracle, inp, exp, obs, method="pwm" if ".pwm" in oracle else "msm")
        lines.append("est.gupwmform %s %s" % (fbits(r["b0"]), fbits(r["m101"])))
        meta.append((inp, "pwm", r))
        lines.append("est.msmloc %s %s" % (fbits(scale), fbits(r["b0"])))
        meta.append((inp, "msmloc.gu", r))
        lines.append("est.msmloc %s %s" % (fbits(scale), fbits(r["gm_mean"])))
        meta.append((inp, "msmloc.gm", r))
    outs = drv.run(lines)
    for (inp, what, r), o in zip(meta, outs):
        chk.count("est.population." + what)
        loc, scale = inp["loc"], inp["scale"]
        tol = 1e-7 * scale + 1e-9 * abs(loc)
        try:
            m = fl(o)
        except Exception:                                          # noqa
            chk.disagree("est.population." + what, inp, o, "ok ...")
            continue
        if what == "pwm":
            # generated formulas (Lean, Float) at the population moments: (loc, scale) [theorem gumbel_pwm_population] and equal
            # to what the real estimator computes from the same moments
            if not (abs(m[0] - loc) <= tol and abs(m[1] - scale) <= tol):
                chk.disagree("est.population.pwm-formulas-return-loc-scale", inp, m, [loc, scale])
            if r["pwm_pair"] is not None and not all(abs(a - b) <= 1e-9 * (scale + abs(loc)) for a, b in zip(m, r["pwm_pair"])):
                chk.disagree("est.population.pwm-formulas-vs-gumbel.pwm", inp, m, r["pwm_pair"])
        else:
            got = m[0] if what == "msmloc.gu" else m[1]
            if not abs(got - loc) <= tol:
                chk.disagree("est.population.%s-formula-returns-loc" % what, inp, got, loc)
    chk.sample(dict(case="population", loc=cases[1][0], scale=cases[1][1]))


def run(chk):
    from qats.stats import weibull, gumbel, gumbelmin
    from qats.stats.weibull import Weibull
    from qats.stats.gumbel import Gumbel
    from qats.stats.gumbelmin import GumbelMin
    Q = qmods()
    chk.extra["rule"] = RULE
    chk.partial += ["solver convergence (fsolve / leastsq / brentq return a root / minimiser of the function they are given) is "
                    "assumed; checked by evaluating the residual at the returned point",
                    "consistency (recovery of the parameters of an exact large sample) is a measurement on 10^4-point quantile samples; "
                    "proved at the population level for the Gumbel pwm (gumbel_pwm_population*) and for the location step of the "
                    "Gumbel / GumbelMin msm (…_population_loc_partial); not proved: convergence of the sample moments mk(x,k) to "
                    "E[X(1-F)^k], the variance pi^2/6*scale^2 of the Gumbel density (msm scale step), Weibull and the iterative methods"]
    rng = chk.rng
    hung = set()

    def judge(ev, inp, stream, limit=None):
        if hung:                  # an earlier request never returned (reported): whatever it waits for would stop this thread too
            chk.dist(stream.split(".")[0] + ":skipped-after-a-request-that-did-not-return")
            return
        try:
            if limit is None:
                res = ev(Q, inp)
            else:
                done, res = run_limited(lambda: ev(Q, inp), limit)
                if not done:
                    hung.add(stream)
                    res = [("every fit request returns (a sequence of requests on the same object / module, some of them rejected, "
                            "did not return within %g s)" % limit, "returns", "no return after %g s" % limit)]
        except Exception as e:                                     # never a harness crash
            res = [("evaluating the clauses must not raise (%s)" % stream, "fit", "%s: %s" % (type(e).__name__, e))]
        if res is None:
            chk.dist(stream + ":outside-estimator-domain")
            return
        chk.count(stream)
        for oracle, exp, obs in res:
            chk.fail(oracle, inp, exp, obs, method=inp.get("method"))

    # ---- first use: sample sizes nothing else in this run uses, fitted first in an integer / list / float representation ----------
    LIMIT = 10.0 if chk.quick else 60.0
    corpus = core.load_corpus("C16")
    for c in corpus:
        if c.get("case") == "firstuse":
            chk.dist("corpus.firstuse")
            judge(eval_firstuse, c, "firstuse.corpus", LIMIT)
    taken = {8, 20, 50, 120, 400, 10000} | {c.get("n") for c in corpus}
    sizes = dict(small=[n for n in range(64, 300) if n not in taken], big=[n for n in range(300, 900) if n not in taken])
    rng.shuffle(sizes["small"])
    rng.shuffle(sizes["big"])
    reps = 1 if chk.quick else 10
    j = rng.randrange(12)
    for _ in range(reps):
        for kind in ("wb", "gu", "gm"):
            for name in METHODS[kind]:
                iterative = name in ("lse", "mle")
                for _k in range(1 if iterative else 4 if kind == "wb" else 2):
                    j += 1
                    inp = gen_firstuse(rng, sizes, kind, name, j)
                    chk.dist("firstuse.%s.%s.%s" % (inp["container"], "exact" if inp["exact"] else "random", inp["order"]))
                    chk.nontriv("firstuse:%s:%s:%d" % (kind, name, inp["n"]))
                    judge(eval_firstuse, inp, "firstuse.%s.%s" % (kind, name), LIMIT)
    drv = core.Driver()
    N = 40 if chk.quick else 400
    samples = []
    for k in range(N):
        kind = rng.choice(["wb", "gu", "gm"])
        n = rng.choice([8, 20, 50, 120, 400])
        seed = rng.randint(0, 10 ** 6)
        loc = round(rng.uniform(-20, 20), 2)
        scale = round(10 ** rng.uniform(-0.5, 1.3), 3)
        info = dict(dist=kind, loc=loc, scale=scale, n=n, seed=seed)
        if kind == "wb":
            if rng.random() < 0.5:
                info["loc"] = max(loc, 0.0)
            info["shape"] = rng.choice([1.0, 1.5, 2.0, 3.0])
        x = make_sample(Q, info)
        samples.append((kind, x, info))
    # ---- correspondence of the closed forms ------------------------------------------------------------------------------
    lines, meta = [], []
    for kind, x, info in samples:
        xs = np.sort(x)
        S = " ".join(fbits(v) for v in xs)
        for j in range(4):
            lines.append("est.mlj %d %s" % (j, S)); meta.append((info, "mlj%d" % j, [weibull.mlj(x, 1, j)]))
        lines.append("est.wbpwm " + S); meta.append((info, "wbpwm", list(weibull.pwm(x))))
        if np.all(x > 0):
            lines.append("est.wbpwm2 " + S); meta.append((info, "wbpwm2", list(weibull.pwm2(x))))
        lines.append("est.gupwm " + S); meta.append((info, "gupwm", list(gumbel.pwm(x))))
        U = " ".join(fbits(v) for v in x)
        lines.append("est.gumsm " + U); meta.append((info, "gumsm", list(gumbel.msm(x))))
        lines.append("est.gmmsm " + U); meta.append((info, "gmmsm", list(gumbelmin.msm(x))))
    # Weibull msm: the shape comes from the root search (brentq, captured); location / scale / skewness from the model
    for kind, x, info in samples:
        rec, undo = capture(weibull, "brentq")
        try:
            a_, b_, c_ = weibull.msm(x)
        except Exception:
            undo()
            continue
        undo()
        lines.append("est.wbmsm %s %s" % (fbits(c_), " ".join(fbits(v) for v in x)))
        meta.append((info, "wbmsm", [a_, b_, c_, float(rec["args"][0]) if rec.get("args") else float("nan")]))
    with np.errstate(all="ignore"):
        outs = drv.run(lines)
    for (info, what, im), o in zip(meta, outs):
        chk.count("est." + what)
        m = fl(o)
        if not all(close(a, float(b), 1e-8) or (math.isnan(a) and math.isnan(float(b))) for a, b in zip(m, im)):
            chk.disagree("est." + what, info, m, [float(v) for v in im])
    # ---- iterative estimators: captured callables vs model equations ----------------------------------------------------------
    lines, meta = [], []
    for kind, x, info in samples:
        for mod, mname, tag in ((gumbel, "mle", "gumle"), (gumbelmin, "mle", "gmmle")):
            rec, undo = capture(mod, "fsolve")
            try:
                a, b = getattr(mod, mname)(x)
            except Exception as e:
                undo()
                chk.fail("%s.%s must not raise" % (mod.__name__, mname), info, "fit", type(e).__name__)
                continue
            undo()
            z = rec["args"] if not isinstance(rec["args"], tuple) else rec["args"][0]
            for (l, s) in ((a, b), (a + 0.3 * b, 1.2 * b)):
                val = rec["func"]([l, s], z)
                lines.append("est.%s %s %s %s" % (tag, fbits(l), fbits(s), " ".join(fbits(v) for v in z)))
                meta.append((info, tag, [float(v) for v in val], (a, b), (l, s) == (a, b)))
        for mod, tag in ((gumbel, "gulse"), (gumbelmin, "gmlse")):
            rec, undo = capture(mod, "leastsq")
            try:
                a, b = mod.lse(x)
            except Exception as e:
                undo()
                chk.fail("%s.lse must not raise" % mod.__name__, info, "fit", type(e).__name__)
                continue
            undo()
            z, f = rec["args"][0], rec["args"][1]
            val = rec["func"](np.array([a, b]), *rec["args"])
            lines.append("est.%s %s %s %s" % (tag, fbits(a), fbits(b), " ".join(fbits(v) for v in z)))
            meta.append((info, tag, [float(v) for v in val], (a, b), None))
    outs = drv.run(lines)
    for (info, tag, im, ab, at_sol), o in zip(meta, outs):
        chk.count("est." + tag)
        m = fl(o)
        sc = max(1.0, abs(ab[0]), abs(ab[1]))
        if len(m) != len(im) or not all(abs(a - b) <= 1e-8 * sc for a, b in zip(m, im)):
            chk.disagree("est." + tag, dict(info, point=ab), m[:4], im[:4])
        if at_sol and max(abs(v) for v in im) > 1e-6 * sc:
            chk.fail("solver returns a root of the likelihood equations", dict(info, fit=ab), 0.0, im)
    # ---- oracles: equivariance, moments, mirror -----------------------------------------------------------------------------------
    methods = {"wb": [("msm", weibull.msm, 3), ("pwm", weibull.pwm, 3)],
               "gu": [("msm", gumbel.msm, 2), ("pwm", gumbel.pwm, 2), ("lse", gumbel.lse, 2), ("mle", gumbel.mle, 2)],
               "gm": [("msm", gumbelmin.msm, 2), ("lse", gumbelmin.lse, 2), ("mle", gumbelmin.mle, 2)]}
    for kind, x, info in samples:
        chk.nontriv(repr(info))
        a = rng.choice([0.5, 2.0, 4.0, 3.7, 0.125, 16.0])
        # keep a*x+b inside the numerical domain of the likelihood equations (exp(±z/scale) must not overflow):
        # shift by at most ~10 scale units of the transformed sample
        b = float(round(rng.uniform(-10, 10) * a * info["scale"]))
        # further maps: a tiny scale (sample std < 1e-4) for every method; a shift that is huge compared with the spread
        # (|mean|/std ~ 1e5) for the moment estimators only (the likelihood equations would overflow there; the PWM location formula is ill-conditioned in floats by itself: relative error ~ (mean/std)^2 eps)
        maps = [(a, b, None), (2.0 ** -16, 0.0, None), (1.0, float(round(2 ** 17 * info["scale"])), ("msm",))]
        for (a, b, only) in maps:
            y = a * x + b
            for name, f, k in methods[kind]:
                if only is not None and name not in only:
                    continue
                chk.count("equivariance." + kind + "." + name)
                chk.dist("%s.%s" % (kind, name))
                try:
                    with np.errstate(all="ignore"):
                        p = f(x)
                except Exception as e:
                    chk.dist("estimator-raised-on-original:" + type(e).__name__)    # sample outside the estimator's domain
                    continue
                try:
                    with np.errstate(all="ignore"):
                        q = f(y)
                except Exception as e:
                    chk.dist("estimator-raised:" + type(e).__name__)
                    if only is not None or a < 1e-3:
                        chk.fail("estimator must not raise on a valid sample (fit of a*x+b)", dict(info, a=a, b=b, method=name),
                                 "fit", type(e).__name__, method=name)
                    continue
                if not all(np.isfinite(p)) or not all(np.isfinite(q)):
                    chk.dist("non-finite-fit")
                    continue
                tol = 1e-7 if name in ("msm", "pwm") else 2e-4
                if b != 0.0 and only is not None:
                    tol = 1e-5      # |mean|/std ~ 1e5: allow the float cancellation of the centred moments themselves
                sc = abs(p[1])
                exp = (a * p[0] + b, a * p[1]) + ((p[2],) if k == 3 else ())
                ok = abs(q[0] - exp[0]) <= tol * (a * sc + abs(exp[0])) and abs(q[1] - exp[1]) <= tol * a * sc and \
                    (k == 2 or abs(q[2] - p[2]) <= max(tol, 1e-6) * abs(p[2]))
                if not ok:
                    chk.fail("fit(a*x+b) == (a*loc+b, a*scale[, shape]) for method %s" % name, dict(info, a=a, b=b, method=name),
                             [float(v) for v in exp], [float(v) for v in q], method=name)
        # the estimate depends on the sample values only: an array modified in place and passed again
        for name, f, k in methods[kind]:
            buf = np.array(x, dtype=float)
            try:
                with np.errstate(all="ignore"):
                    _ = f(buf)
                    buf *= 2.0
                    buf += 1.0
                    again, fresh = f(buf), f(np.array(buf))
            except Exception:
                continue
            chk.count("inplace." + kind + "." + name)
            if all(np.isfinite(fresh)) and not all(close(float(a), float(b), 1e-9) for a, b in zip(again, fresh)):
                chk.fail("the fit of a sample does not depend on earlier calls (same array object modified in place and fitted again)",
                         dict(info, method=name, a=2.0, b=1.0), [float(v) for v in fresh], [float(v) for v in again], method=name)
        # samples with exact ties (finite-resolution data): minima still mirror maxima
        if kind in ("gu", "gm"):
            xq = np.round(x * 2.0) / 2.0
            if np.unique(xq).size < xq.size and np.unique(xq).size > 3:
                for name in ("msm", "lse", "mle"):
                    chk.count("mirror-ties." + name)
                    try:
                        mx, mn = getattr(gumbel, name)(-xq), getattr(gumbelmin, name)(xq)
                    except Exception:
                        continue
                    tol = 1e-9 if name == "msm" else 5e-4
                    if not (abs(mn[0] + mx[0]) <= tol * (abs(mx[0]) + abs(mx[1])) and abs(mn[1] - mx[1]) <= tol * abs(mx[1])):
                        chk.fail("GumbelMin fit of x is the mirror of the Gumbel fit of -x (%s, sample with repeated values)" % name,
                                 dict(info, method=name, quantised=0.5), [-float(mx[0]), float(mx[1])], [float(mn[0]), float(mn[1])], method=name)
        # two-parameter Weibull: scale equivariance only
        if kind == "wb" and np.all(x > 0):
            p, q = weibull.pwm2(x), weibull.pwm2(a * x)
            chk.count("equivariance.wb.pwm2")
            if not (close(q[0], a * p[0], 1e-8) and close(q[1], p[1], 1e-8)):
                chk.fail("pwm2(a*x) == (a*scale, shape)", dict(info, a=a), [a * p[0], p[1]], list(map(float, q)), method="pwm2")
        # moment exactness
        if kind == "wb":
            try:
                lo, sc, sh = weibull.msm(x)
            except ValueError:
                chk.dist("wb.msm:sample-skewness-outside-bracket")     # outside the estimator's domain (brentq bracket)
                continue
            w = Weibull(lo, sc, sh)
            m3 = np.mean((x - x.mean()) ** 3) / x.var() ** 1.5
            chk.count("moments.wb.msm")
            if not (close(w.mean, x.mean(), 1e-7) and close(w.std, x.std(), 1e-7) and abs(w.skew - m3) < 1e-6):
                chk.fail("msm reproduces sample mean, standard deviation and skewness", info,
                         [float(x.mean()), float(x.std()), float(m3)], [float(w.mean), float(w.std), float(w.skew)], method="msm")
        else:
            cls, mod = (Gumbel, gumbel) if kind == "gu" else (GumbelMin, gumbelmin)
            lo, sc = mod.msm(x)
            g = cls(lo, sc)
            chk.count("moments.%s.msm" % kind)
            if not (abs(g.mean - x.mean()) <= 1e-9 * (abs(x.mean()) + sc) and close(g.std, x.std(ddof=1), 1e-9)):
                chk.fail("msm reproduces sample mean and standard deviation", info, [float(x.mean()), float(x.std(ddof=1))],
                         [float(g.mean), float(g.std)], method="msm")
        # minima mirror maxima
        if kind in ("gu", "gm"):
            for name in ("msm", "lse", "mle"):
                chk.count("mirror." + name)
                try:
                    mx = getattr(gumbel, name)(-x)
                    mn = getattr(gumbelmin, name)(x)
                except Exception:
                    continue
                g = GumbelMin()
                g.fit(data=x, method=name)
                tol = 1e-9 if name == "msm" else 2e-4
                if not (abs(mn[0] + mx[0]) <= tol * (abs(mx[0]) + mx[1]) and abs(mn[1] - mx[1]) <= tol * mx[1]):
                    chk.fail("GumbelMin fit of x is the mirror of the Gumbel fit of -x (%s)" % name, dict(info, method=name),
                             [-float(mx[0]), float(mx[1])], [float(mn[0]), float(mn[1])], method=name)
                if not (close(g.location, mn[0], 1e-12) and close(g.scale, mn[1], 1e-12)):
                    chk.fail("GumbelMin.fit delegates to the module-level estimator", dict(info, method=name),
                             [float(mn[0]), float(mn[1])], [float(g.location), float(g.scale)], method=name)
    # ---- recovery of exact large samples (measurement) -----------------------------------------------------------------------------
    M = 3 if chk.quick else 20
    p = (np.arange(10000) + 0.5) / 10000
    rec_done = []
    for _ in range(M):
        loc, scale, shape = round(rng.uniform(-5, 5), 2), round(10 ** rng.uniform(-0.3, 1), 3), rng.choice([1.5, 2.0, 3.0])
        for kind, d, fits, true in (("wb", Weibull(loc, scale, shape), methods["wb"], (loc, scale, shape)),
                                    ("gu", Gumbel(loc, scale), methods["gu"], (loc, scale)),
                                    ("gm", GumbelMin(loc, scale), methods["gm"], (loc, scale))):
            x = d.invcdf(p=p)
            for name, f, k in fits:
                chk.count("recovery.%s.%s" % (kind, name))
                # the earlier requests of this measurement (same sample size, same process) belong to the failing input
                rec_inp = dict(dist=kind, params=true, method=name, preceding=list(rec_done))
                rec_done.append([kind, list(true), name])
                try:
                    est = f(x)
                except Exception as e:
                    chk.fail("estimator must not raise on an exact sample", rec_inp, "fit", type(e).__name__)
                    continue
                tol = 0.03
                if not (abs(est[0] - true[0]) <= tol * (scale + abs(true[0]) * 0.1) * 3 and abs(est[1] - true[1]) <= tol * scale * 3
                        and (k == 2 or abs(est[2] - true[2]) <= 3 * tol * true[2])):
                    chk.fail("every method recovers the parameters of a large exact sample (10^4 quantiles, 3-9 %%)",
                             rec_inp, list(true), [float(v) for v in est], method=name)
    # ---- population moments: closed-form Gumbel estimators at the moments of the distribution itself (proved; tied here) ----------
    run_population(chk, Q, drv)
    # ---- long samples (size-conditioned code paths): 999..1025, 4095..4097, 9999..10001, > 65536 ------------------------------------
    import time as _time
    _t0 = _time.time()
    run_long(chk, Q, drv, judge, weibull, gumbel, gumbelmin)
    chk.extra["long_stream_wall_s"] = round(_time.time() - _t0, 2)
    # ---- the same sample in other representations; histories of fits on one object / sequences of calls ------------------------
    for c in corpus:
        if c.get("case") == "firstuse":
            continue                                               # done at the start of the run
        chk.dist("corpus." + c.get("case", "?"))
        if c.get("case") == "container":
            judge(eval_container, c, "container.corpus")
        elif c.get("case") == "history":
            judge(eval_history, c, "history.corpus", LIMIT)
        elif c.get("case") == "app":
            judge(eval_app, c, "app.corpus")
        elif c.get("case") == "signal":
            judge(eval_signal, c, "signal.corpus")
    chk.assumptions += ["two-dimensional samples: the estimators built on order statistics (pwm, pwm2, lse) sort along the last "
                        "axis, so a column (n,1) is outside their domain; a layout on which an estimator raises is outside its "
                        "domain as well (on the unchanged tree: lse and the Weibull pwm/pwm2 on every 2-D layout)"]
    labs = ["int64", "int32", "int16", "list-int", "list-float", "tuple-float", "reversed-view", "strided-view"] + list(LAYOUTS_2D)
    for si, (kind, x, info) in enumerate(samples):
        quantum = info["scale"] / 8.0                              # integer-valued samples: x in units of scale/8 (many ties)
        v = np.round(x / quantum)
        positive = bool(np.all(v > 0))
        for name in METHODS[kind]:
            if name == "pwm2" and not positive:
                continue
            iterative = name in ("lse", "mle")
            # all representations for the closed forms (quick and thorough); a rotating subset for the iterative ones in quick
            use = labs if not (iterative and chk.quick) else \
                [labs[(si + j) % 4] for j in (0, 2)] + [rng.choice(labs[4:8]), LAYOUTS_2D[si % 4], LAYOUTS_2D[(si + 1 + si // 4) % 4]]
            for lab in use:
                a = rng.choice(A_POOL + [2, 3])                    # integer a, b keep an integer array integer
                # shift by at most ~10 scale units of the transformed sample (see above)
                b = 0.0 if name == "pwm2" else float(round(rng.uniform(-10, 10) * a * (8 if "int" in lab else info["scale"])))
                if isinstance(a, int):
                    b = int(b)
                    if lab == "int16" and (a * float(np.abs(v).max()) + abs(b)) >= 32000:
                        a, b = 2.0, float(b)
                entry = "class" if lab.startswith(("list", "tuple")) else rng.choice(["module", "class"])
                inp = dict(info, case="container", container=lab, method=name, entry=entry, a=a, b=b,
                           quantum=quantum if "int" in lab else None)
                chk.dist("container." + lab)
                judge(eval_container, inp, "container.%s.%s" % (kind, name))
        for _ in range(1 if chk.quick else 2):
            inp = dict(info, case="history", steps=gen_history(rng, kind, info, bool(np.all(x > 0))))
            chk.dist("history.%s.len%d" % (kind, len(inp["steps"])))
            judge(eval_history, inp, "history." + kind, LIMIT)
    # ---- application-level wrappers on containers of time series (mean level zero / large positive / large negative) ------------
    for i in range(14 if chk.quick else 90):
        inp = gen_app(rng, i)
        chk.dist("app.%s.level%+g" % (inp["wrapper"], inp["level"]))
        chk.nontriv("app:%d:%g" % (inp["seed"], inp["level"]))
        judge(eval_app, inp, "app." + inp["wrapper"])
    # ---- signal-level entries: Weibull.fromsignal / TimeSeries.fit_weibull / Weibull.fit(ts.maxima()) --------------------------
    for i in range(12 if chk.quick else 80):
        inp = gen_signal(rng, i)
        chk.dist("signal.%s.level%+g.%s" % (inp["sig"], inp["level"], "b<0" if inp["b"] < 0 else "b>0" if inp["b"] > 0 else "b=0"))
        chk.nontriv("signal:%d:%g" % (inp["seed"], inp["level"]))
        judge(eval_signal, inp, "signal." + inp["sig"])
    chk.sample(samples[0][2])


def replay(rp):
    from qats.stats import weibull, gumbel, gumbelmin
    from qats.stats.weibull import Weibull
    from qats.stats.gumbel import Gumbel
    from qats.stats.gumbelmin import GumbelMin
    inp = rp["input"]
    if inp.get("case") == "population":
        r = eval_population(qmods(), inp)
        for stream, model, impl in r["ties"]:
            print("TIE BROKEN: %s\n   theorem %s\n   implementation %s" % (stream, model, impl))
        for oracle, exp, obs in r["fails"]:
            print("FAILS: %s\n   expected %s\n   observed %s" % (oracle, exp, obs))
        print("replay: %d failing clause(s)" % len(r["fails"]))
        return 1 if r["fails"] else 0
    if inp.get("case") in ("container", "history", "app", "signal", "firstuse", "long"):
        ev = dict(container=eval_container, history=eval_history, app=eval_app, signal=eval_signal, firstuse=eval_firstuse,
                  long=eval_long)[inp["case"]]
        if inp["case"] in ("history", "firstuse"):                 # may contain rejected requests: never hang
            done, res = run_limited(lambda: ev(qmods(), inp), 15.0)
            if not done:
                res = [("every fit request returns", "returns", "no return after 15 s")]
        else:
            res = ev(qmods(), inp)
        for oracle, exp, obs in res or []:
            print("FAILS: %s\n   expected %s\n   observed %s" % (oracle, exp, obs))
        print("replay: %d failing clause(s)" % len(res or []))
        return 1 if res else 0
    if "seed" not in inp and "params" in inp:                      # recovery measurement on 10^4 exact quantiles
        true, name = tuple(inp["params"]), inp["method"]
        classes, mods = dict(wb=Weibull, gu=Gumbel, gm=GumbelMin), dict(wb=weibull, gu=gumbel, gm=gumbelmin)
        pp = (np.arange(10000) + 0.5) / 10000
        for k0, t0, n0 in inp.get("preceding", []):                # the requests made before it in the same measurement
            try:
                with np.errstate(all="ignore"):
                    getattr(mods[k0], n0)(classes[k0](*t0).invcdf(p=pp))
            except Exception:                                      # noqa
                pass
        x = classes[inp["dist"]](*true).invcdf(p=pp)
        try:
            with np.errstate(all="ignore"):
                est = [float(v) for v in getattr(mods[inp["dist"]], name)(x)]
        except Exception as e:                                     # noqa
            print("FAILS: estimator must not raise on an exact sample: %s: %s" % (type(e).__name__, e))
            return 1
        scale = true[1]
        ok = abs(est[0] - true[0]) <= 0.09 * (scale + abs(true[0]) * 0.1) and abs(est[1] - true[1]) <= 0.09 * scale \
            and (len(true) == 2 or abs(est[2] - true[2]) <= 0.09 * true[2])
        print("%s of 10^4 exact quantiles: true %s, estimated %s" % (name, list(true), est))
        print("replay: %d failing clause(s)" % (0 if ok else 1))
        return 0 if ok else 1
    if "seed" not in inp:
        print("replay of recovery measurement: re-run ./check C16 thorough")
        return 1
    cls = dict(wb=Weibull, gu=Gumbel, gm=GumbelMin)[inp["dist"]]
    d = cls(inp["loc"], inp["scale"], inp.get("shape", 2.0)) if inp["dist"] == "wb" else cls(inp["loc"], inp["scale"])
    x = d.rnd(size=inp["n"], seed=inp["seed"])
    name = inp.get("method", "msm")
    mod = dict(wb=weibull, gu=gumbel, gm=gumbelmin)[inp["dist"]]
    a, b = inp.get("a", 2.0), inp.get("b", 1.0)
    p, q = getattr(mod, name)(x), getattr(mod, name)(a * x + b)
    print("fit(x) =", p, " fit(a*x+b) =", q, " expected", (a * p[0] + b, a * p[1]))
    bad = 0 if abs(q[0] - (a * p[0] + b)) <= 2e-4 * (a * abs(p[1]) + abs(q[0])) and abs(q[1] - a * p[1]) <= 2e-4 * a * abs(p[1]) else 1
    if inp["dist"] in ("gu", "gm") and name in ("msm", "lse", "mle"):
        mx, mn = getattr(gumbel, name)(-x), getattr(gumbelmin, name)(x)
        print("mirror:", mx, mn)
        if abs(mn[0] + mx[0]) > 2e-4 * (abs(mx[0]) + mx[1]) or abs(mn[1] - mx[1]) > 2e-4 * mx[1]:
            bad += 1
    print("replay: %d failing clause(s)" % bad)
    return 1 if bad else 0
