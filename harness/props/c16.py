"""
C16 — estimators are equivariant, moment-exact and consistent; minima mirror maxima.

Tie: translator (closed forms of pwm / pwm2 / msm, skewness equation) + Float correspondence of `weibull.mlj`, the
closed-form estimators, and — for the iterative Gumbel estimators — of the very callables handed to fsolve / leastsq
(captured by wrapping the solvers) with the model's estimating equations / residual vectors.
Search: equivariance, moment exactness, recovery of exact large samples (measurement), minima = mirrored maxima.
"""
import math

import numpy as np

from .. import core
from ..core import fbits, unfbits
from .c05 import close

USES_TRANSLATOR = True
ANCHOR_PREFIX = ("wb_pwm", "wb_msm", "gu_", "gm_", "ecdf_median", "wb_mean", "wb_std", "wb_skew")
RULE = ("seeded samples (n in 8..400) drawn from Weibull / Gumbel / GumbelMin with random parameters, x affine maps a in "
        "{0.5,2,3.7,…}, b in [-50,50]; exact quantile samples of 10^4 points for the recovery measurement; "
        "non-trivial = every sample (all have distinct values); distinct by (distribution, parameters, n, seed)")


def fl(o):
    return [unfbits(t) for t in o.split()[1:]]


def capture(module, name):
    """wrap module.<name> (fsolve / leastsq) to record the function and extra args it is called with"""
    rec = {}
    orig = getattr(module, name)

    def wrapper(func, *a, **kw):
        rec["func"], rec["args"], rec["x0"] = func, kw.get("args", a[1] if len(a) > 1 else ()), (a[0] if a else None)
        out = orig(func, *a, **kw)
        rec["out"] = out
        return out
    setattr(module, name, wrapper)
    return rec, lambda: setattr(module, name, orig)


def run(chk):
    from qats.stats import weibull, gumbel, gumbelmin
    from qats.stats.weibull import Weibull
    from qats.stats.gumbel import Gumbel
    from qats.stats.gumbelmin import GumbelMin
    chk.extra["rule"] = RULE
    chk.partial += ["solver convergence (fsolve / leastsq / brentq return a root / minimiser of the function they are given) is "
                    "assumed; checked by evaluating the residual at the returned point",
                    "consistency (recovery of the parameters of an exact large sample) is a measurement on 10^4-point quantile samples"]
    rng = chk.rng
    drv = core.Driver()
    N = 40 if chk.quick else 400
    samples = []
    for k in range(N):
        kind = rng.choice(["wb", "gu", "gm"])
        n = rng.choice([8, 20, 50, 120, 400])
        seed = rng.randint(0, 10 ** 6)
        loc = round(rng.uniform(-20, 20), 2)
        scale = round(10 ** rng.uniform(-0.5, 1.3), 3)
        if kind == "wb":
            d = Weibull(max(loc, 0.0) if rng.random() < 0.5 else loc, scale, rng.choice([1.0, 1.5, 2.0, 3.0]))
        elif kind == "gu":
            d = Gumbel(loc, scale)
        else:
            d = GumbelMin(loc, scale)
        x = d.rnd(size=n, seed=seed)
        samples.append((kind, x, dict(dist=kind, loc=loc, scale=scale, n=n, seed=seed)))
    # ---- correspondence of the closed forms ------------------------------------------------------------------------------
    lines, meta = [], []
    for kind, x, info in samples:
        xs = np.sort(x)
        S = " ".join(fbits(v) for v in xs)
        for j in range(4):
            lines.append("est.mlj %d %s" % (j, S)); meta.append((info, "mlj%d" % j, [weibull.mlj(x, 1, j)]))
        lines.append("est.wbpwm " + S); meta.append((info, "wbpwm", list(weibull.pwm(x))))
        if np.all(x > 0):
            lines.append("est.wbpwm2 " + S); meta.append((info, "wbpwm2", list(weibull.pwm2(x))))
        lines.append("est.gupwm " + S); meta.append((info, "gupwm", list(gumbel.pwm(x))))
        U = " ".join(fbits(v) for v in x)
        lines.append("est.gumsm " + U); meta.append((info, "gumsm", list(gumbel.msm(x))))
        lines.append("est.gmmsm " + U); meta.append((info, "gmmsm", list(gumbelmin.msm(x))))
    # Weibull msm: the shape comes from the root search (brentq, captured); location / scale / skewness from the model
    for kind, x, info in samples:
        rec, undo = capture(weibull, "brentq")
        try:
            a_, b_, c_ = weibull.msm(x)
        except Exception:
            undo()
            continue
        undo()
        lines.append("est.wbmsm %s %s" % (fbits(c_), " ".join(fbits(v) for v in x)))
        meta.append((info, "wbmsm", [a_, b_, c_, float(rec["args"][0]) if rec.get("args") else float("nan")]))
    with np.errstate(all="ignore"):
        outs = drv.run(lines)
    for (info, what, im), o in zip(meta, outs):
        chk.count("est." + what)
        m = fl(o)
        if not all(close(a, float(b), 1e-8) or (math.isnan(a) and math.isnan(float(b))) for a, b in zip(m, im)):
            chk.disagree("est." + what, info, m, [float(v) for v in im])
    # ---- iterative estimators: captured callables vs model equations ----------------------------------------------------------
    lines, meta = [], []
    for kind, x, info in samples:
        for mod, mname, tag in ((gumbel, "mle", "gumle"), (gumbelmin, "mle", "gmmle")):
            rec, undo = capture(mod, "fsolve")
            try:
                a, b = getattr(mod, mname)(x)
            except Exception as e:
                undo()
                chk.fail("%s.%s must not raise" % (mod.__name__, mname), info, "fit", type(e).__name__)
                continue
            undo()
            z = rec["args"] if not isinstance(rec["args"], tuple) else rec["args"][0]
            for (l, s) in ((a, b), (a + 0.3 * b, 1.2 * b)):
                val = rec["func"]([l, s], z)
                lines.append("est.%s %s %s %s" % (tag, fbits(l), fbits(s), " ".join(fbits(v) for v in z)))
                meta.append((info, tag, [float(v) for v in val], (a, b), (l, s) == (a, b)))
        for mod, tag in ((gumbel, "gulse"), (gumbelmin, "gmlse")):
            rec, undo = capture(mod, "leastsq")
            try:
                a, b = mod.lse(x)
            except Exception as e:
                undo()
                chk.fail("%s.lse must not raise" % mod.__name__, info, "fit", type(e).__name__)
                continue
            undo()
            z, f = rec["args"][0], rec["args"][1]
            val = rec["func"](np.array([a, b]), *rec["args"])
            lines.append("est.%s %s %s %s" % (tag, fbits(a), fbits(b), " ".join(fbits(v) for v in z)))
            meta.append((info, tag, [float(v) for v in val], (a, b), None))
    outs = drv.run(lines)
    for (info, tag, im, ab, at_sol), o in zip(meta, outs):
        chk.count("est." + tag)
        m = fl(o)
        sc = max(1.0, abs(ab[0]), abs(ab[1]))
        if len(m) != len(im) or not all(abs(a - b) <= 1e-8 * sc for a, b in zip(m, im)):
            chk.disagree("est." + tag, dict(info, point=ab), m[:4], im[:4])
        if at_sol and max(abs(v) for v in im) > 1e-6 * sc:
            chk.fail("solver returns a root of the likelihood equations", dict(info, fit=ab), 0.0, im)
    # ---- oracles: equivariance, moments, mirror -----------------------------------------------------------------------------------
    methods = {"wb": [("msm", weibull.msm, 3), ("pwm", weibull.pwm, 3)],
               "gu": [("msm", gumbel.msm, 2), ("pwm", gumbel.pwm, 2), ("lse", gumbel.lse, 2), ("mle", gumbel.mle, 2)],
               "gm": [("msm", gumbelmin.msm, 2), ("lse", gumbelmin.lse, 2), ("mle", gumbelmin.mle, 2)]}
    for kind, x, info in samples:
        chk.nontriv(repr(info))
        a = rng.choice([0.5, 2.0, 4.0, 3.7, 0.125, 16.0])
        # keep a*x+b inside the numerical domain of the likelihood equations (exp(±z/scale) must not overflow):
        # shift by at most ~10 scale units of the transformed sample
        b = float(round(rng.uniform(-10, 10) * a * info["scale"]))
        # further maps: a tiny scale (sample std < 1e-4) for every method; a shift that is huge compared with the spread
        # (|mean|/std ~ 1e5) for the moment estimators only (the likelihood equations would overflow there; the PWM location formula is ill-conditioned in floats by itself: relative error ~ (mean/std)^2 eps)
        maps = [(a, b, None), (2.0 ** -16, 0.0, None), (1.0, float(round(2 ** 17 * info["scale"])), ("msm",))]
        for (a, b, only) in maps:
            y = a * x + b
            for name, f, k in methods[kind]:
                if only is not None and name not in only:
                    continue
                chk.count("equivariance." + kind + "." + name)
                chk.dist("%s.%s" % (kind, name))
                try:
                    with np.errstate(all="ignore"):
                        p = f(x)
                except Exception as e:
                    chk.dist("estimator-raised-on-original:" + type(e).__name__)    # sample outside the estimator's domain
                    continue
                try:
                    with np.errstate(all="ignore"):
                        q = f(y)
                except Exception as e:
                    chk.dist("estimator-raised:" + type(e).__name__)
                    if only is not None or a < 1e-3:
                        chk.fail("estimator must not raise on a valid sample (fit of a*x+b)", dict(info, a=a, b=b, method=name),
                                 "fit", type(e).__name__, method=name)
                    continue
                if not all(np.isfinite(p)) or not all(np.isfinite(q)):
                    chk.dist("non-finite-fit")
                    continue
                tol = 1e-7 if name in ("msm", "pwm") else 2e-4
                if b != 0.0 and only is not None:
                    tol = 1e-5      # |mean|/std ~ 1e5: allow the float cancellation of the centred moments themselves
                sc = abs(p[1])
                exp = (a * p[0] + b, a * p[1]) + ((p[2],) if k == 3 else ())
                ok = abs(q[0] - exp[0]) <= tol * (a * sc + abs(exp[0])) and abs(q[1] - exp[1]) <= tol * a * sc and \
                    (k == 2 or abs(q[2] - p[2]) <= max(tol, 1e-6) * abs(p[2]))
                if not ok:
                    chk.fail("fit(a*x+b) == (a*loc+b, a*scale[, shape]) for method %s" % name, dict(info, a=a, b=b, method=name),
                             [float(v) for v in exp], [float(v) for v in q], method=name)
        # the estimate depends on the sample values only: an array modified in place and passed again
        for name, f, k in methods[kind]:
            buf = np.array(x, dtype=float)
            try:
                with np.errstate(all="ignore"):
                    _ = f(buf)
                    buf *= 2.0
                    buf += 1.0
                    again, fresh = f(buf), f(np.array(buf))
            except Exception:
                continue
            chk.count("inplace." + kind + "." + name)
            if all(np.isfinite(fresh)) and not all(close(float(a), float(b), 1e-9) for a, b in zip(again, fresh)):
                chk.fail("the fit of a sample does not depend on earlier calls (same array object modified in place and fitted again)",
                         dict(info, method=name, a=2.0, b=1.0), [float(v) for v in fresh], [float(v) for v in again], method=name)
        # samples with exact ties (finite-resolution data): minima still mirror maxima
        if kind in ("gu", "gm"):
            xq = np.round(x * 2.0) / 2.0
            if np.unique(xq).size < xq.size and np.unique(xq).size > 3:
                for name in ("msm", "lse", "mle"):
                    chk.count("mirror-ties." + name)
                    try:
                        mx, mn = getattr(gumbel, name)(-xq), getattr(gumbelmin, name)(xq)
                    except Exception:
                        continue
                    tol = 1e-9 if name == "msm" else 5e-4
                    if not (abs(mn[0] + mx[0]) <= tol * (abs(mx[0]) + abs(mx[1])) and abs(mn[1] - mx[1]) <= tol * abs(mx[1])):
                        chk.fail("GumbelMin fit of x is the mirror of the Gumbel fit of -x (%s, sample with repeated values)" % name,
                                 dict(info, method=name, quantised=0.5), [-float(mx[0]), float(mx[1])], [float(mn[0]), float(mn[1])], method=name)
        # two-parameter Weibull: scale equivariance only
        if kind == "wb" and np.all(x > 0):
            p, q = weibull.pwm2(x), weibull.pwm2(a * x)
            chk.count("equivariance.wb.pwm2")
            if not (close(q[0], a * p[0], 1e-8) and close(q[1], p[1], 1e-8)):
                chk.fail("pwm2(a*x) == (a*scale, shape)", dict(info, a=a), [a * p[0], p[1]], list(map(float, q)), method="pwm2")
        # moment exactness
        if kind == "wb":
            try:
                lo, sc, sh = weibull.msm(x)
            except ValueError:
                chk.dist("wb.msm:sample-skewness-outside-bracket")     # outside the estimator's domain (brentq bracket)
                continue
            w = Weibull(lo, sc, sh)
            m3 = np.mean((x - x.mean()) ** 3) / x.var() ** 1.5
            chk.count("moments.wb.msm")
            if not (close(w.mean, x.mean(), 1e-7) and close(w.std, x.std(), 1e-7) and abs(w.skew - m3) < 1e-6):
                chk.fail("msm reproduces sample mean, standard deviation and skewness", info,
                         [float(x.mean()), float(x.std()), float(m3)], [float(w.mean), float(w.std), float(w.skew)], method="msm")
        else:
            cls, mod = (Gumbel, gumbel) if kind == "gu" else (GumbelMin, gumbelmin)
            lo, sc = mod.msm(x)
            g = cls(lo, sc)
            chk.count("moments.%s.msm" % kind)
            if not (abs(g.mean - x.mean()) <= 1e-9 * (abs(x.mean()) + sc) and close(g.std, x.std(ddof=1), 1e-9)):
                chk.fail("msm reproduces sample mean and standard deviation", info, [float(x.mean()), float(x.std(ddof=1))],
                         [float(g.mean), float(g.std)], method="msm")
        # minima mirror maxima
        if kind in ("gu", "gm"):
            for name in ("msm", "lse", "mle"):
                chk.count("mirror." + name)
                try:
                    mx = getattr(gumbel, name)(-x)
                    mn = getattr(gumbelmin, name)(x)
                except Exception:
                    continue
                g = GumbelMin()
                g.fit(data=x, method=name)
                tol = 1e-9 if name == "msm" else 2e-4
                if not (abs(mn[0] + mx[0]) <= tol * (abs(mx[0]) + mx[1]) and abs(mn[1] - mx[1]) <= tol * mx[1]):
                    chk.fail("GumbelMin fit of x is the mirror of the Gumbel fit of -x (%s)" % name, dict(info, method=name),
                             [-float(mx[0]), float(mx[1])], [float(mn[0]), float(mn[1])], method=name)
                if not (close(g.location, mn[0], 1e-12) and close(g.scale, mn[1], 1e-12)):
                    chk.fail("GumbelMin.fit delegates to the module-level estimator", dict(info, method=name),
                             [float(mn[0]), float(mn[1])], [float(g.location), float(g.scale)], method=name)
    # ---- recovery of exact large samples (measurement) -----------------------------------------------------------------------------
    M = 3 if chk.quick else 20
    p = (np.arange(10000) + 0.5) / 10000
    for _ in range(M):
        loc, scale, shape = round(rng.uniform(-5, 5), 2), round(10 ** rng.uniform(-0.3, 1), 3), rng.choice([1.5, 2.0, 3.0])
        for kind, d, fits, true in (("wb", Weibull(loc, scale, shape), methods["wb"], (loc, scale, shape)),
                                    ("gu", Gumbel(loc, scale), methods["gu"], (loc, scale)),
                                    ("gm", GumbelMin(loc, scale), methods["gm"], (loc, scale))):
            x = d.invcdf(p=p)
            for name, f, k in fits:
                chk.count("recovery.%s.%s" % (kind, name))
                try:
                    est = f(x)
                except Exception as e:
                    chk.fail("estimator must not raise on an exact sample", dict(dist=kind, params=true, method=name), "fit", type(e).__name__)
                    continue
                tol = 0.03
                if not (abs(est[0] - true[0]) <= tol * (scale + abs(true[0]) * 0.1) * 3 and abs(est[1] - true[1]) <= tol * scale * 3
                        and (k == 2 or abs(est[2] - true[2]) <= 3 * tol * true[2])):
                    chk.fail("every method recovers the parameters of a large exact sample (10^4 quantiles, 3-9 %%)",
                             dict(dist=kind, params=true, method=name), list(true), [float(v) for v in est], method=name)
    chk.sample(samples[0][2])


def replay(rp):
    from qats.stats import weibull, gumbel, gumbelmin
    from qats.stats.weibull import Weibull
    from qats.stats.gumbel import Gumbel
    from qats.stats.gumbelmin import GumbelMin
    inp = rp["input"]
    if "seed" not in inp:
        print("replay of recovery measurement: re-run ./check C16 thorough")
        return 1
    cls = dict(wb=Weibull, gu=Gumbel, gm=GumbelMin)[inp["dist"]]
    d = cls(inp["loc"], inp["scale"], 2.0) if inp["dist"] == "wb" else cls(inp["loc"], inp["scale"])
    x = d.rnd(size=inp["n"], seed=inp["seed"])
    name = inp.get("method", "msm")
    mod = dict(wb=weibull, gu=gumbel, gm=gumbelmin)[inp["dist"]]
    a, b = inp.get("a", 2.0), inp.get("b", 1.0)
    p, q = getattr(mod, name)(x), getattr(mod, name)(a * x + b)
    print("fit(x) =", p, " fit(a*x+b) =", q, " expected", (a * p[0] + b, a * p[1]))
    bad = 0 if abs(q[0] - (a * p[0] + b)) <= 2e-4 * (a * abs(p[1]) + abs(q[0])) and abs(q[1] - a * p[1]) <= 2e-4 * a * abs(p[1]) else 1
    if inp["dist"] in ("gu", "gm") and name in ("msm", "lse", "mle"):
        mx, mn = getattr(gumbel, name)(-x), getattr(gumbelmin, name)(x)
        print("mirror:", mx, mn)
        if abs(mn[0] + mx[0]) > 2e-4 * (abs(mx[0]) + mx[1]) or abs(mn[1] - mx[1]) > 2e-4 * mx[1]:
            bad += 1
    print("replay: %d failing clause(s)" % bad)
    return 1 if bad else 0
