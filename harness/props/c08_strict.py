"""C08, stream `strict`: histories on databases in a process where every warning is raised as an error and numpy raises on
floating-point errors (pytest -W error, PYTHONWARNINGS=error, np.seterr(all='raise')).  The registry clauses do not mention the
process state: after every operation -- whether it succeeded or raised, for whatever reason -- size, listing, iteration and the three
per-series registers describe the same unique keys, and an operation that raised left the database as it was."""
import os
import shutil
import tempfile

import numpy as np

from .. import core


def _snapshot(db):
    return (list(db.register_keys), sorted(db.register.keys()), sorted(db.register_parent.items()), sorted(db.register_indices.items()),
            {k: id(v) for k, v in db.register.items()})


def run_case(case):
    """[(clause, step, expected, observed)]"""
    import random
    import pandas as pd
    from qats import TimeSeries, TsDB
    from .c08 import coherent
    rng = random.Random(case["seed"])
    root = tempfile.mkdtemp(prefix="qv08s_")
    bad = []
    try:
        paths = []
        for fi in range(2):
            t = np.arange(6) * 0.5
            df = pd.DataFrame({nm: 100.0 * (fi + 1) + j + t for j, nm in enumerate(["a", "b", "c"][: 2 + fi])})
            df.index = t
            p = os.path.join(root, "f%d.pkl" % fi)
            df.to_pickle(p)
            paths.append(p)
        with core.strict_env():
            dbs = {"A": TsDB(), "B": TsDB()}
            for step, op in enumerate(case["ops"]):
                db = dbs[op[1]]
                other = dbs["B" if op[1] == "A" else "A"]
                before = _snapshot(db)
                try:
                    if op[0] == "load":
                        db.load(paths[op[2]], read=op[3])
                    elif op[0] == "add_from":          # a series read from a file-backed database, added to the other database
                        ks = list(other.register_keys)
                        if not ks:
                            continue
                        db.add(other.get(name=ks[op[2] % len(ks)], store=op[3]))
                    elif op[0] == "add_new":
                        db.add(TimeSeries("n%d" % op[2], np.arange(4.0), np.arange(4.0) * op[2]))
                    elif op[0] == "rename":
                        ks = list(db.register_keys)
                        if not ks:
                            continue
                        db.rename(ks[op[2] % len(ks)], "r%d" % op[3])
                    elif op[0] == "clear":
                        ks = list(db.register_keys)
                        if not ks:
                            continue
                        db.clear(names=[ks[op[2] % len(ks)]], display=False)
                    elif op[0] == "update":
                        db.update(other, shallow=bool(op[2]))
                    elif op[0] == "getm":
                        db.getm(names="*", store=bool(op[2]))
                    raised = None
                except Exception as e:      # noqa
                    raised = "%s: %s" % (type(e).__name__, str(e)[:80])
                probs = list(coherent(db))
                if probs:
                    bad.append(("size, listing, iteration and the per-series registers describe the same unique keys after every operation, "
                                "also when warnings are errors and numpy raises on floating-point errors", step,
                                "coherent (operation %s)" % ("raised " + raised if raised else "succeeded"), probs[:3]))
                    break
                if raised is not None and _snapshot(db) != before:
                    bad.append(("an operation that raised leaves the database exactly as it was", step, "unchanged after: " + raised,
                                "keys now %s" % list(db.register_keys)[:8]))
                    break
    finally:
        shutil.rmtree(root, ignore_errors=True)
    return bad


def gen_case(rng):
    ops = [["load", "A", 0, rng.random() < 0.5]]
    for _ in range(rng.randint(4, 9)):
        k = rng.choice(["load", "add_from", "add_from", "add_new", "rename", "clear", "update", "getm"])
        w = rng.choice(["A", "B", "B"])
        if k == "load":
            ops.append([k, w, rng.randrange(2), rng.random() < 0.5])
        elif k == "add_from":
            ops.append([k, w, rng.randrange(5), rng.random() < 0.5])
        elif k in ("add_new", "clear"):
            ops.append([k, w, rng.randrange(5)])
        elif k == "rename":
            ops.append([k, w, rng.randrange(5), rng.randrange(3)])
        else:
            ops.append([k, w, rng.randrange(2)])
    return dict(kind="strict", seed=rng.randrange(10 ** 6), ops=ops)


def run_strict(chk):
    for _ in range(25 if chk.quick else 300):
        case = gen_case(chk.rng)
        chk.count("strict")
        chk.nontriv(("strict", repr(case["ops"])))
        try:
            bad = run_case(case)
        except Exception as e:      # noqa
            bad = [("a history in the strict process state can be evaluated", -1, "clauses", "raised %s: %s" % (type(e).__name__, e))]
        for clause, step, exp, obs in bad[:1]:
            chk.fail(clause, dict(case, first_difference_at_op=step), exp, obs)


def replay_strict(inp):
    bad = run_case({k: v for k, v in inp.items() if k != "first_difference_at_op"})
    for clause, step, exp, obs in bad:
        print("FAILS: %s | step %s | expected %s | observed %s" % (clause, step, exp, obs))
    print("replay: %d failing clause(s)" % len(bad))
    return 1 if bad else 0
